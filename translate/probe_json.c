// Translator probe for the JSON text layer (C13): constants the Lean model mentions.
#include "iwjson.h"
#include "iwjson_internal.h"
#include "iwconv.h"
#include <stdio.h>
#define P(n) printf(#n " %llu\n", (unsigned long long) (n))
int main(void) {
  P(JBL_MAX_NESTING_LEVEL);
  P(JBL_PRINT_PRETTY); P(JBL_PRINT_CODEPOINTS); P(JBL_PRINT_PRETTY_INDENT2); P(JBL_PRINT_PRETTY_INDENT4);
  return 0;
}
