// Translator probe for the WAL format (C05/C04): struct sizes, field offsets, opcodes, crc table.
#include "iwal.h"
#include "iwutils.c"   /* iwu_crc32 (table is function-static: sampled byte by byte) */
#include <stdio.h>
#include <stddef.h>
#include <unistd.h>
#define P(n) printf(#n " %llu\n", (unsigned long long) (n))
#define SZ(s) printf("sz_" #s " %zu\n", sizeof(s))
#define PO(s, f) printf("off_" #s "_" #f " %zu\n", offsetof(s, f))
#define PW(s, f) printf("w_" #s "_" #f " %zu\n", sizeof(((s*) 0)->f))
int main(void) {
  P(WOP_SET); P(WOP_COPY); P(WOP_WRITE); P(WOP_RESIZE); P(WOP_SAVEPOINT); P(WOP_RESET); P(WOP_SEP);
  SZ(WBSEP); SZ(WBSET); SZ(WBCOPY); SZ(WBWRITE); SZ(WBRESIZE); SZ(WBSAVEPOINT); SZ(WBRESET);
  PO(WBSEP, crc); PO(WBSEP, len); PW(WBSEP, crc); PW(WBSEP, len);
  PO(WBSET, val); PO(WBSET, off); PO(WBSET, len); PW(WBSET, val); PW(WBSET, off); PW(WBSET, len);
  PO(WBCOPY, off); PO(WBCOPY, len); PO(WBCOPY, noff); PW(WBCOPY, off); PW(WBCOPY, len); PW(WBCOPY, noff);
  PO(WBWRITE, crc); PO(WBWRITE, len); PO(WBWRITE, off); PW(WBWRITE, crc); PW(WBWRITE, len); PW(WBWRITE, off);
  PO(WBRESIZE, osize); PO(WBRESIZE, nsize); PW(WBRESIZE, osize); PW(WBRESIZE, nsize);
  PO(WBSAVEPOINT, ts); PW(WBSAVEPOINT, ts);
  printf("PAGE_SIZE %ld\n", sysconf(_SC_PAGESIZE));
  printf("table crc32");
  for (int b = 0; b < 256; ++b) { uint8_t x = (uint8_t) b; printf(" %u", iwu_crc32(&x, 1, 0)); }
  printf("\n");
  /* the update rule itself: crc of two bytes must follow the MSB-first table recurrence */
  { uint8_t ab[2] = { 0x12, 0xfe }; uint8_t a = 0x12; uint32_t c1 = iwu_crc32(&a, 1, 0);
    uint8_t idx = (uint8_t) ((c1 >> 24) ^ 0xfe); uint32_t t = iwu_crc32(&idx, 1, 0);
    printf("crc_rule_ok %d\n", iwu_crc32(ab, 2, 0) == ((c1 << 8) ^ t)); }
  return 0;
}
