// Translator probe for iwstrtod (C13): libm's pow(10.0, (double) e) is tabulated, not modelled.
// Prints the bit patterns of pow(10, e) for the range of e with a finite non-zero result, whether errno is set there,
// and checks that outside that range (up to the largest |e| iwstrtod can pass) the result saturates to inf / 0 with
// ERANGE.  Also the double literals iwstrtod mentions, as this compiler reads them.
#include <errno.h>
#include <math.h>
#include <stdint.h>
#include <stdio.h>
#include <string.h>

static uint64_t bits(double d) { uint64_t b; memcpy(&b, &d, 8); return b; }

#define EMAX 1000009   // the exponent accumulator stops growing at 100000: |e| <= 999999

int main(void) {
  volatile double ten = 10.0;
  int lo = 0, hi = 0;
  for (int e = 0; e >= -EMAX; --e) {
    errno = 0;
    double r = pow(ten, (double) e);
    if (r == 0.0) break;
    lo = e;
  }
  for (int e = 0; e <= EMAX; ++e) {
    errno = 0;
    double r = pow(ten, (double) e);
    if (isinf(r)) break;
    hi = e;
  }
  int sat = 1;
  for (int e = lo - 1; e >= -EMAX; --e) {
    errno = 0;
    double r = pow(ten, (double) e);
    if (bits(r) != 0 || errno != ERANGE) sat = 0;
  }
  for (int e = hi + 1; e <= EMAX; ++e) {
    errno = 0;
    double r = pow(ten, (double) e);
    if (bits(r) != 0x7ff0000000000000ULL || errno != ERANGE) sat = 0;
  }
  printf("pow10Lo %d\n", -lo);
  printf("pow10Hi %d\n", hi);
  printf("pow10Saturates %d\n", sat);
  printf("table pow10");
  int anyerr = 0;
  for (int e = lo; e <= hi; ++e) {
    errno = 0;
    double r = pow(ten, (double) e);
    if (errno) anyerr = 1;
    printf(" %llu", (unsigned long long) bits(r));
  }
  printf("\n");
  printf("pow10ErrnoInside %d\n", anyerr);
  volatile double a = 2.2250738585072011, b = 2.2250738585072012, c = 1.0e-308, t = 0.1, x = 10.0;
  printf("litMinA %llu\n", (unsigned long long) bits(a));
  printf("litMinB %llu\n", (unsigned long long) bits(b));
  printf("lit1em308 %llu\n", (unsigned long long) bits(c));
  printf("litTenth %llu\n", (unsigned long long) bits(t));
  printf("litTen %llu\n", (unsigned long long) bits(x));
  return 0;
}
