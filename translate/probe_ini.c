// Translator probe for the ini parser (C17): compiled against /repo's current sources on every run.
// Buffer sizes and configuration switches are taken from the compiled translation unit (macros as the
// compiler sees them), the size handed to the reader is observed by running the parser.
#include "iwini.c"
#include <stdio.h>

static int seen_num = -1;
static char* probe_reader(char *str, int num, void *stream) {
  (void) str; (void) stream;
  if (seen_num < 0) seen_num = num;
  return 0;
}
static int probe_handler(void *user, const char *section, const char *name, const char *value) {
  (void) user; (void) section; (void) name; (void) value;
  return 1;
}

static void table(const char *name, const char *s) {
  printf("table %s", name);
  for ( ; *s; ++s) printf(" %u", (unsigned) (unsigned char) *s);
  printf("\n");
}

int main(void) {
  printf("INI_MAX_LINE %d\n", (int) IWINI_MAX_LINE);
  printf("INI_MAX_SECTION %d\n", (int) MAX_SECTION);
  printf("INI_MAX_NAME %d\n", (int) MAX_NAME);
  printf("INI_USE_STACK %d\n", (int) IWINI_USE_STACK);
  printf("INI_ALLOW_MULTILINE %d\n", (int) IWINI_ALLOW_MULTILINE);
  printf("INI_ALLOW_BOM %d\n", (int) IWINI_ALLOW_BOM);
  printf("INI_ALLOW_INLINE_COMMENTS %d\n", (int) IWINI_ALLOW_INLINE_COMMENTS);
  printf("INI_STOP_ON_FIRST_ERROR %d\n", (int) IWINI_STOP_ON_FIRST_ERROR);
  printf("INI_CALL_HANDLER_ON_NEW_SECTION %d\n", (int) IWINI_CALL_HANDLER_ON_NEW_SECTION);
  printf("INI_ALLOW_NO_VALUE %d\n", (int) IWINI_ALLOW_NO_VALUE);
  printf("INI_HANDLER_LINENO %d\n", (int) IWINI_HANDLER_LINENO);
  iwini_parse_stream(probe_reader, 0, probe_handler, 0);
  printf("INI_READER_NUM %d\n", seen_num);
  table("iniStartPrefixes", IWINI_START_COMMENT_PREFIXES);
#if IWINI_ALLOW_INLINE_COMMENTS
  table("iniInlinePrefixes", IWINI_INLINE_COMMENT_PREFIXES);
#else
  table("iniInlinePrefixes", "");
#endif
  printf("table iniIsSpace");
  for (int c = 0; c < 256; ++c) printf(" %d", iwchars_is_space((char) c) ? 1 : 0);
  printf("\n");
  return 0;
}
