// Translator probe for the extensible file (C12): constants the model uses, taken from the current sources.
#include "iwexfile.h"
#include "iwp.c"   /* iwp_alloc_unit (unix.c is included by iwp.c); unused functions are garbage-collected at link time */
#include <stdio.h>
#define P(n) printf(#n " %llu\n", (unsigned long long) (n))
int main(void) {
  printf("EXF_PSIZE %llu\n", (unsigned long long) iwp_alloc_unit());
  P(IWFS_MMAP_SHARED); P(IWFS_MMAP_PRIVATE); P(IWFS_MMAP_RANDOM);
  printf("EXF_OFF_T_MAX %llu\n", (unsigned long long) OFF_T_MAX);
  return 0;
}
