// Translator probe for the allocator model (C10/C11): constants of src/fs/iwfsmfile.{h,c}.
#include "iwfsmfile.c"
#include <stdio.h>
#define P(n) printf(#n " %llu\n", (unsigned long long) (n))
int main(void) {
  P(IWFSM_CUSTOM_HDR_DATA_OFFSET); P(FSM_MAX_STATS_COUNT); P(FSM_MAX_BLOCK_POW);
  P(IWFSM_ALLOC_NO_OVERALLOCATE); P(IWFSM_ALLOC_NO_EXTEND); P(IWFSM_ALLOC_PAGE_ALIGNED); P(IWFSM_ALLOC_NO_STATS);
  P(IWFSM_SOLID_ALLOCATED_SPACE); P(IWFSM_SYNC_BMAP); P(IWFSM_STRICT); P(IWFSM_NO_TRIM_ON_CLOSE); P(IWFSM_CLEAR_TRIM);
  return 0;
}
