// Translator probe for the text-consuming functions (C17): compiled against /repo's current sources on every run.
#include "iwjser.c"   /* _jbl_unescape_json_string */
#include "utf8proc.c" /* utf8proc_encode_char, utf8proc_codepoint_valid (the probe is linked on its own) */
#include <stdio.h>
#include <stddef.h>
int main(void) {
  printf("JBL_PTR_SIZEOF %zu\n", sizeof(struct jbl_ptr));
  printf("JBL_PTR_OFF_N %zu\n", offsetof(struct jbl_ptr, n));
  printf("JBL_PTR_SLOT %zu\n", sizeof(char*));
  printf("JBL_MAX_NESTING_LEVEL %d\n", JBL_MAX_NESTING_LEVEL);
  /* what a backslash followed by byte e turns into: <256 = that single byte (a recognised escape),
     256 = not an escape (the backslash is kept, e is read again), 257 = the \uXXXX form */
  printf("table unescMap 256");
  for (int e = 1; e < 256; ++e) {
    char q = (e == 1) ? 2 : 1;
    char in[4] = { '\\', (char) e, q, 0 };
    char out[8] = { 0 };
    JCTX ctx = { 0 };
    const char *end = 0;
    int len = _jbl_unescape_json_string(&ctx, q, in, out, sizeof(out), &end);
    if (ctx.rc) printf(" 257");
    else if (len == 1 && end == in + 3) printf(" %u", (unsigned) (unsigned char) out[0]);
    else if (len == 2 && (unsigned char) out[0] == '\\' && (unsigned char) out[1] == e) printf(" 256");
    else if (len == 1 && end == in + 2 && out[0] == '\\') printf(" 256");   /* e is the closing quote */
    else printf(" 999");
  }
  printf("\n");
  return 0;
}
