// Translator probe for the JSON text layer (C13/C17): the escape tables are read off the behaviour of the public API
// (parse `"\x"` for every letter x; print every control byte), not off the source text: a rewrite of the functions
// that keeps the tables regenerates the same Lean file.
#include "iwjson.h"
#include "iwxstr.h"
#include "iwpool.h"
#include <stdio.h>
#include <string.h>
int main(void) {
  iwrc rc = iw_init();
  if (rc) return 2;
  // single-letter escapes of the parser: (letter, decoded byte)
  printf("table unesc");
  for (int c = 'a'; c <= 'z'; ++c) {
    if (c == 'u') continue;
    char text[8]; snprintf(text, sizeof text, "\"\\%c\"", c);
    struct iwpool *pool = iwpool_create(256);
    struct jbl_node *n = 0;
    rc = jbn_from_json(text, &n, pool);
    if (!rc && n && n->type == JBV_STR && n->vsize == 1 && (unsigned char) n->vptr[0] != c) printf(" %d %d", c, (unsigned char) n->vptr[0]);
    iwpool_destroy(pool);
  }
  printf("\n");
  // short escapes of the printer: for byte b the letter written after the backslash, 0 = none
  printf("table short");
  for (int b = 1; b < 32; ++b) {
    char v = (char) b;
    struct jbl_node n = { .type = JBV_STR, .vptr = &v, .vsize = 1 };
    struct iwxstr *x = iwxstr_create_empty();
    rc = jbn_as_json(&n, jbl_xstr_json_printer, x, 0);
    const char *s = iwxstr_ptr(x); size_t l = iwxstr_size(x);
    int letter = (!rc && l == 4 && s[0] == '"' && s[1] == '\\' && s[2] != 'u' && s[3] == '"') ? (unsigned char) s[2] : 0;
    printf(" %d", letter);
    iwxstr_destroy(x);
  }
  printf("\n");
  return 0;
}
