"""Source-text fingerprints of the C functions a model mirrors (informational tie).

For every property, checks/cXX.py may define MODELLED = {"src/kv/iwkv.c": ["_lx_addkv", ...]}.  On every run the
text of each function (from its header line at column 0 to the closing brace at column 0, comments and blank
lines stripped) is hashed and compared with translate/funchash.json (committed, refreshed with
`python3 -m translate.funchash --update` after the model was reviewed against the code).  A difference does not
raise an alarm by itself - behaviour is judged by the correspondence run - but it is written into the evidence so a
reader sees which modelled functions were edited since the model was last reviewed."""
import hashlib, json, os, re, sys
from vlib import common as C

DB = os.path.join(C.ROOT, "translate", "funchash.json")


def func_text(path, name):
    try:
        t = open(os.path.join(C.REPO, path), errors="replace").read()
    except OSError:
        return None
    m = re.search(r"^(?:[A-Za-z_][^\n;{}()]*?[ \*])?%s\s*\([^;{]*?\)\s*\{" % re.escape(name), t, re.M | re.S)
    if not m:
        return None
    end = t.find("\n}", m.end())
    body = t[m.start():end + 2]
    body = re.sub(r"/\*.*?\*/", "", body, flags=re.S)
    body = re.sub(r"//[^\n]*", "", body)
    return "\n".join(l.rstrip() for l in body.splitlines() if l.strip())


def fingerprints(modelled):
    out = {}
    for path, names in modelled.items():
        for n in names:
            tx = func_text(path, n)
            out["%s:%s" % (path, n)] = hashlib.sha256(tx.encode()).hexdigest()[:16] if tx else "missing"
    return out


def compare(pid, modelled):
    cur = fingerprints(modelled)
    try:
        ref = json.load(open(DB)).get(pid, {})
    except Exception:
        ref = {}
    changed = sorted(k for k in cur if ref.get(k) not in (None, cur[k]))
    new = sorted(k for k in cur if k not in ref)
    return cur, changed, new


if __name__ == "__main__":
    import importlib
    sys.path.insert(0, C.ROOT)
    db = {}
    for f in sorted(os.listdir(os.path.join(C.ROOT, "checks"))):
        if re.fullmatch(r"c\d\d\.py", f):
            mod = importlib.import_module("checks." + f[:-3])
            m = getattr(mod, "MODELLED_FUNCS", None)
            if m:
                db[f[:-3].upper()] = fingerprints(m)
    if "--update" in sys.argv:
        json.dump(db, open(DB, "w"), indent=1, sort_keys=True)
    print({k: len(v) for k, v in db.items()}, "missing:", [k for v in db.values() for k, h in v.items() if h == "missing"])
