// Translator probe: compiled against /repo's current sources on every run.
// Prints `name value` lines (decimal) and `table name v0 v1 ...` lines.
#include "iwkv.c"   /* file-static items of the KV layer (and iwkv_internal.h) */
#include "iwconv.c" /* ascii2hex table */
#include <stdio.h>
#undef P
#define P(n) printf(#n " %llu\n", (unsigned long long) (n))
#define PO(s, f) printf("off_" #s "_" #f " %zu\n", offsetof(s, f))
int main(void) {
  P(IWKV_FSM_BPOW); P(KVHDRSZ); P(PREFIX_KEY_LEN_V2); P(SLEVELS); P(DB_SZ); P(SBLK_SZ);
  P(SBLK_PAGE_SBLK_NUM_V2); P(KVBLK_IDXNUM); P(KVBLK_INISZPOW); P(KVBLK_HDRSZ); P(KVBLK_MAX_IDX_SZ);
  P(KVBLK_MAX_NKV_SZ); P(IWKV_MAX_KVSZ); P(IW_VNUMBUFSZ); P(IWNUMBUF_SIZE);
  P(SOFF_FLAGS_U1); P(SOFF_LVL_U1); P(SOFF_LKL_U1); P(SOFF_PNUM_U1); P(SOFF_P0_U4); P(SOFF_KBLK_U4);
  P(SOFF_PI0_U1); P(SOFF_N0_U4); P(SOFF_BPOS_U1_V2); P(SOFF_LK_V2); P(SOFF_END);
  P(DOFF_MAGIC_U4); P(DOFF_DBFLG_U1); P(DOFF_DBID_U4); P(DOFF_NEXTDB_U4); P(DOFF_P0_U4);
  P(DOFF_N0_U4); P(DOFF_C0_U4); P(DOFF_METABLK_U4); P(DOFF_METABLKN_U4); P(DOFF_END);
  P(IWDB_VNUM64_KEYS); P(IWDB_COMPOUND_KEYS); P(IWDB_REALNUM_KEYS);
  P(IWKV_NO_OVERWRITE); P(IWKV_VAL_INCREMENT); P(IWKV_SYNC);
  P(IWFSM_MAGICK); P(IWKV_MAGIC); P(IWDB_MAGIC); P(IWFSM_CUSTOM_HDR_DATA_OFFSET); P(SBLK_PERSISTENT_FLAGS); P(SBLK_FULL_LKEY);
  P(IWKV_ERROR_NOTFOUND); P(IWKV_ERROR_KEY_EXISTS); P(IWKV_ERROR_MAXKVSZ); P(IWKV_ERROR_CORRUPTED);
  P(IWKV_ERROR_DUP_VALUE_SIZE); P(IWKV_ERROR_KEY_NUM_VALUE_SIZE); P(IWKV_ERROR_INCOMPATIBLE_DB_MODE);
  P(IWKV_ERROR_VALUE_CANNOT_BE_INCREMENTED);
  /* vnum size thresholds: evaluate the macro around every power of 128 */
  printf("table vnumsize_at_pow128");
  for (int k = 1; k <= 9; ++k) { uint64_t t = 1ULL << (7 * k); printf(" %d %d", (int) IW_VNUMSIZE(t - 1), (int) IW_VNUMSIZE(t)); }
  printf("\n");
  /* the step function IW_VNUMSIZE as compiled: every n at which the value changes (search assumes it is monotone; the
     samples at all powers of two below let the generator reject a macro that is not) */
  printf("table vnum_steps %d", (int) IW_VNUMSIZE(0ULL));
  for (uint64_t lo = 0;;) {
    int cur = (int) IW_VNUMSIZE(lo);
    if ((int) IW_VNUMSIZE(UINT64_MAX) == cur) break;
    uint64_t a = lo, b = UINT64_MAX;           /* size(a) == cur, size(b) != cur */
    while (b - a > 1) { uint64_t m = a + (b - a) / 2; if ((int) IW_VNUMSIZE(m) == cur) a = m; else b = m; }
    printf(" %llu %d", (unsigned long long) b, (int) IW_VNUMSIZE(b));
    lo = b;
  }
  printf("\n");
  printf("table vnum_pow2");
  for (int k = 0; k < 64; ++k) { uint64_t t = 1ULL << k; printf(" %d %d", (int) IW_VNUMSIZE(t - 1), (int) IW_VNUMSIZE(t)); }
  printf("\n");
  printf("table ascii2hex"); for (size_t i = 0; i < sizeof(ascii2hex); ++i) printf(" %u", ascii2hex[i]); printf("\n");
  return 0;
}
