"""C13: JSON text is parsed to the value it denotes and printed text parses back."""
import binascii, json, math, struct, sys
from fractions import Fraction
from vlib import common as C
from vlib.diff import Case as _Case, differential


class Case(_Case):
    __slots__ = ("tags",)

    def __init__(self, kind, ops, oracle=None, key=None):
        super().__init__(kind, ops, oracle, key)
        self.tags = set()


LEVEL = "proof"
# C functions this check's models mirror (source-text fingerprints are recorded in the evidence, see translate/funchash.py)
MODELLED_FUNCS = {'src/json/iwjser.c': ['_jbl_unescape_json_string', '_jbl_parse_json_key', '_jbl_parse_value', '_jbl_node_as_json'], 'src/json/iwjson.c': ['_jbl_write_json_string', '_jbl_as_json', 'iwjson_ftoa'], 'src/utils/iwconv.c': ['iwstrtod', 'skipwhite']}
MANIFEST = dict(
    level="proof",
    text=("Lean 4 theorems over executable models of the JSON text layer (two-pass string unescaper, recursive-descent parser incl. "
          "strtoll number scanning, string/int/structure printer with all flags, UTF-8 leaves): every RFC 8259 text, described "
          "generatively as a concrete syntax tree with arbitrary white space, every escape spelling and surrogate pairs, parses to "
          "the value it denotes; printed text is such a syntax tree of the same value, hence parses back; the fill pass of the "
          "unescaper stores exactly the bytes counted by the length pass; with the code-point flag output is ASCII; the exact-arithmetic model of iwjson_ftoa writes a valid number token rounded half-even at the eighth fraction digit; "
          "iwstrtod is modelled branch by branch over a soft-float IEEE binary64 (exact integer arithmetic on bit patterns, proved round-to-nearest-even: "
          "scale-invariant, identity on representables, monotone, faithful, half-unit) and plugged into the parser model: it consumes exactly "
          "every valid number token, reads integers below 2^53 exactly, is sign-symmetric except for its two DBL_MIN special cases, monotone in the "
          "digits read so far, and provably returns the F8 witnesses 0.3, 0.7, 1e23 one ulp above the correctly rounded double. The models are "
          "tied to the code by a differential run of jbn_from_json / jbn_as_json / _jbl_unescape_json_string / iwstrtod / iwjson_ftoa "
          "against the compiled Lean definitions (bit pattern, consumed length and range flag of iwstrtod on every number token and on a malformed / "
          "huge-exponent / long-digit / denormal stream; the soft float against the hardware on 10^5 boundary-biased operand pairs per run), and "
          "Python's json module is the independent reference parser"),
    note=("trusted: Lean kernel, translator, harness/generator, Python json/Fraction as reference, gcc+ASan/UBSan; modelled not "
          "verified: the C control flow of the functions named; libm's pow(10.0, e) is tabulated by a probe at check time (bit patterns for e = -323..308, "
          "saturation with ERANGE outside checked up to |e| = 1000009), not modelled; binary64 arithmetic is assumed to be SSE2 double operations "
          "without FMA contraction or x87 excess precision (cross-checked against the hardware, NaN operands excluded); number tokens with a written "
          "exponent outside -307..308 are excluded from the parse theorem with the model plugged in (pow under/overflow, DBL_MIN special case: the "
          "parser rejects them); no end-to-end error bound for iwstrtod is proved and it is not correctly rounded (open finding F8, proved on three "
          "witnesses); the print-then-parse composition keeps the abstract `SdSpec` hypothesis; keys containing U+0000 are truncated (open finding F9)"),
    technique="Lean 4 proof over executable model + differential correspondence (C harness vs compiled Lean driver) + reference parser oracle")
MODULE = "IwModel.Props.C13"
THEOREMS = [
    "IwModel.C13.unescape_two_pass", "IwModel.C13.string_spellings", "IwModel.C13.integer_exact",
    "IwModel.C13.parse_render_partial", "IwModel.C13.string_roundtrip", "IwModel.C13.print_valid",
    "IwModel.C13.print_ascii", "IwModel.C13.parse_print_partial", "IwModel.C13.ftoa_number",
    "IwModel.C13.print_valid_ftoa", "IwModel.C13.parse_print_ftoa_partial", "IwModel.C13.key_nul_truncated",
    "IwModel.C13.utf8_roundtrip", "IwModel.C13.generated_ok",
    "IwModel.C13.softf64_rounding", "IwModel.C13.strtod_token_contract", "IwModel.C13.strtod_int_exact",
    "IwModel.C13.strtod_int15", "IwModel.C13.strtod_sign_symmetry", "IwModel.C13.strtod_sign_exception",
    "IwModel.C13.strtod_int_monotone_partial", "IwModel.C13.strtod_f8_witnesses",
    "IwModel.C13.parse_render_strtod_partial", "IwModel.C13.generated_pow10_ok",
]

H = lambda b: binascii.hexlify(bytes(b)).decode() or "-"
I64_MIN, I64_MAX = -(1 << 63), (1 << 63) - 1
MAXNEST = 999


# ---------------------------------------------------------------- documents (python side)
# value representation: None | bool | ("i", int) | ("d", bits) | ("s", bytes) | ("a", [v]) | ("o", [(bytes, v)])

def f2b(x):
    return struct.unpack("<Q", struct.pack("<d", x))[0]


def b2f(b):
    return struct.unpack("<d", struct.pack("<Q", b))[0]


def wire(v):
    if v is None:
        return ["n"]
    if v is True:
        return ["t"]
    if v is False:
        return ["f"]
    t = v[0]
    if t == "i":
        return ["i%d" % v[1]]
    if t == "d":
        return ["d%016x" % v[1]]
    if t == "s":
        return ["s" + H(v[1])]
    if t == "a":
        out = ["a%d" % len(v[1])]
        for x in v[1]:
            out += wire(x)
        return out
    out = ["o%d" % len(v[1])]
    for k, x in v[1]:
        out.append("k" + H(k))
        out += wire(x)
    return out


def unwire(toks, pos=0):
    """iterative-free recursive decoder of the wire form; returns (value, next position)"""
    t = toks[pos]
    c, body = t[0], t[1:]
    if c == "n":
        return None, pos + 1
    if c == "t":
        return True, pos + 1
    if c == "f":
        return False, pos + 1
    if c == "i":
        return ("i", int(body)), pos + 1
    if c == "d":
        return ("d", int(body, 16)), pos + 1
    if c == "s":
        return ("s", b"" if body == "-" else bytes.fromhex(body)), pos + 1
    if c == "a":
        xs, pos = [], pos + 1
        for _ in range(int(body)):
            x, pos = unwire(toks, pos)
            xs.append(x)
        return ("a", xs), pos
    if c == "o":
        ms, pos = [], pos + 1
        for _ in range(int(body)):
            kt = toks[pos]
            if kt[0] != "k":
                raise ValueError("key token expected: " + kt[:20])
            k = b"" if kt[1:] == "-" else bytes.fromhex(kt[1:])
            x, pos = unwire(toks, pos + 1)
            ms.append((k, x))
        return ("o", ms), pos
    raise ValueError("bad wire token " + t[:20])


# ---- reference parser: python json with hooks that keep number tokens and member order

class Num:
    __slots__ = ("txt", "isint")

    def __init__(self, txt, isint):
        self.txt, self.isint = txt, isint


def ref_parse(text_bytes):
    """RFC 8259 reference. Returns ('ok', value) | ('reject', why) | ('skip', why) where value uses Num leaves,
    str leaves, list, and ('o', pairs)."""
    try:
        s = text_bytes.decode("utf-8")
    except UnicodeDecodeError:
        return ("skip", "text is not UTF-8")
    try:
        v = json.loads(s, parse_int=lambda t: Num(t, True), parse_float=lambda t: Num(t, False),
                       parse_constant=lambda t: (_ for _ in ()).throw(ValueError("constant " + t)),
                       object_pairs_hook=lambda ps: ("o", ps))
    except RecursionError:
        return ("skip", "reference parser recursion")
    except ValueError as ex:
        return ("reject", str(ex)[:80])
    return ("ok", v)


def num_fraction(txt):
    """exact value of a JSON number token, or None when the exponent is absurd (outside every range of interest)"""
    tl = txt.lower()
    if "e" in tl:
        try:
            if abs(int(tl.split("e")[1])) > 5000:
                return None
        except ValueError:
            return None
    if len(tl) > 5000:
        return None
    return Fraction(txt)


def ulps(a_bits, b_bits):
    def key(b):
        return b if b < 1 << 63 else (1 << 63) - b
    return abs(key(a_bits) - key(b_bits))


F8_ULPS = 64      # iwstrtod results this close to the nearest double are classified as finding F8, farther ones are plain wrong


def cmp_value(ref, got, path="$"):
    """compare a reference value (from ref_parse) with a wire value from the implementation.
    Returns None | (cls, message) | ('skip', why)."""
    if isinstance(ref, Num):
        fr = num_fraction(ref.txt)
        if fr is None:
            return ("skip", "absurd exponent")
        if ref.isint:
            if not (I64_MIN <= fr <= I64_MAX):
                return ("skip", "integer outside int64")
            if not (isinstance(got, tuple) and got[0] == "i" and got[1] == fr):
                return ("int-wrong", "%s: integer %s read as %r" % (path, ref.txt, got))
            return None
        try:
            x = float(fr)
        except OverflowError:
            return ("skip", "double overflow")
        if x != 0.0 and abs(x) < 2.3e-308:
            return ("skip", "denormal")
        if math.isinf(x):
            return ("skip", "double overflow")
        if not (isinstance(got, tuple) and got[0] == "d"):
            return ("double-type", "%s: number %s read as %r" % (path, ref.txt, got))
        want = f2b(float(ref.txt))
        if got[1] == want:
            return None
        if x == 0.0 and b2f(got[1]) == 0.0:
            return ("double-zero-sign", "%s: %s read with the wrong sign of zero" % (path, ref.txt))
        u = ulps(got[1], want)
        if u <= F8_ULPS:
            return ("double-not-nearest", "%s: %s read as %016x, nearest double is %016x (%d ulp)" % (path, ref.txt, got[1], want, u))
        return ("double-wrong", "%s: %s read as %016x = %r, nearest double is %016x" % (path, ref.txt, got[1], b2f(got[1]), want))
    if ref is None or ref is True or ref is False:
        return None if got is ref else ("literal-wrong", "%s: %r read as %r" % (path, ref, got))
    if isinstance(ref, str):
        try:
            rb = ref.encode("utf-8")
        except UnicodeEncodeError:
            return ("skip", "lone surrogate")
        if not (isinstance(got, tuple) and got[0] == "s"):
            return ("string-type", "%s: string read as %r" % (path, got))
        if got[1] != rb:
            return ("string-wrong", "%s: string %s read as %s" % (path, rb.hex(), got[1].hex()))
        return None
    if isinstance(ref, list):
        if not (isinstance(got, tuple) and got[0] == "a"):
            return ("array-type", "%s: array read as %r" % (path, str(got)[:60]))
        if len(got[1]) != len(ref):
            return ("array-length", "%s: array of %d read with %d elements" % (path, len(ref), len(got[1])))
        first = None
        for i, (a, b) in enumerate(zip(ref, got[1])):
            p = cmp_value(a, b, "%s[%d]" % (path, i))
            if p and p[0] == "skip":
                return p
            if p and (first is None or first[0] == "double-not-nearest"):
                first = p
        return first
    if isinstance(ref, tuple) and ref[0] == "o":
        if not (isinstance(got, tuple) and got[0] == "o"):
            return ("object-type", "%s: object read as %r" % (path, str(got)[:60]))
        if len(got[1]) != len(ref[1]):
            return ("object-length", "%s: object of %d members read with %d" % (path, len(ref[1]), len(got[1])))
        first = None
        for (rk, rv), (gk, gv) in zip(ref[1], got[1]):
            try:
                rkb = rk.encode("utf-8")
            except UnicodeEncodeError:
                return ("skip", "lone surrogate")
            p = None
            if gk != rkb:
                p = ("key-nul" if b"\0" in rkb and gk == rkb.split(b"\0")[0] else "key-wrong",
                     "%s: key %s read as %s" % (path, rkb.hex(), gk.hex()))
            else:
                p = cmp_value(rv, gv, "%s.%s" % (path, rkb[:12].hex()))
            if p and p[0] == "skip":
                return p
            if p and (first is None or first[0] == "double-not-nearest"):
                first = p
        return first
    return ("oracle-internal", "unexpected reference value %r" % (ref,))


def parse_line(line, op="parse"):
    """-> ('ok', value|None-for-NULL marker) | ('err', name)"""
    w = line.split()
    if w[0] != op:
        raise ValueError("unexpected line " + line[:60])
    if w[1] == "err":
        return ("err", w[2])
    if w[2] == "NULL":
        return ("null-node", None)
    v, pos = unwire(w, 2)
    if pos != len(w):
        raise ValueError("trailing wire tokens")
    return ("ok", v)


def oracle_parse(text):
    """property, first half: a valid JSON text is accepted and yields the reference value"""
    def oracle(out, text=text):
        ref = ref_parse(text)
        if ref[0] != "ok":
            return None                     # invalid text (or outside the reference's reach): no demand
        st = parse_line(out[0])
        if st[0] != "ok":
            if scope_skip(ref[1]):
                return None
            return ("rejected", "valid JSON text %r rejected: %s" % (text[:80], out[0][:60]))
        p = cmp_value(ref[1], st[1])
        if p is None or p[0] == "skip":
            return None
        return p
    return oracle


def scope_skip(ref):
    """True when the reference value contains something outside the property's scope (int beyond int64, double overflow /
    denormal, lone surrogate, nesting beyond the limit)"""
    stack = [(ref, 0)]
    while stack:
        v, d = stack.pop()
        if isinstance(v, Num):
            fr = num_fraction(v.txt)
            if fr is None:
                return True
            if v.isint:
                if not (I64_MIN <= fr <= I64_MAX):
                    return True
            else:
                try:
                    x = float(fr)
                except OverflowError:
                    return True
                if math.isinf(x) or (x != 0.0 and abs(x) < 2.3e-308) or (x == 0.0 and fr != 0):
                    return True
                if abs(exp10_of(v.txt)) > 300:
                    return True
        elif isinstance(v, str):
            try:
                v.encode("utf-8")
            except UnicodeEncodeError:
                return True
        elif isinstance(v, list):
            if d + 1 > MAXNEST:
                return True
            stack += [(x, d + 1) for x in v]
        elif isinstance(v, tuple) and v[0] == "o":
            if d + 1 > MAXNEST:
                return True
            for k, x in v[1]:
                try:
                    k.encode("utf-8")
                except UnicodeEncodeError:
                    return True
                stack.append((x, d + 1))
    return False


def exp10_of(txt):
    t = txt.lower()
    try:
        return int(t.split("e")[1]) if "e" in t else 0
    except ValueError:
        return 10 ** 6


# ---------------------------------------------------------------- generators

CP_CLASSES = [
    lambda r: r.randrange(0x20, 0x7f), lambda r: r.randrange(0x20, 0x7f), lambda r: r.randrange(0x20, 0x7f),
    lambda r: r.choice([0x22, 0x5c, 0x2f, 8, 12, 10, 13, 9]),
    lambda r: r.randrange(0, 0x20), lambda r: r.choice([0, 0x0b, 0x1f, 0x7f, 0x80, 0x9f, 0xa0, 0xff]),
    lambda r: r.randrange(0x80, 0x800), lambda r: r.choice([0x7ff, 0x800, 0xfff, 0x1000, 0xd7ff, 0xe000, 0xfffd, 0xfffe, 0xffff]),
    lambda r: r.randrange(0x800, 0xd800), lambda r: r.randrange(0xe000, 0x10000),
    lambda r: r.choice([0x10000, 0x10001, 0x1f600, 0xfffff, 0x100000, 0x10fffe, 0x10ffff]), lambda r: r.randrange(0x10000, 0x110000),
]
SHORT = {0x22: '"', 0x5c: "\\", 0x2f: "/", 8: "b", 12: "f", 10: "n", 13: "r", 9: "t"}


def gen_cps(r, key=False):
    n = r.choice([0, 1, 1, 2, 3, 5, 8, r.randrange(0, 30)])
    cps = [r.choice(CP_CLASSES)(r) for _ in range(n)]
    if key and r.random() < 0.97:
        cps = [c for c in cps if c != 0]
    return cps


def hex4(r, v):
    s = "%04x" % v
    m = r.randrange(3)
    return s if m == 0 else s.upper() if m == 1 else "".join(ch.upper() if r.random() < 0.5 else ch for ch in s)


def spell_cp(r, cp, tags):
    """one of the spellings RFC 8259 allows for the code point"""
    opts = []
    if cp >= 0x20 and cp not in (0x22, 0x5c):
        opts += ["raw", "raw", "raw"]
    if cp in SHORT:
        opts += ["short", "short"]
    opts.append("u")
    k = r.choice(opts)
    if k == "raw":
        tags.add("sp-raw%d" % len(chr(cp).encode("utf-8")))
        return chr(cp).encode("utf-8")
    if k == "short":
        tags.add("sp-short-" + SHORT[cp])
        return ("\\" + SHORT[cp]).encode()
    if cp >= 0x10000:
        tags.add("sp-pair")
        c = cp - 0x10000
        return ("\\u" + hex4(r, 0xd800 + (c >> 10)) + "\\u" + hex4(r, 0xdc00 + (c & 0x3ff))).encode()
    tags.add("sp-u4")
    return ("\\u" + hex4(r, cp)).encode()


def utf8_of(cps):
    return "".join(chr(c) for c in cps).encode("utf-8")


def ws(r):
    return r.choice([b"", b"", b"", b" ", b" ", b"\n", b"\t", b"\r", b"  ", b"\r\n", b" \t\n\r "])


def boundary_i64(r):
    k = r.randrange(0, 64)
    v = r.choice([0, 1, 7, 9, 10, 99, 100, (1 << k) - 1, 1 << k, 10 ** r.randrange(0, 19), 10 ** r.randrange(1, 19) - 1,
                  I64_MAX, I64_MAX - 1, 1 << 53, (1 << 53) + 1, r.randrange(0, 1 << 63), r.randrange(0, 1000)])
    v = min(v, I64_MAX)
    if r.random() < 0.03:
        return I64_MIN
    return -v if r.random() < 0.5 else v


def gen_double_text(r, tags):
    """decimal text of a non-integer JSON number (has a fraction and/or an exponent), magnitude within 1e-300 .. 1e300"""
    for _ in range(50):
        nd = r.choice([1, 1, 2, 3, 5, 9, 15, 16, 17, 18, 19, 20, 21, 25])
        ip = r.choice(["0", str(r.randrange(1, 10)), str(r.randrange(10 ** (nd - 1), 10 ** nd))])
        s = r.choice(["", "", "-"]) + ip
        has_frac = r.random() < 0.7
        if has_frac:
            nf = r.choice([1, 1, 2, 3, 8, 9, 15, 17, 20, 25])
            s += "." + "".join(r.choice("0123456789") for _ in range(nf))
        if not has_frac or r.random() < 0.5:
            e = r.choice([0, 0, 1, 2, 5, 10, 22, 23, 100, 290, r.randrange(0, 300)])
            es = ("%0*d" % (r.choice([1, 1, 2, 3]), e))
            s += r.choice("eE") + r.choice(["", "+", "-"]) + es
            tags.add("num-exp0" if e == 0 else "num-exp")
        if has_frac:
            tags.add("num-frac")
        try:
            x = float(s)
        except (OverflowError, ValueError):
            continue
        fr = Fraction(s)
        if math.isinf(x) or (fr != 0 and not (1e-290 < abs(x) < 1e290)) or abs(exp10_of(s)) > 300:
            continue
        if len(ip) >= 20:
            tags.add("num-bigint-part")
        return s
    return "0.5"


def shortest_text(x):
    s = repr(x)
    return s if ("." in s or "e" in s or "inf" in s or "nan" in s) else s + ".0"


def gen_double_bits(r):
    k = r.randrange(12)
    if k == 0:
        return f2b(r.choice([0.0, -0.0, 1.0, -1.0, 0.5, 0.1, 0.3, 0.7, 1e22, 1e23, -1e21, 1e21, 9.2233720368547758e18, -9.2233720368547758e18,
                             2.0 ** 53, 2.0 ** 63, 2.0 ** 64, 1e15, 123456.789, 1e-8, 5e-9, 4.9e-9, 1e-9, -1e-9, 1e300, 1.7976931348623157e308,
                             2.2250738585072014e-308, 5e-324, 1e30, 1e31, 1e40, 99999999.99999999, 0.999999995, 0.999999994]))
    if k == 1:      # exact ties at the 9th fraction digit: odd multiples of 2^-9
        return f2b((2 * r.randrange(0, 5000) + 1) / 512.0 * r.choice([1, -1]))
    if k == 2:
        return f2b(r.randrange(-10 ** 6, 10 ** 6) / 10.0 ** r.randrange(0, 10))
    if k == 3:
        return f2b(float(r.randrange(-(1 << 70), 1 << 70)))
    if k == 4:
        return f2b(r.choice([1, -1]) * 10.0 ** r.randrange(-12, 40) * r.random())
    if k == 5:
        return f2b(r.choice([1, -1]) * (10.0 ** r.randrange(15, 35)))
    while True:
        b = r.getrandbits(64)
        if (b >> 52) & 0x7ff != 0x7ff:
            if k < 9:      # moderate exponents
                b = (b & ~(0x7ff << 52)) | (r.randrange(1023 - 40, 1023 + 90) << 52)
            return b


def gen_doc(r, depth, tags, for_print=False, budget=None):
    """random document value (python representation) together with nothing else; spelling is chosen by render()"""
    budget = budget if budget is not None else [r.choice([1, 3, 8, 20, 60])]
    budget[0] -= 1
    k = r.randrange(10)
    if depth <= 0 or budget[0] <= 0:
        k = r.randrange(6)
    if k == 0:
        return r.choice([None, True, False])
    if k == 1:
        return ("i", boundary_i64(r))
    if k == 2:
        if for_print:
            return ("d", gen_double_bits(r))
        return ("dt", gen_double_text(r, tags) if r.random() < 0.8 else shortest_text(b2f(gen_double_bits(r))))
    if k in (3, 4, 5):
        return ("s", gen_cps(r))
    if k in (6, 7):
        n = r.choice([0, 1, 2, 3, r.randrange(0, 8)])
        return ("a", [gen_doc(r, depth - 1, tags, for_print, budget) for _ in range(n)])
    n = r.choice([0, 1, 2, 3, r.randrange(0, 6)])
    ms = []
    for _ in range(n):
        key = gen_cps(r, key=True)
        if ms and r.random() < 0.03:
            key = ms[0][0]
        ms.append((key, gen_doc(r, depth - 1, tags, for_print, budget)))
    return ("o", ms)


def render(r, v, tags):
    """JSON text of a generated document with random white space and spellings"""
    if v is None:
        return b"null"
    if v is True:
        return b"true"
    if v is False:
        return b"false"
    t = v[0]
    if t == "i":
        if v[1] == 0 and r.random() < 0.3:
            tags.add("num-negzero")
            return b"-0"
        return str(v[1]).encode()
    if t == "dt":
        return v[1].encode()
    if t == "s":
        return b'"' + b"".join(spell_cp(r, c, tags) for c in v[1]) + b'"'
    if t == "a":
        if not v[1]:
            return b"[" + ws(r) + b"]"
        return b"[" + b",".join(ws(r) + render(r, x, tags) + ws(r) for x in v[1]) + b"]"
    if not v[1]:
        return b"{" + ws(r) + b"}"
    return b"{" + b",".join(ws(r) + b'"' + b"".join(spell_cp(r, c, tags) for c in k) + b'"' + ws(r) + b":" + ws(r)
                            + render(r, x, tags) + ws(r) for k, x in v[1]) + b"}"


def to_wire_value(v):
    """generated document -> wire value (strings as UTF-8 bytes); only for print documents"""
    if v is None or v is True or v is False:
        return v
    t = v[0]
    if t in ("i", "d"):
        return v
    if t == "s":
        return ("s", utf8_of(v[1]))
    if t == "a":
        return ("a", [to_wire_value(x) for x in v[1]])
    return ("o", [(utf8_of([c for c in k if c != 0]), to_wire_value(x)) for k, x in v[1]])


def case_parse(r):
    tags = set()
    v = gen_doc(r, r.choice([0, 1, 2, 3, 5]), tags)
    text = ws(r) + render(r, v, tags) + ws(r)
    ops = ["parse " + H(text)]
    kind = "parse-valid"
    if r.random() < 0.1:
        ops = ["parse %s e=34" % H(text)]      # a stale errno == ERANGE left by earlier library calls
        kind = "parse-valid-stale-errno"
    c = Case(kind, ops, oracle_parse(text))
    c.tags = tags
    return c


def case_parse_deep(r):
    d = r.choice([1, 2, 50, 500, 990, 997, 998, 999, 999, 1000, 1001, 1002])
    mode = r.choice(["arr", "obj", "mix"])
    inner = r.choice([b"", b"1", b'"x"', b"[]", b"{}", b"null"])
    open_, close = [], []
    for i in range(d):
        if mode == "arr" or (mode == "mix" and r.random() < 0.5):
            open_.append(b"[")
            close.append(b"]")
        else:
            open_.append(b'{"k":')
            close.append(b"}")
    if inner == b"" and open_ and open_[-1] != b"[":
        open_[-1] = b"{"
    text = b"".join(open_) + inner + b"".join(reversed(close))
    c = Case("parse-deep", ["parse " + H(text)], oracle_parse(text))
    c.tags = {"depth-%s" % ("le-limit" if d + (1 if inner in (b"[]", b"{}") else 0) <= MAXNEST else "beyond")}
    return c


def mutate(r, text):
    b = bytearray(text)
    for _ in range(r.choice([1, 1, 2, 3])):
        k = r.randrange(7)
        if k == 0 and b:
            del b[r.randrange(len(b))]
        elif k == 1:
            b.insert(r.randrange(len(b) + 1), r.choice(b'{}[]",:\\ue0123456789.-+Eetfn\'\t\n \x01\x7f\xc3\xa9x'))
        elif k == 2 and b:
            b[r.randrange(len(b))] = r.randrange(1, 256)
        elif k == 3 and b:
            b = b[:r.randrange(len(b))]
        elif k == 4 and len(b) > 1:
            i = r.randrange(len(b) - 1)
            b[i], b[i + 1] = b[i + 1], b[i]
        elif k == 5 and b:
            i = r.randrange(len(b))
            b[i:i] = b[i:i + r.randrange(1, 6)]
        else:
            i = r.randrange(len(b) + 1)
            b[i:i] = r.choice([b",", b",,", b" ", b"\\u12", b"\\ud800", b"\\udc00\\ud800", b"1e", b"0x1F", b"01", b"1.", b".5", b"-", b"+1", b"1e+",
                               b"\xef\xbb\xbf", b"1e99999", b"99999999999999999999", b"-99999999999999999999", b"1.5e400", b"]", b"}", b"\x0b",
                               b"\\v", b"\\a", b"\\", b"NaN", b"nul", b"True", b"1e-400", b"123456789012345678901234567890.5", b"0e0"])
    return bytes(b).replace(b"\0", b"\x01")


def case_parse_mal(r):
    tags = set()
    v = gen_doc(r, r.choice([0, 1, 2, 3]), tags)
    text = mutate(r, render(r, v, tags))
    c = Case("parse-malformed", ["parse " + H(text)], oracle_parse(text))
    c.tags = set()
    return c


# ---- print

def num_tokens_ok(ref, doc, flags, path="$"):
    """reference value of the printed text vs the printed document; doubles: the token must be the value rounded to at
    most eight fraction digits (plain form) or to 17 significant digits (exponent form for numbers too long for the buffer)"""
    if isinstance(doc, tuple) and doc[0] == "i":
        if not (isinstance(ref, Num) and ref.isint and int(ref.txt) == doc[1]):
            return ("print-int", "%s: integer %d printed as %r" % (path, doc[1], getattr(ref, "txt", ref)))
        return None
    if isinstance(doc, tuple) and doc[0] == "d":
        if not isinstance(ref, Num):
            return ("print-double", "%s: double %016x printed as %r" % (path, doc[1], ref))
        x = Fraction(b2f(doc[1]))
        D = Fraction(ref.txt)
        t = ref.txt.lower()
        if "e" in t:
            if f2b(float(D)) != doc[1] and not (float(D) == 0.0 and b2f(doc[1]) == 0.0):
                return ("print-double", "%s: double %016x printed as %s which is another double" % (path, doc[1], ref.txt))
            return None
        nfrac = len(t.split(".")[1]) if "." in t else 0
        if nfrac > 8:
            return ("print-double", "%s: double printed with %d fraction digits: %s" % (path, nfrac, ref.txt))
        if abs(D - x) > Fraction(5, 10 ** 9):
            return ("print-double", "%s: double %016x = %r printed as %s: off by more than 0.5e-8" % (path, doc[1], b2f(doc[1]), ref.txt))
        return None
    if doc is None or doc is True or doc is False:
        return None if ref is doc else ("print-literal", "%s: %r printed as %r" % (path, doc, ref))
    if doc[0] == "s":
        if not isinstance(ref, str) or ref.encode("utf-8", "surrogatepass") != doc[1]:
            return ("print-string", "%s: string %s printed as text denoting %r" % (path, doc[1].hex(), ref if not isinstance(ref, str) else ref.encode("utf-8", "surrogatepass").hex()))
        return None
    if doc[0] == "a":
        if not isinstance(ref, list) or len(ref) != len(doc[1]):
            return ("print-array", "%s: array of %d printed as %r" % (path, len(doc[1]), str(ref)[:60]))
        for i, (a, b) in enumerate(zip(ref, doc[1])):
            p = num_tokens_ok(a, b, flags, "%s[%d]" % (path, i))
            if p:
                return p
        return None
    if not (isinstance(ref, tuple) and ref[0] == "o") or len(ref[1]) != len(doc[1]):
        return ("print-object", "%s: object of %d printed as %r" % (path, len(doc[1]), str(ref)[:60]))
    for (rk, rv), (dk, dv) in zip(ref[1], doc[1]):
        if rk.encode("utf-8", "surrogatepass") != dk:
            return ("print-key", "%s: key %s printed as text denoting %s" % (path, dk.hex(), rk.encode("utf-8", "surrogatepass").hex()))
        p = num_tokens_ok(rv, dv, flags, "%s.%s" % (path, dk[:12].hex()))
        if p:
            return p
    return None


def reparse_ok(ref, got, path="$"):
    """the library's own reading of its output vs the reference reading of the same text (numbers: int when the token is an
    integer within int64, nearest double otherwise)"""
    if isinstance(ref, Num):
        fr = Fraction(ref.txt)
        if ref.isint and I64_MIN <= fr <= I64_MAX:
            if not (isinstance(got, tuple) and got[0] == "i" and got[1] == fr):
                return ("reparse-int", "%s: printed %s read back as %r" % (path, ref.txt, got))
            return None
        want = f2b(float(fr))
        if not (isinstance(got, tuple) and got[0] == "d"):
            return ("reparse-double-type", "%s: printed %s read back as %r" % (path, ref.txt, got))
        if got[1] == want:
            return None
        u = ulps(got[1], want)
        if u <= F8_ULPS:
            return ("reparse-double-not-nearest", "%s: printed %s read back as %016x, nearest double is %016x (%d ulp)" % (path, ref.txt, got[1], want, u))
        return ("reparse-double-wrong", "%s: printed %s read back as %016x = %r" % (path, ref.txt, got[1], b2f(got[1])))
    p = cmp_value(ref, got, path) if not isinstance(ref, (list, tuple)) else None
    if isinstance(ref, list):
        if not (isinstance(got, tuple) and got[0] == "a" and len(got[1]) == len(ref)):
            return ("reparse-array", "%s: array read back as %r" % (path, str(got)[:60]))
        first = None
        for i, (a, b) in enumerate(zip(ref, got[1])):
            q = reparse_ok(a, b, "%s[%d]" % (path, i))
            if q and (first is None or first[0] == "reparse-double-not-nearest"):
                first = q
        return first
    if isinstance(ref, tuple) and ref[0] == "o":
        if not (isinstance(got, tuple) and got[0] == "o" and len(got[1]) == len(ref[1])):
            return ("reparse-object", "%s: object read back as %r" % (path, str(got)[:60]))
        first = None
        for (rk, rv), (gk, gv) in zip(ref[1], got[1]):
            q = None
            if rk.encode("utf-8", "surrogatepass") != gk:
                q = ("reparse-key", "%s: key %s read back as %s" % (path, rk.encode("utf-8", "surrogatepass").hex(), gk.hex()))
            else:
                q = reparse_ok(rv, gv, "%s.%s" % (path, gk[:12].hex()))
            if q and (first is None or first[0] == "reparse-double-not-nearest"):
                first = q
        return first
    if p:
        return ("reparse-" + p[0], p[1])
    return None


def oracle_print(doc, flags, valid_utf8=True):
    def oracle(out, doc=doc, flags=flags):
        w = out[0].split(" ", 3)
        if w[0] != "print":
            raise ValueError("unexpected line " + out[0][:60])
        if w[1] == "err":
            if not valid_utf8:
                return None
            return ("print-rejected", "document with well-formed strings not printed: " + out[0][:60])
        text = b"" if w[2] == "-" else bytes.fromhex(w[2])
        if not valid_utf8:
            return None
        if flags & 2 and any(b >= 0x80 for b in text):
            return ("print-not-ascii", "CODEPOINTS output contains non-ASCII bytes: %s" % text[:60].hex())
        if b"\0" in text:
            return ("print-nul", "output contains a NUL byte: %s" % text[:60].hex())
        ref = ref_parse(text)
        if ref[0] == "skip":
            return ("print-invalid", "printed text is not valid UTF-8: %s" % text[:60].hex())
        if ref[0] == "reject":
            return ("print-invalid", "printed text rejected by the reference parser (%s): %r" % (ref[1], text[:80]))
        p = num_tokens_ok(ref[1], doc, flags)
        if p:
            return p
        re = w[3]
        if not re.startswith("re="):
            raise ValueError("no re= part")
        st = parse_line("parse " + re[3:])
        if st[0] != "ok":
            return ("reparse-rejected", "library rejects its own output %r: %s" % (text[:80], re[:40]))
        return reparse_ok(ref[1], st[1])
    return oracle


def doc_depth(v):
    if isinstance(v, tuple) and v[0] == "a":
        return 1 + max([doc_depth(x) for x in v[1]] or [0])
    if isinstance(v, tuple) and v[0] == "o":
        return 1 + max([doc_depth(x) for _, x in v[1]] or [0])
    return 0


def case_print(r):
    tags = set()
    v = to_wire_value(gen_doc(r, r.choice([0, 1, 2, 3, 5]), tags, for_print=True))
    flags = r.choice([0, 0, 1, 2, 3, 5, 9, 7, 11, 4, 8, 13, 15, 6, 10])
    c = Case("print-f%d" % flags, ["print %d %s" % (flags, " ".join(wire(v)))], oracle_print(v, flags))
    c.tags = {"print-flags-%d" % flags}
    return c


def case_print_badutf8(r):
    # malformed stream: strings that are not UTF-8 (model comparison only; with CODEPOINTS the printer must refuse or escape)
    n = r.randrange(1, 8)
    s = bytes(r.choice([r.randrange(0x80, 0x100), r.randrange(1, 0x100), 0xc0, 0xc1, 0xed, 0xa0, 0xf4, 0x90, 0xf0, 0x80, 0xe0, 0xf5]) for _ in range(n))
    flags = r.choice([0, 2, 3])
    v = r.choice([("s", s), ("a", [("s", s), ("i", 1)]), ("o", [(s.replace(b"\0", b"\1"), ("s", s))])])
    c = Case("print-nonutf8", ["print %d %s" % (flags, " ".join(wire(v)))], oracle_print(v, flags, valid_utf8=False))
    c.tags = set()
    return c


# ---- leaves

def case_unesc(r):
    tags = set()
    cps = gen_cps(r)
    body = b"".join(spell_cp(r, c, tags) for c in cps)
    text = body + b'"' + r.choice([b"", b"x", b",1]", b'"'])
    want = utf8_of(cps)
    if r.random() < 0.3:
        text = mutate(r, text)
        want = None

    def oracle(out, want=want, text=text):
        w = dict(x.split("=", 1) for x in out[0].split()[1:])
        if w.get("rc") == "0" and w["len"] != w["fill"]:
            return ("two-pass", "length pass counted %s bytes, fill pass stored %s for %r" % (w["len"], w["fill"], text[:60]))
        if want is not None:
            if w.get("rc") != "0":
                return ("rejected", "valid string body %r rejected: %s" % (text[:60], out[0][:40]))
            got = b"" if w["out"] == "-" else bytes.fromhex(w["out"])
            if got != want:
                return ("string-wrong", "string body %r decoded to %s, expected %s" % (text[:60], got.hex(), want.hex()))
        return None
    c = Case("unesc", ["unesc " + H(text)], oracle)
    c.tags = tags
    return c


def case_strtod(r):
    tags = set()
    s = gen_double_text(r, tags) if r.random() < 0.8 else shortest_text(b2f(gen_double_bits(r)))
    if "inf" in s or "nan" in s:
        s = "1.5"
    tail = r.choice(["", "", ",", "]", " ", "}", "x"])

    def oracle(out, s=s, tail=tail):
        w = out[0].split()
        x = float(s)
        if abs(exp10_of(s)) > 300 or math.isinf(x) or (x != 0 and not 1e-290 < abs(x) < 1e290):
            return None
        if int(w[2]) != len(s):
            return ("double-wrong", "iwstrtod(%r) consumed %s of %d bytes" % (s + tail, w[2], len(s)))
        got, want = int(w[1], 16), f2b(x)
        if w[3] != "0":
            return ("rejected", "iwstrtod(%r) reports a range error" % (s + tail))
        if got == want:
            return None
        u = ulps(got, want)
        if u <= F8_ULPS:
            return ("double-not-nearest", "iwstrtod(%r) = %016x, nearest double is %016x (%d ulp)" % (s + tail, got, want, u))
        return ("double-wrong", "iwstrtod(%r) = %016x = %r" % (s + tail, got, b2f(got)))
    c = Case("strtod", ["strtod " + H((s + tail).encode())], oracle)
    c.tags = tags
    return c


# ---- iwstrtod on everything it may be handed (model comparison; the oracle speaks only on clean in-scope tokens)

STRTOD_SPECIAL = ["2.2250738585072011e-308", "2.2250738585072012e-308", "2.2250738585072012e-309", "2.2250738585072012e-400",
                  "-2.2250738585072011e-308", "2.2250738585072011e-0308", "2.2250738585072011E-308", "+2.2250738585072011e-308",
                  "2.2250738585072011e-307", "2.2250738585072012e-99999999", "22.250738585072011e-309", "2.225073858507201e-308",
                  "2.22507385850720110e-308", "02.2250738585072012e-308", "4.9e-324", "2.4703282292062328e-324", "5e-324",
                  "1.7976931348623157e308", "1.7976931348623159e308", "0.3", "0.7", "1e23", "1e22", "0e999", "0e-999", "-0e999",
                  "1e308", "1e309", "1e-323", "1e-324", "10e-324", "1e99999", "1e100000", "1e999999", "1e1000000", "1e-1000000",
                  "1e", "1e+", "1e-", "1ex", "1e+x", "1.", "1.e", "1.e5", ".", ".e5", "-.", "-.5", "+.5e1", "-", "+", "", "- 1", "--1", "+-1",
                  "1e0", "1e00", "1e-0", "1E+000", "1e0001", "1e 5", "1 e5", "0x10", "inf", "nan", "1e5.5", "1.5.5", "1e5e5"]


def gen_strtod_wild(r, tags):
    if r.random() < 0.12:
        tags.add("sd-special")
        return r.choice(STRTOD_SPECIAL)
    s = "".join(r.choice(" \t\n\v\f\r") for _ in range(r.choice([0, 0, 0, 1, 2])))
    s += r.choice(["", "", "", "-", "-", "+", "--", "+-"])
    k = r.randrange(8)
    nd = r.choice([0, 1, 1, 2, 5, 15, 16, 17, 19, 20, 30, 100, 308, 309, 310, 400])
    if nd:
        lead = "0" * r.choice([0, 0, 0, 1, 3, 40])
        s += lead + "".join(r.choice("0123456789") for _ in range(nd))
        if nd >= 300:
            tags.add("sd-int-huge")
    if r.random() < 0.6:
        nf = r.choice([0, 1, 2, 8, 16, 17, 18, 25, 60, 330, 400])
        z = r.choice([0, 0, 0, 5, 20, 300, 323, 330]) if nf else 0
        s += "." + "0" * z + "".join(r.choice("0123456789") for _ in range(nf))
        tags.add("sd-frac-long" if nf + z >= 300 else "sd-frac")
    if r.random() < 0.7:
        e = r.choice([0, 1, 5, 22, 23, 290, 300, 306, 307, 308, 309, 310, 315, 322, 323, 324, 325, 340, 400, 99999, 100000, 100001,
                      999999, 1000000, 12345678901, r.randrange(0, 330), r.randrange(0, 700), max(0, 308 - nd + r.randrange(-3, 4)),
                      nd + 323 + r.randrange(-20, 5)])
        sg = r.choice(["", "+", "-", "-", "-"])
        s += r.choice("eE") + sg + "0" * r.choice([0, 0, 0, 1, 2, 30]) + str(e)
        tags.add("sd-exp-sat" if e > 330 else "sd-exp-edge" if e > 290 else "sd-exp")
    if r.random() < 0.3:
        s += r.choice(["x", ".", "e", "E", "-", "+", "e5", " ", ",", "]", "}", "\x7f", "e+", "1", ".5", "f", "\t"])
        tags.add("sd-tail")
    if k == 0 and len(s) > 1:      # drop or double one byte
        i = r.randrange(len(s))
        s = s[:i] + r.choice(["", s[i] * 2]) + s[i + 1:]
        tags.add("sd-mutated")
    return s


def case_strtod_wild(r):
    tags = set()
    s = gen_strtod_wild(r, tags)

    def oracle(out, s=s):
        w = out[0].split()
        if not (0 <= int(w[2]) <= len(s.encode("latin1"))):
            return ("double-wrong", "iwstrtod(%r) consumed %s of %d bytes" % (s[:80], w[2], len(s)))
        return None
    c = Case("strtod", ["strtod " + H(s.encode("latin1"))], oracle)
    c.tags = tags
    return c


# ---- hardware cross-check of the soft float (SoftF64.lean): IEEE binary64 * + / == on boundary-biased pairs

DBL_SPECIALS = [0x0000000000000000, 0x8000000000000000, 0x0000000000000001, 0x8000000000000001, 0x000fffffffffffff,
                0x0010000000000000, 0x0010000000000001, 0x001fffffffffffff, 0x7fefffffffffffff, 0xffefffffffffffff,
                0x7ff0000000000000, 0xfff0000000000000, 0x3ff0000000000000, 0xbff0000000000000, 0x4024000000000000,
                0x3fb999999999999a, 0x4001ccf385ebc89f, 0x4001ccf385ebc8a0, 0x000730d67819e8d2, 0x3fe0000000000000,
                0x4340000000000000, 0x433fffffffffffff, 0x4340000000000001, 0x7fe0000000000000, 0x0008000000000000]


def mkdbl(sign, e, m):
    return (sign << 63) | (e << 52) | m


def gen_f64_operand(r):
    k = r.randrange(12)
    sign = r.randrange(2)
    if k == 0:
        return r.choice(DBL_SPECIALS)
    if k == 1:      # subnormal
        return mkdbl(sign, 0, r.choice([1, 2, 3, (1 << 52) - 1, 1 << 51, r.getrandbits(52), 1 << r.randrange(52), r.getrandbits(r.randrange(1, 53))]))
    if k == 2:      # power of two and its neighbours
        b = mkdbl(0, r.randrange(1, 2047), 0) + r.choice([-1, 0, 0, 1])
        return b | (sign << 63)
    if k == 3:      # small integers, as iwstrtod feeds them
        return f2b(float(r.choice([1, -1]) * r.randrange(0, 11)))
    if k == 4:      # powers of ten (libm table range)
        return f2b(float("%s1e%d" % (r.choice(["", "-"]), r.randrange(-323, 309))))
    if k == 5:      # few significant bits (exact products, ties)
        nb = r.randrange(1, 30)
        m = (r.getrandbits(nb) | 1 | (1 << (nb - 1))) << (53 - nb)
        return mkdbl(sign, r.randrange(1, 2047), m & ((1 << 52) - 1))
    if k == 6:      # mantissa all ones / one low bit
        return mkdbl(sign, r.randrange(0, 2047), r.choice([(1 << 52) - 1, 1, (1 << 52) - 2, 1 << 51, (1 << 51) + 1]))
    if k == 7:      # extreme exponents
        return mkdbl(sign, r.choice([1, 2, 3, 52, 53, 54, 2046, 2045, 2044, 1023 + 970, 1023 + 971, 1023 - 1022 + 52]), r.getrandbits(52))
    if k == 8:      # integers near 2^53
        return f2b(float(r.choice([1, -1]) * ((1 << 53) + r.randrange(-64, 64))))
    return mkdbl(sign, r.randrange(0, 2047), r.getrandbits(52))


def dbl_exp(b):
    return (b >> 52) & 0x7ff


def gen_f64_pair(r):
    a = gen_f64_operand(r)
    k = r.randrange(10)
    if k >= 6 or dbl_exp(a) == 0x7ff:
        return a, gen_f64_operand(r)
    ea = max(dbl_exp(a), 1)
    sign = r.randrange(2)
    man = r.choice([0, 1, (1 << 52) - 1, r.getrandbits(52), r.getrandbits(52), a & ((1 << 52) - 1)])
    if k == 0:      # product around the subnormal boundary
        eb = (1023 - ea) + 1023 + r.randrange(-1080, -1015)
    elif k == 1:    # product around the overflow boundary
        eb = (1023 - ea) + 1023 + r.randrange(1020, 1027)
    elif k == 2:    # quotient around the subnormal / overflow boundary
        eb = ea - r.choice([r.randrange(-1080, -1015), r.randrange(1020, 1027)])
    elif k == 3:    # sum with an operand near half an ulp of the other (ties, sticky bits)
        eb = ea + r.choice([-55, -54, -53, -52, -51, -1, 0, 1, 51, 52, 53, 54, 55])
        man = r.choice([0, 0, 1, (1 << 52) - 1, 1 << 51, r.getrandbits(52)])
    elif k == 4:    # cancellation: opposite sign, same binade or adjacent
        eb = ea + r.choice([-1, 0, 0, 1])
        sign = 1 - (a >> 63)
        man = (a & ((1 << 52) - 1)) ^ r.choice([0, 0, 1, 2, 1 << 51, r.getrandbits(8)])
    else:           # product of few-bit significands with exactly 54 bits: exact ties
        n1 = r.randrange(2, 52)
        n2 = r.choice([53, 54, 55]) - n1
        if n2 < 1:
            n2 = 1
        m1 = (r.getrandbits(n1) | 1 | (1 << (n1 - 1))) << (53 - n1)
        m2 = (r.getrandbits(n2) | 1 | (1 << (n2 - 1))) << (53 - n2)
        ea2 = r.choice([ea, r.randrange(1, 2046), 1023 - 1060 + 1023 - ea if 0 < 986 - ea < 2047 else ea])
        return mkdbl(a >> 63, ea, m1 & ((1 << 52) - 1)), mkdbl(sign, min(max(ea2, 1), 2046), m2 & ((1 << 52) - 1))
    if not 0 <= eb <= 2046:
        eb = min(max(eb, 0), 2046)
    b = mkdbl(sign, eb, man)
    return (a, b) if r.random() < 0.5 else (b, a)


def py_f64(a, b):
    """reference: CPython float arithmetic (C doubles), division by zero by the IEEE rule"""
    x, y = b2f(a), b2f(b)
    res = [x * y, x + y]
    if y == 0.0:
        if x == 0.0 or x != x:
            q = float("nan")
        else:
            q = math.copysign(float("inf"), x) * math.copysign(1.0, y)
    else:
        q = x / y
    res.append(q)
    return res, x == y


F64_PAIRS = 16


def case_f64(r):
    pairs = [gen_f64_pair(r) for _ in range(F64_PAIRS)]
    iv = r.choice([r.randrange(-10, 11), r.randrange(-(1 << 63), 1 << 63), (1 << 53) + r.randrange(-9, 9), r.randrange(-(1 << 54), 1 << 54) * 2 + 1])

    def oracle(out, pairs=pairs, iv=iv):
        w = out[0].split()
        if len(w) != 1 + 4 * len(pairs):
            raise ValueError("unexpected f64 line")
        for i, (a, b) in enumerate(pairs):
            want, eq = py_f64(a, b)
            for j, nm in enumerate(("*", "+", "/")):
                got = int(w[1 + 4 * i + j], 16)
                wv = want[j]
                if wv != wv:
                    okv = b2f(got) != b2f(got)
                else:
                    okv = got == f2b(wv)
                if not okv:
                    return ("f64-arith", "binary64 %016x %s %016x = %016x, reference %016x" % (a, nm, b, got, f2b(wv)))
            if (w[4 + 4 * i] == "1") != eq:
                return ("f64-arith", "binary64 %016x == %016x gives %s" % (a, b, w[4 + 4 * i]))
        if int(out[1].split()[1], 16) != f2b(float(iv)):
            return ("f64-arith", "(double) %d = %s" % (iv, out[1]))
        return None
    c = Case("f64", ["f64 " + " ".join("%016x %016x" % p for p in pairs), "i2d %d" % iv], oracle)
    c.tags = set()
    return c


def case_ftoa(r):
    b = gen_double_bits(r)

    def oracle(out, b=b):
        w = out[0].split()
        t = (b"" if w[1] == "-" else bytes.fromhex(w[1])).decode("latin1")
        x = Fraction(b2f(b))
        try:
            D = Fraction(t)
        except ValueError:
            return ("print-double", "iwjson_ftoa(%016x) = %r is not a number" % (b, t))
        if "e" in t:
            if f2b(float(D)) != b:
                return ("print-double", "iwjson_ftoa(%016x) = %s is another double" % (b, t))
            return None
        # plain form: exactly the value rounded half-even to 8 fraction digits, zeros trimmed
        q = x * 10 ** 8
        n = q.numerator // q.denominator
        rem = q - n
        if rem > Fraction(1, 2) or (rem == Fraction(1, 2) and n % 2 == 1):
            n += 1
        if D != Fraction(n, 10 ** 8):
            return ("print-double", "iwjson_ftoa(%016x = %r) = %s, expected %s/1e8" % (b, b2f(b), t, n))
        if "." in t and (t.endswith("0") or t.endswith(".")):
            return ("print-double", "iwjson_ftoa(%016x) = %s keeps trailing zeros" % (b, t))
        return None
    c = Case("ftoa", ["ftoa %016x" % b], oracle)
    c.tags = set()
    return c


GENS = [(case_parse, 10), (case_parse_mal, 4), (case_parse_deep, 0.15), (case_print, 8), (case_print_badutf8, 0.6),
        (case_unesc, 2), (case_strtod, 2), (case_strtod_wild, 3), (case_ftoa, 2)]


def gen_cases(r, n):
    tot = sum(w for _, w in GENS)
    out = []
    for _ in range(n):
        x = r.random() * tot
        for g, w in GENS:
            x -= w
            if x <= 0:
                out.append(g(r))
                break
    return out


FIXED = [b'[1e0]', b'{"a":1e0}', b'[1E+00 ]', b'"\\r\\n\\t\\b\\f\\/\\\\\\""', b'"\\u000b\\u0000\\u001f"', b'[0.3,0.7,1e23]',
         b'12345678901234567890.5', b'[-0,-0.0,0,0.0]', b'{"a\\u0000b":1}', b'"\\ud83d\\ude00"', b'[9223372036854775807,-9223372036854775808]',
         b' [ ] ', b'{ }', b'[[],{},[[]],{"":{}}]', b'"\\uD834\\uDd1e"', b'1E5', b'1e-5', b'100000000000000000000.0', b'[1,2 ,3\n]\n']


def fixed_cases():
    out = []
    for t in FIXED:
        c = Case("parse-fixed", ["parse " + H(t)], oracle_parse(t))
        c.tags = set()
        out.append(c)
    for b in ["0000000000000000", "8000000000000000", "44b52d02c7e14af6", "7fefffffffffffff", "c415af1d78b58c40", "43e0000000000000",
              "3e112e0be826d695", "4341c37937e08000", "3f60000000000000", "bf60000000000000"]:
        v = ("a", [("d", int(b, 16))])
        c = Case("print-fixed", ["print 0 " + " ".join(wire(v))], oracle_print(v, 0))
        c.tags = set()
        out.append(c)
    v = ("a", [("s", bytes(range(0, 0x30))), ("s", "é€\U0001f600￿".encode("utf-8")), ("o", [(b"k\x0b", None)])])
    for fl in (0, 2, 1, 3):
        c = Case("print-fixed", ["print %d %s" % (fl, " ".join(wire(v)))], oracle_print(v, fl))
        c.tags = set()
        out.append(c)
    return out


def opname(kind):
    return "print" if kind.startswith("print-f") else kind


def signature(case, prob):
    if prob[0] == "crash":
        return dict(kind="crash", op=opname(case.kind), site=prob[1]["site"], what=prob[1]["kind"])
    cls = prob[1][0] if prob[0] == "oracle" and isinstance(prob[1], tuple) else ""
    return dict(kind=prob[0], op=opname(case.kind), cls=cls)


def explore(ctx, h, drv, cases, label):
    for c in cases[:4]:
        ctx.sample(dict(kind=c.kind, ops=[o[:300] for o in c.ops[:2]]))
    probs = differential(ctx, [h], [drv, "c13"] if drv else None, cases, timeout=900)
    for c in cases:
        for t in getattr(c, "tags", ()):
            ctx.hist("tag:" + t)
        if c.impl and c.kind.startswith("parse"):
            ctx.hist("parse-result:" + " ".join(c.impl[0].split()[1:3])[:20] if c.impl[0].startswith("parse err") else "parse-result:ok")
    ndiv = 0
    for c, p in probs:
        if p[0] == "diverge":
            ndiv += 1
            ctx.corr_broken.append("model/implementation diverge on `%s`: impl `%s` model `%s`" % (c.ops[p[1]][:300], p[2][:300], p[3][:300]))
            if ndiv <= 3:
                ctx.log("DIVERGE", c.ops[p[1]][:200], "| impl:", p[2][:200], "| model:", p[3][:200])
        elif p[0] == "oracle":
            msg = p[1]
            if not isinstance(msg, tuple):
                msg = ("oracle-internal", str(msg))
                p = ("oracle", msg)
            ctx.fail(signature(c, p), dict(case=c.kind, ops=[o[:4000] for o in c.ops], impl=[x[:4000] for x in (c.impl or [])], detail=list(msg)), msg[1][:400])
        else:
            ctx.fail(signature(c, p), dict(case=c.kind, ops=[o[:4000] for o in c.ops], impl=c.impl, detail=p[1:]), str(p[1])[:400])
    return probs


def builds(ctx):
    impl = C.build_impl("asan")
    return C.build_harness(impl, "h_c13", ["h_c13.c"], exclude=("iwjser.c",))


def run(ctx):
    sys.setrecursionlimit(20000)
    ctx.cov["rule"] = ("documents drawn from structured generators: strings over code-point classes (ASCII, the 8 short-escape characters, "
                       "all control characters incl. U+0000, 2/3/4-byte boundaries, noncharacters, astral) spelled raw / short escape / \\uXXXX in "
                       "either case / surrogate pair; integers around powers of 2 and 10 and the int64 limits; non-integer numbers with 1-25 "
                       "digits, fractions, exponents with signs and leading zeros, and shortest texts of random bit patterns; nesting 0-5 plus "
                       "a deep stream around the limit 999; random white space in every gap; all 16 print flag combinations; a mutated "
                       "(malformed / lenient) stream; leaf ops for the unescaper, iwstrtod (clean tokens, and a wild stream: white space, signs, up to 400 "
                       "digits, exponents at the pow() limits and the accumulator cap, malformed tails, DBL_MIN special cases) and iwjson_ftoa; "
                       "a hardware cross-check of the soft float (16 boundary-biased operand pairs per case: mul, add, div, ==, int conversion). A case is one op line with one "
                       "oracle; distinct = distinct op text; every case exercises parser or printer")
    ctx.assumptions += [
        "double magnitudes within 1e-290 .. 1e290 (or zero) and decimal exponents |e| <= 300 on the parse side: denormals and pow() under/overflow are out of scope",
        "documents to print hold finite doubles (JSON has no NaN/Infinity), keys without NUL bytes (C strings) and strings that are well-formed UTF-8",
        "texts contain no lone surrogate escapes (RFC 8259 leaves their meaning open; the library rejects them)",
        "locale is \"C\" (isprint, decimal point of printf)",
        "binary64 arithmetic of the build is SSE2 without FMA contraction (gcc default on x86-64); libm pow(10, e) at run time is the one tabulated by the translator probe"]
    ctx.translate()
    ok, drv_ok = ctx.prove(MODULE, THEOREMS) if THEOREMS else _build_only(ctx)
    h = builds(ctx)
    drv = C.drv_path() if drv_ok else None
    n = 30000 if ctx.tier == "quick" else 300000
    r = C.Rng(ctx.seed, "c13/main")
    explore(ctx, h, drv, fixed_cases() + gen_cases(r, n), "main")
    rf = C.Rng(ctx.seed, "c13/f64")
    nf = 6400 if ctx.tier == "quick" else 40000          # x 16 pairs x (mul, add, div, ==)
    explore(ctx, h, drv, [case_f64(rf) for _ in range(nf)], "f64")
    ctx.hist("f64-pairs", nf * F64_PAIRS)
    if (ctx.proof_broken or ctx.corr_broken) and not ctx.violations:
        ctx.log("obligation or correspondence broken: widening the search for a failing input")
        for i in range(3):
            explore(ctx, h, drv, gen_cases(C.Rng(ctx.seed, "c13/search%d" % i), 6000), "search%d" % i)


def _build_only(ctx):
    rc, o, e = C.lake(["build", "drv"])
    ctx.obligation("lake build drv (executable model)", rc == 0, (o + e).decode(errors="replace")[-1500:])
    if rc != 0:
        ctx.corr_broken.append("model driver does not build")
    return True, rc == 0


def replay(ctx, obj):
    sys.setrecursionlimit(20000)
    h = builds(ctx)
    ops = obj["replay"]["ops"]
    rc, o, e = C.run_lines([h], ops)
    for line in o:
        print(line[:2000])
    print(e[-2000:])
    rc2, o2, e2 = C.run_lines([C.drv_path(), "c13"], ops)
    for line in o2:
        print("model:", line[:2000])
    ctx.case("replay")
    ctx.case("replay2")
