"""Shared by the KV checks (C01, C02, C03, C09): history generators and an independent python
reference (ordered map per database) that predicts the canonical result line of every op."""
import binascii, struct
from fractions import Fraction

VNUM, COMPOUND, REAL = 32, 64, 16
NO_OVERWRITE, INCREMENT = 1, 16
FLAG_COMBOS = [0, VNUM, REAL, COMPOUND, VNUM | COMPOUND, REAL | COMPOUND]

H = lambda b: binascii.hexlify(bytes(b)).decode() or "-"


def fnv(b):
    h = 2166136261
    for x in b:
        h = ((h ^ x) * 16777619) & 0xFFFFFFFF
    return h


def pval(b):
    return H(b) if len(b) <= 24 else "#%d:%08x" % (len(b), fnv(b))


def real_parts(b):
    s = b.decode("latin1").lstrip("".join(chr(i) for i in range(33)) + "\x7f")
    sign = 1
    if s.startswith("-"):
        sign, s = -1, s[1:]
    i = 0
    while i < len(s) and s[i].isdigit():
        i += 1
    ip = sign * int(s[:i] or "0")
    rest = s[i:]
    fr = Fraction(0)
    if len(rest) > 1 and rest[0] == ".":
        j = 1
        while j < len(rest) and j <= 32 and rest[j].isdigit():
            j += 1
        if j > 1:
            fr = sign * Fraction(int(rest[1:j]), 10 ** (j - 1))
    return ip, fr


class RefDb:
    """reference database: dict (user-key bytes as stored form, compound) -> value"""

    def __init__(self, flags):
        self.flags = flags
        self.m = {}
        self.meta = b""

    # canonical stored identity of a key: vnum keys are numbers
    def ekey(self, key, comp):
        c = comp if self.flags & COMPOUND else 0
        if self.flags & VNUM:
            if len(key) == 8:
                n = struct.unpack("<Q", key)[0]
                if n >= 1 << 63:
                    return "overflow"
            elif len(key) == 4:
                n = struct.unpack("<I", key)[0]
                if n >= 1 << 31:
                    return "overflow"
            else:
                return "numsize"
            return (n, c)
        return (bytes(key), c)

    def sort_key(self):
        fl = self.flags
        if fl & VNUM:
            return lambda e: (e[0], e[1])
        if fl & REAL:
            def k(e):
                ip, fr = real_parts(e[0])
                return (ip, fr, e[0], e[1])     # python orders bytes like memcmp + length
            return k
        return lambda e: (e[0], e[1])

    def ordered(self):          # descending = scan order of the store
        return sorted(self.m.keys(), key=self.sort_key(), reverse=True)

    def out_key(self, e):
        if self.flags & VNUM:
            return "%s:%d" % (H(struct.pack("<Q", e[0])), e[1])
        return "%s:%d" % (H(e[0]), e[1])


def signed_le(b):
    n = int.from_bytes(b, "little")
    return n - (1 << (8 * len(b))) if n >= 1 << (8 * len(b) - 1) else n


class Ref:
    def __init__(self):
        self.dbs = {}
        self.open = False
        self.ro = False

    def apply(self, line):
        """returns the expected canonical output line, or None when the reference does not predict it"""
        w = line.split()
        op = w[0]
        if op == "open":
            if w[2] == "1":
                self.dbs = {}
            self.open, self.ro = True, w[3] == "1"
            return "open ok"
        if op == "close":
            self.open = False
            return "close ok"
        if op == "db":
            i, fl = int(w[1]), int(w[2])
            if i in self.dbs:
                return "db ok" if self.dbs[i].flags == fl else "db incompat"
            if self.ro:
                return "db readonly"
            self.dbs[i] = RefDb(fl)
            return "db ok"
        if op == "dbdestroy":
            i = int(w[1])
            if i not in self.dbs:
                return "dbdestroy invalid_args"
            del self.dbs[i]
            return "dbdestroy ok"
        if op == "sync":
            return "sync ok"
        if op in ("nodes", "fsize"):
            return None
        d = self.dbs.get(int(w[1])) if op != "cur" else None
        if op == "put":
            key, comp, val, fl = bytes.fromhex(w[2].replace("-", "")), int(w[3]), bytes.fromhex(w[4].replace("-", "")), int(w[5])
            ph = int(w[7]) if len(w) > 7 else 0
            nc = " ph=notcalled" if ph else ""
            if d is None or not key:
                return "put invalid_args" + nc
            if self.ro:
                return "put readonly" + nc
            e = d.ekey(key, comp)
            if isinstance(e, str):
                return "put " + e + nc
            inc = bool(fl & INCREMENT)
            if e in d.m:
                old = d.m[e]
                if fl & NO_OVERWRITE and not inc:
                    return "put exists" + nc
                nv = val
                if inc:
                    if len(val) not in (4, 8) or len(old) not in (4, 8):
                        return "put cannotinc" + nc
                    nv = ((int.from_bytes(old, "little") + signed_le(val)) % (1 << (8 * len(old)))).to_bytes(len(old), "little")
                if ph == 2:
                    return "put fail ph=old:" + pval(old)
                d.m[e] = nv
                return "put ok" + (" ph=old:" + pval(old) if ph == 1 else "")
            if ph == 2:
                return "put fail ph=new"
            d.m[e] = val
            return "put ok" + (" ph=new" if ph == 1 else "")
        if op in ("get", "getc", "del"):
            key, comp = bytes.fromhex(w[2].replace("-", "")), int(w[3])
            tail = {"get": " -", "getc": " 0 -", "del": ""}[op]
            if d is None:
                return op + " invalid_args" + tail
            e = d.ekey(key, comp)
            if isinstance(e, str):
                return op + " " + e + tail
            if e not in d.m:
                return op + " notfound" + tail
            v = d.m[e]
            if op == "get":
                return "get ok " + pval(v)
            if op == "getc":
                return "getc ok %d %s" % (len(v), pval(v[:int(w[4])]))
            del d.m[e]
            return "del ok"
        if op == "mset":
            if d is None:
                return "mset invalid_args"
            b = bytes.fromhex(w[2].replace("-", ""))
            if b:
                d.meta = b
            return "mset ok"
        if op == "mget":
            bs, known = int(w[2]), int(w[3])
            if d is None:
                return "mget invalid_args 0 -"
            if bs == 0 or not d.meta:
                return "mget ok %d -" % (1 if 0 >= min(known, bs) else 0)
            rsz = min(bs, (len(d.meta) + 127) // 128 * 128)
            return "mget ok %d %s" % (1 if rsz >= min(known, bs) else 0, pval(d.meta[:min(rsz, known)]))
        if op == "dump":
            if d is None:
                return "dump nodb"
            return "dump" + "".join(" %s=%s" % (d.out_key(e), pval(d.m[e])) for e in d.ordered())
        return None


# ---------------------------------------------------------------- key / value pools

def venc_key(n):
    return struct.pack("<Q", n)


def make_pool(r, flags, size):
    """returns a list of (user key bytes, compound) drawn so that collisions, shared long prefixes and
    comparator boundaries are frequent"""
    keys = []
    if flags & VNUM:
        base = r.choice([0, 100, (1 << 7) - 20, (1 << 14) - 20, (1 << 21) - 30, 1 << 40, (1 << 63) - 500])
        for _ in range(size):
            n = min((1 << 63) - 1, base + r.randrange(0, size * 2))
            keys.append(venc_key(n) if r.random() < 0.9 or n >= 1 << 31 else struct.pack("<I", n))
    elif flags & REAL:
        for _ in range(size):
            s = r.choice(["", "", " "]) + r.choice(["", "", "-"]) + str(r.randrange(0, r.choice([10, 1000, 10 ** 9])))
            if r.random() < 0.6:
                s += "." + "".join(r.choice("0123456789") for _ in range(r.randrange(1, 12)))
            s += r.choice(["", "", "", "x", "0"])
            keys.append(s.encode())
    else:
        stem = bytes(r.randrange(256) for _ in range(140))
        L = r.choice([3, 8, 60, 112, 114, 115, 116, 120])
        for _ in range(size):
            k = bytearray(stem[:max(1, L + r.choice([-2, -1, 0, 0, 0, 1, 2, 3]))])
            for _ in range(r.choice([1, 1, 2])):
                i = r.choice([len(k) - 1, len(k) - 1, r.randrange(len(k)), min(len(k) - 1, 114)])
                k[i] = r.randrange(256)
            keys.append(bytes(k))
    comps = [0]
    if flags & COMPOUND:
        cb = r.choice([0, 1, 126, 16382, 1 << 40])
        comps = [cb + i for i in range(r.choice([2, 3, 5]))]
    return [(k, r.choice(comps)) for k in keys]


def gen_value(r, big=True):
    x = r.random()
    if x < 0.55:
        n = r.randrange(0, 12)
    elif x < 0.7:
        n = r.choice([4, 8])
    elif x < 0.9:
        n = r.randrange(12, 300)
    elif x < 0.98 or not big:
        n = r.randrange(300, 5000)
    else:
        n = r.randrange(5000, 70000)
    seed = r.randrange(256)
    return bytes((seed + i * 7) & 0xFF for i in range(n))


def gen_level(r):
    l = 0
    while l < 23 and r.random() < 0.5:
        l += 1
    return l
