"""Shared by the KV checks (C01, C02, C03, C09): history generators and an independent python
reference (ordered map per database) that predicts the canonical result line of every op."""
import binascii, struct
from fractions import Fraction

VNUM, COMPOUND, REAL = 32, 64, 16
NO_OVERWRITE, INCREMENT = 1, 16
FLAG_COMBOS = [0, VNUM, REAL, COMPOUND, VNUM | COMPOUND, REAL | COMPOUND]

H = lambda b: binascii.hexlify(bytes(b)).decode() or "-"


def fnv(b):
    h = 2166136261
    for x in b:
        h = ((h ^ x) * 16777619) & 0xFFFFFFFF
    return h


def pval(b):
    return H(b) if len(b) <= 24 else "#%d:%08x" % (len(b), fnv(b))


def real_parts(b):
    s = b.decode("latin1").lstrip("".join(chr(i) for i in range(33)) + "\x7f")
    sign = 1
    if s.startswith("-"):
        sign, s = -1, s[1:]
    i = 0
    while i < len(s) and s[i].isdigit():
        i += 1
    ip = sign * int(s[:i] or "0")
    rest = s[i:]
    fr = Fraction(0)
    if len(rest) > 1 and rest[0] == ".":
        j = 1
        while j < len(rest) and j <= 32 and rest[j].isdigit():
            j += 1
        if j > 1:
            fr = sign * Fraction(int(rest[1:j]), 10 ** (j - 1))
    return ip, fr


class RefDb:
    """reference database: dict (user-key bytes as stored form, compound) -> value"""

    def __init__(self, flags):
        self.flags = flags
        self.m = {}
        self.meta = b""

    # canonical stored identity of a key: vnum keys are numbers
    def ekey(self, key, comp):
        c = comp if self.flags & COMPOUND else 0
        if self.flags & VNUM:
            if len(key) == 8:
                n = struct.unpack("<Q", key)[0]
                if n >= 1 << 63:
                    return "overflow"
            elif len(key) == 4:
                n = struct.unpack("<I", key)[0]
                if n >= 1 << 31:
                    return "overflow"
            else:
                return "numsize"
            return (n, c)
        return (bytes(key), c)

    def sort_key(self):
        fl = self.flags
        if fl & VNUM:
            return lambda e: (e[0], e[1])
        if fl & REAL:
            def k(e):
                ip, fr = real_parts(e[0])
                return (ip, fr, e[0], e[1])     # python orders bytes like memcmp + length
            return k
        return lambda e: (e[0], e[1])

    def ordered(self):          # descending = scan order of the store
        return sorted(self.m.keys(), key=self.sort_key(), reverse=True)

    def out_key(self, e):
        if self.flags & VNUM:
            return "%s:%d" % (H(struct.pack("<Q", e[0])), e[1])
        return "%s:%d" % (H(e[0]), e[1])


def signed_le(b):
    n = int.from_bytes(b, "little")
    return n - (1 << (8 * len(b))) if n >= 1 << (8 * len(b) - 1) else n


class Ref:
    def __init__(self):
        self.dbs = {}
        self.open = False
        self.ro = False

    lenient = False      # C09 mode: cursor moves are judged by the wording of C09, not by exact successor

    def apply(self, line, actual=None):
        """returns the expected canonical output line, or None when the reference does not predict it"""
        w = line.split()
        op = w[0]
        self.t = getattr(self, "t", 0) + 1
        self.actual = actual
        if not hasattr(self, "viol"):
            self.viol = []
        if op == "open":
            if w[2] == "1":
                self.dbs = {}
            self.open, self.ro = True, w[3] == "1"
            return "open ok"
        if op == "close":
            self.curs = {}
            self.open = False
            return "close ok"
        if op == "db":
            i, fl = int(w[1]), int(w[2])
            if i in self.dbs:
                return "db ok" if self.dbs[i].flags == fl else "db incompat"
            if self.ro:
                return "db readonly"
            self.dbs[i] = RefDb(fl)
            return "db ok"
        if op == "dbdestroy":
            i = int(w[1])
            if i not in self.dbs:
                return "dbdestroy invalid_args"
            del self.dbs[i]
            for c in [c for c, o in getattr(self, "curs", {}).items() if o[0] == i]:
                del self.curs[c]
            return "dbdestroy ok"
        if op == "sync":
            return "sync readonly" if self.ro else "sync ok"
        if op in ("nodes", "fsize", "fhash", "image"):
            return None
        d = self.dbs.get(int(w[1])) if op != "cur" else None
        if d is not None and getattr(d, "tainted", False):
            return None
        if op == "put":
            key, comp, val, fl = bytes.fromhex(w[2].replace("-", "")), int(w[3]), bytes.fromhex(w[4].replace("-", "")), int(w[5])
            ph = int(w[7]) if len(w) > 7 else 0
            nc = " ph=notcalled" if ph else ""
            if d is None or not key:
                return "put invalid_args" + nc
            if self.ro:
                return "put readonly" + nc
            e = d.ekey(key, comp)
            if isinstance(e, str):
                return "put " + e + nc
            inc = bool(fl & INCREMENT)
            if e in d.m:
                old = d.m[e]
                if fl & NO_OVERWRITE and not inc:
                    return "put exists" + nc
                nv = val
                if inc:
                    if len(val) not in (4, 8) or len(old) not in (4, 8):
                        return "put cannotinc" + nc
                    nv = ((int.from_bytes(old, "little") + signed_le(val)) % (1 << (8 * len(old)))).to_bytes(len(old), "little")
                if ph == 2:
                    return "put fail ph=old:" + pval(old)
                d.m[e] = nv
                return "put ok" + (" ph=old:" + pval(old) if ph == 1 else "")
            if ph == 2:
                return "put fail ph=new"
            d.birth = getattr(d, "birth", {})
            d.birth[e] = self.t
            d.m[e] = val
            return "put ok" + (" ph=new" if ph == 1 else "")
        if op in ("get", "getc", "del"):
            key, comp = bytes.fromhex(w[2].replace("-", "")), int(w[3])
            tail = {"get": " -", "getc": " 0 -", "del": ""}[op]
            if d is None:
                return op + " invalid_args" + tail
            if op == "del" and self.ro:
                return "del readonly"
            e = d.ekey(key, comp)
            if isinstance(e, str):
                return op + " " + e + tail
            if e not in d.m:
                return op + " notfound" + tail
            v = d.m[e]
            if op == "get":
                return "get ok " + pval(v)
            if op == "getc":
                return "getc ok %d %s" % (len(v), pval(v[:int(w[4])]))
            del d.m[e]
            self.note_db_write(int(w[1]), e, True)
            return "del ok"
        if op == "mset":
            if d is None:
                return "mset invalid_args"
            if self.ro:
                return "mset readonly"
            b = bytes.fromhex(w[2].replace("-", ""))
            if b:
                d.meta = b
            return "mset ok"
        if op == "mget":
            bs, known = int(w[2]), int(w[3])
            if d is None:
                return "mget invalid_args 0 -"
            if bs == 0 or not d.meta:
                return "mget ok %d -" % (1 if 0 >= min(known, bs) else 0)
            rsz = min(bs, (len(d.meta) + 127) // 128 * 128)
            return "mget ok %d %s" % (1 if rsz >= min(known, bs) else 0, pval(d.meta[:min(rsz, known)]))
        if op == "cur":
            return self.cursor(w)
        if op == "dump":
            if d is None:
                return "dump nodb"
            return "dump" + "".join(" %s=%s" % (d.out_key(e), pval(d.m[e])) for e in d.ordered())
        return None


    # ------------------------------------------------------------ cursors (property-level oracle)
    # state per cursor: [dbid, kind, ekey] with kind in head/tail/void/at/gap/unknown.
    # Only clear-cut consequences of C02/C09 are predicted; anything else returns None (not checked).
    def cursor(self, w):
        if not hasattr(self, "curs"):
            self.curs = {}
        c, sub = int(w[1]), w[2]
        if sub == "open":
            self.curs.pop(c, None)
            d = self.dbs.get(int(w[3]))
            if d is None:
                return "cur invalid_args"
            if getattr(d, "tainted", False):
                self.curs[c] = [int(w[3]), "unknown", None]
                return None
            op = w[4]
            if op in ("bf", "al") and len(w) == 5:
                self.curs[c] = [int(w[3]), "head" if op == "bf" else "tail", None]
                return "cur ok"
            if op in ("eq", "ge") and len(w) == 7:
                st = [int(w[3]), "void", None]
                r = self._seek(d, st, op, bytes.fromhex(w[5].replace("-", "")), int(w[6]))
                if r == "cur ok":
                    self.curs[c] = st
                return r
            return None
        st = self.curs.get(c)
        if st is None:
            return "cur nocursor"
        d = self.dbs.get(st[0])
        if d is None or getattr(d, "tainted", False):
            return None
        if sub == "close":
            del self.curs[c]
            getattr(self, "pending", {}).pop(c, None)
            return "cur ok"
        if sub == "to":
            op = w[3]
            if op in ("bf", "al"):
                getattr(self, "pending", {}).pop(c, None)
            if op == "bf":
                st[3:] = [self.t]; st[1:3] = ["head", None]
                return "cur ok"
            if op == "al":
                st[3:] = [self.t]; st[1:3] = ["tail", None]
                return "cur ok"
            keys = d.ordered()      # descending = NEXT order
            if self.lenient and c in getattr(self, "pending", {}):
                self.pending.pop(c)          # the previous move was never read back: position unknown
                st[1] = "unknown"
            if st[1] == "unknown":
                return None
            if self.lenient:
                self.pending = getattr(self, "pending", {})
                self.pending[c] = ("pending", op, st[1], st[2], (self.actual or "cur ?").split()[1])    # judged when the following `cur c key` shows where it landed
                return None
            if st[1] == "void":
                return "cur notfound"
            if st[1] == "head":
                if op == "prev":
                    return "cur notfound"
                if not keys:
                    return "cur notfound"
                st[3:] = [self.t]; st[1:3] = ["at", keys[0]]
                return "cur ok"
            if st[1] == "tail":
                if op == "next":
                    return "cur notfound"
                if not keys:
                    return "cur notfound"
                st[3:] = [self.t]; st[1:3] = ["at", keys[-1]]
                return "cur ok"
            # at / gap: neighbours of the position in key space
            sk = d.sort_key()
            pos = sk(st[2])
            if op == "next":
                cand = [e for e in keys if sk(e) < pos]
                tgt = cand[0] if cand else None
            else:
                cand = [e for e in keys if sk(e) > pos]
                tgt = cand[-1] if cand else None
            if tgt is None:
                if st[1] == "gap":
                    st[1] = "unknown"
                return "cur notfound"
            st[3:] = [self.t]; st[1:3] = ["at", tgt]
            return "cur ok"
        if sub == "tokey":
            return self._seek(d, st, w[3], bytes.fromhex(w[4].replace("-", "")), int(w[5]))
        if self.lenient and c in getattr(self, "pending", {}):
            pend = self.pending.pop(c)
            if sub == "key" and self.actual is not None:
                self._judge(c, d, st, pend, self.actual)
            else:
                st[1] = "unknown"
            return None
        if st[1] == "unknown" or st[1] == "gap":
            if sub in ("set", "del"):
                # a write through a cursor that is not positioned on a record: the property does not say
                # which record it hits; stop predicting this database
                st[1] = "unknown"
                d.tainted = True
            return None
        if st[1] != "at":
            nf = {"get": "cur notfound -", "key": "cur notfound -", "val": "cur notfound -", "cval": "cur notfound 0 -",
                  "ckey": "cur notfound 0:0 -", "match": "cur notfound 0:0", "del": "cur notfound"}
            if sub == "set":
                return "cur notfound" + (" ph=notcalled" if len(w) > 5 and w[5] != "0" else "")
            return nf.get(sub)
        e = st[2]
        v = d.m[e]
        kb = struct.pack("<Q", e[0]) if d.flags & VNUM else e[0]
        if sub == "get":
            return "cur ok %s=%s" % (d.out_key(e), pval(v))
        if sub == "key":
            return "cur ok " + d.out_key(e)
        if sub == "val":
            return "cur ok " + pval(v)
        if sub == "cval":
            return "cur ok %d %s" % (len(v), pval(v[:int(w[3])]))
        if sub == "ckey":
            return "cur ok %d:%d %s" % (len(kb), e[1], H(kb[:int(w[3])]))
        if sub == "match":
            return "cur ok %d:%d" % (1 if kb == bytes.fromhex(w[3].replace("-", "")) else 0, e[1])
        if sub == "set":
            nv = bytes.fromhex(w[3].replace("-", ""))
            ph = int(w[5]) if len(w) > 5 else 0
            if self.ro:
                return "cur readonly" + (" ph=notcalled" if ph else "")
            if ph == 2:
                return "cur fail ph=old:" + pval(v)
            d.m[e] = nv
            return "cur ok" + (" ph=old:" + pval(v) if ph == 1 else "")
        if sub == "del":
            if self.ro:
                return "cur readonly"
            del d.m[e]
            st[1] = "gap"
            # other cursors sitting on the deleted record are now in a gap as well
            for o in self.curs.values():
                if o is not st and o[0] == st[0] and o[1] == "at" and o[2] == e:
                    o[1] = "gap"
            return "cur ok"
        return None

    def _judge(self, c, d, st, pend, actual):
        """C09: a move must return a live record strictly ahead of the cursor's position, and no record that has
        existed continuously since the cursor was last positioned may lie between (or ahead, when it reports not-found)."""
        _, op, kind, e0, move_rc = pend
        sk = d.sort_key()
        birth = getattr(d, "birth", {})
        pt = st[3] if len(st) > 3 else 0
        def ahead(x):
            if kind == "head":
                return op == "next"
            if kind == "tail":
                return op == "prev"
            if kind == "void":
                return False
            return sk(x) < sk(e0) if op == "next" else sk(x) > sk(e0)
        old_ahead = [x for x in d.m if ahead(x) and birth.get(x, 0) < pt]
        w = actual.split()
        if move_rc == "notfound" or w[1] == "notfound":
            if old_ahead and kind != "void":
                self.viol.append("cursor %d %s from %s %s reported not-found although record %s existed throughout and lies ahead"
                                 % (c, op, kind, d.out_key(e0) if e0 else "", d.out_key(old_ahead[0])))
            st[1] = "unknown" if kind == "gap" else kind
            return
        if w[1] != "ok":
            self.viol.append("cursor %d key after %s: %s" % (c, op, actual))
            st[1] = "unknown"
            return
        kh, cp = w[2].split(":")
        kb = bytes.fromhex(kh.replace("-", ""))
        x = (int.from_bytes(kb, "little"), int(cp)) if d.flags & VNUM else (kb, int(cp))
        msg = None
        if x not in d.m:
            msg = "returned %s which is not a live record" % w[2]
        elif not ahead(x):
            msg = "returned %s which does not lie ahead of the cursor" % w[2]
            if kind == "gap" and birth.get(x, 0) > pt:
                msg += " [gap-newborn-behind: a record inserted, after the cursor deleted its record, between the cursor's neighbour and the gap]"
        else:
            lo, hi = (sk(x), sk(e0) if e0 is not None and kind in ("at", "gap") else None) if op == "next" else (sk(e0) if e0 is not None and kind in ("at", "gap") else None, sk(x))
            skipped = [y for y in old_ahead if (sk(y) > sk(x) if op == "next" else sk(y) < sk(x))]
            if skipped:
                msg = "returned %s and skipped %s, which existed throughout and lies between" % (w[2], d.out_key(skipped[0]))
        if msg:
            self.viol.append("cursor %d %s from %s %s: %s" % (c, op, kind, d.out_key(e0) if e0 else "", msg))
        st[3:] = [self.t]
        st[1:3] = ["at", x]

    def _seek(self, d, st, op, key, comp):
        e = d.ekey(key, comp)
        if isinstance(e, str):
            return "cur " + e
        if op == "eq":
            if e in d.m:
                st[3:] = [self.t]; st[1:3] = ["at", e]
                return "cur ok"
            if st[1] == "gap":
                st[1] = "unknown"
            return "cur notfound"
        sk = d.sort_key()
        cand = [x for x in d.m if sk(x) >= sk(e)]
        if not cand:
            if st[1] == "gap":
                st[1] = "unknown"
            return "cur notfound"
        st[3:] = [self.t]; st[1:3] = ["at", min(cand, key=sk)]
        return "cur ok"

    def note_db_write(self, dbid, e, deleted):
        """a put/del through the database API: cursors on a deleted record fall into the gap"""
        for o in getattr(self, "curs", {}).values():
            if o[0] == dbid and o[1] == "at" and o[2] == e and deleted:
                o[1] = "gap"


# ---------------------------------------------------------------- key / value pools

def venc_key(n):
    return struct.pack("<Q", n)


def make_pool(r, flags, size):
    """returns a list of (user key bytes, compound) drawn so that collisions, shared long prefixes and
    comparator boundaries are frequent"""
    keys = []
    if flags & VNUM:
        base = r.choice([0, 100, (1 << 7) - 20, (1 << 14) - 20, (1 << 21) - 30, 1 << 40, (1 << 63) - 500])
        # spread profile: numbers 2^31 / 2^32 (and multiples) apart - differences that do not fit an int
        step = r.choice([1 << 31, 1 << 32, (1 << 32) + 1, 1 << 33, 3 << 31, 1 << 40]) if r.random() < 0.3 else 0
        for _ in range(size):
            n = min((1 << 63) - 1, base + r.randrange(0, size * 2))
            if step:
                n = min((1 << 63) - 1, base + r.randrange(0, 4) + step * r.randrange(0, max(2, size // 3)))
            keys.append(venc_key(n) if r.random() < 0.9 or n >= 1 << 31 else struct.pack("<I", n))
    elif flags & REAL:
        for _ in range(size):
            s = r.choice(["", "", " "]) + r.choice(["", "", "-"]) + str(r.randrange(0, r.choice([10, 1000, 10 ** 9])))
            if r.random() < 0.6:
                s += "." + "".join(r.choice("0123456789") for _ in range(r.randrange(1, 12)))
            s += r.choice(["", "", "", "x", "0"])
            keys.append(s.encode())
    else:
        stem = bytes(r.randrange(256) for _ in range(140))
        L = r.choice([3, 8, 60, 112, 114, 115, 116, 120])
        for _ in range(size):
            k = bytearray(stem[:max(1, L + r.choice([-2, -1, 0, 0, 0, 1, 2, 3]))])
            for _ in range(r.choice([1, 1, 2])):
                i = r.choice([len(k) - 1, len(k) - 1, r.randrange(len(k)), min(len(k) - 1, 114)])
                k[i] = r.randrange(256)
            keys.append(bytes(k))
    comps = [0]
    if flags & COMPOUND:
        cb = r.choice([0, 1, 126, 16382, 1 << 40])
        comps = [cb + i for i in range(r.choice([2, 3, 5]))]
    return [(k, r.choice(comps)) for k in keys]


def gen_value(r, big=True):
    x = r.random()
    if x < 0.55:
        n = r.randrange(0, 12)
    elif x < 0.7:
        n = r.choice([4, 8])
    elif x < 0.9:
        n = r.randrange(12, 300)
    elif x < 0.98 or not big:
        n = r.randrange(300, 5000)
    else:
        n = r.randrange(5000, 70000)
    seed = r.randrange(256)
    return bytes((seed + i * 7) & 0xFF for i in range(n))


def gen_level(r):
    l = 0
    while l < 23 and r.random() < 0.5:
        l += 1
    return l
