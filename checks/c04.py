"""C04: with WAL, a kill at any instant loses no synced work and tears no operation."""
import os
from vlib import common as C
from vlib.diff import Case, run_batch, san_site
from checks import c05 as W

LEVEL = "proof"
# C functions this check's models mirror (source-text fingerprints are recorded in the evidence, see translate/funchash.py)
MODELLED_FUNCS = {'src/kv/iwal.c': ['_write_wl', '_flush_wl', '_onset', '_onwrite', '_onresize', '_oncopy', '_savepoint_exl', '_checkpoint_exl', '_truncate_wl', '_rollforward_exl', '_recover_wl', '_onclosing']}
MANIFEST = dict(
    level="proof",
    text=("Lean 4 theorems over the executable WAL model: the roll-forward of a log of absolute-address records is idempotent over every "
          "partially applied image (replay_idempotent: a kill between any two records of a checkpoint or of the recovery itself is harmless), "
          "and a regular checkpoint killed after any number of records is completed exactly by the recovery at the next open "
          "(checkpoint_kill_recovers); kills between checkpoints are the cut-log theorem of C05. Over an executable model of the writer "
          "(Model/WalWriter.lean: log buffer with the payload-outside-the-segment rule, flush, fsync, savepoint, checkpoint, forced checkpoint, "
          "truncate) and for every trace of its steps without a resize (hypothesis noForcedCheckpointInsideOp, finding F26): after a kill at any "
          "point, with the log file cut anywhere at or after its last fsync, recovery yields the main-file image of a savepoint of the trace not "
          "older than the last one synced, the last savepoint for pure process death, and the checkpoint's savepoint when killed while records are "
          "applied (writer_recover_savepoint_partial); a completed checkpoint leaves main = replay(log) and an empty log (checkpoint_preserves); "
          "the forced checkpoint exposes unsaved records (forced_checkpoint_exposes_unsaved, witness). The writer model is fed the listener "
          "events recorded from real runs and must issue the same system calls on the log with the same bytes, keep the same flags, log file, "
          "buffer, main file after checkpoints and recovery result. Exhaustive crash enumeration on the real "
          "code: a child runs random put/del/sync/new-db/checkpoint/close histories and is killed before every single file-system effect "
          "(write, ftruncate, fsync, msync, and the store of every log record during checkpoints incl. growth-forced ones, plus kills inside "
          "the recovery); the store is reopened and must equal the python reference after a prefix of the operations that contains "
          "everything completed before the last durable point; every real checkpoint and every killed checkpoint image is recomputed by the "
          "model byte for byte"),
    note=("trusted: Lean kernel, translator, harness/generators, gcc+ASan/UBSan, Linux page-cache semantics of process death (completed "
          "write/ftruncate and MAP_SHARED stores survive, MAP_PRIVATE and user buffers are lost); modelled not verified: C control flow; "
          "the trace theorem is about byte images at savepoints, its composition with the KV layer (savepoint image = prefix of operations) is covered "
          "by the enumeration only; no WBCOPY in the kill-while-applying part; idempotence is proved for logs without WBRESIZE/WBCOPY; "
          "the property fails on the tree in the window of open finding F26 (resize-forced checkpoint without savepoint, incl. the tail trim "
          "of iwkv_close); checkpoint thread idle; tree = /repo + fix commits of branch fix-wal0504"),
    technique="Lean 4 proof over executable model + crash enumeration with link-time interposers + differential correspondence")
MODULE = "IwModel.Props.C04"
THEOREMS = ["IwModel.C04.replay_idempotent", "IwModel.C04.replay_idempotent_twice", "IwModel.C04.checkpoint_kill_recovers",
            "IwModel.C04.writer_recover_savepoint_partial", "IwModel.C04.checkpoint_preserves", "IwModel.C04.forced_checkpoint_exposes_unsaved",
            "IwModel.C04.forced_checkpoint_witness"]
WRAPS = ("write", "pwrite64", "ftruncate64", "fsync", "fdatasync", "msync")


def gen_history(r, path, nops, grow):
    """(lines for the harness, reference actions of the enumerated part, state after set-up)"""
    crc = r.choice([0, 1])
    buf = r.choice([4096, 4096, 8192])
    setup, st = ["db 1"], {1: {}}
    dbs = [1]
    inplace = (not grow) and r.random() < 0.5
    # churn profile: one small block per database, deletes and re-puts of medium values: data blocks are compacted in place
    churn = (not grow) and (not inplace) and r.random() < 0.5
    # relocation profile: a pre-grown file (no growth, so no forced checkpoint, in the enumerated part), few keys whose values grow
    # step by step: their data block is moved to a larger one again and again, the ranges it leaves are reused by small records
    reloc = (not grow) and (not inplace) and (not churn) and r.random() < 0.8
    if r.random() < (0.8 if inplace else 1.0 if reloc else 0.4):
        setup.append("db 2"); st[2] = {}; dbs.append(2)
    keys = [b"k%03d" % i for i in range(r.choice([6, 20, 50]))] + [bytes([65 + i]) * r.choice([40, 120, 200]) for i in range(2)]
    if grow or reloc:
        big = r.choice([30000, 60000, 100000]) if grow else 250000
        setup += ["put 1 %s %d 9" % (b"grow".hex(), big), "del 1 %s" % b"grow".hex()]
    if reloc:
        keys = keys[:r.choice([2, 3, 5])]          # few keys in each of two databases: the blocks of one land where the other's were
    # some committed content before the enumeration starts
    # (in-place profile: mostly a small store whose file never grows, so that close has no tail to trim and its
    # checkpoint is not preceded by the resize-forced one of open finding F26)
    lead = []
    if churn:
        # a data block filled to 80-97 % of 1K (or 2K) by one short record and m equal ones, all checkpointed; the enumerated
        # part starts by deleting the short one and adding a record that fits only after the block has been compacted
        cap = r.choice([1024, 1024, 2048])
        small, L = r.randrange(20, 60), r.choice([60, 100, 150])
        m = max(2, int((r.uniform(0.80, 0.97) * cap - small) / (L + 8)))
        keys = [b"k%03d" % i for i in range(m + 2)]
        for d in dbs:
            for i, k in enumerate(keys[:m + 1]):
                ln, seed = (small if i == 0 else L), r.randrange(1, 250)
                setup.append("put %d %s %d %d" % (d, k.hex(), ln, seed)); st[d][k] = (ln, seed)
        d = r.choice(dbs)
        lead = [("del", d, keys[0]), ("put", d, keys[m + 1], small + r.randrange(5, 70), r.randrange(1, 250))]
        if r.random() < 0.5:
            lead.append(("sync",))
    for _ in range(0 if (churn or inplace and r.random() < 0.7) else r.randrange(0, 25)):
        d, k = r.choice(dbs), r.choice(keys)
        ln, seed = r.choice([r.randrange(1, 60), r.randrange(1, 600), r.randrange(600, 5000)]), r.randrange(1, 250)
        setup.append("put %d %s %d %d" % (d, k.hex(), ln, seed)); st[d][k] = (ln, seed)
    setup.append(r.choice(["ckpt", "sync", "ckpt"]))
    ops, acts = [], []
    presetup = len(setup)
    psync = r.choice([0.1, 0.2, 0.35])
    # in-place profile: few keys, one value length per key (overwrites stay inside the record), savepoints but no checkpoint:
    # one log generation holds records of the same locations in front of and behind a savepoint
    fixed = {}
    if inplace:
        keys = keys[:r.choice([2, 4, 6])]
        fixed = {k: r.choice([8, 30, 100]) for k in keys}
        ck = setup.pop()                       # every key exists with its final length before the last checkpoint of the set-up
        for d in dbs:
            for k in keys:
                seed = r.randrange(1, 250)
                setup.append("put %d %s %d %d" % (d, k.hex(), fixed[k], seed)); st[d][k] = (fixed[k], seed)
        setup.append("ckpt" if r.random() < 0.8 else ck)
    # two-phase shape of the in-place profile: up to the last savepoint only database 1 is written, behind it database 1 is
    # overwritten again and database 2 is touched for the first time in this log generation (blocks with records on one
    # side of the savepoint only, next to blocks with records on both sides)
    twophase = inplace and len(dbs) >= 2 and r.random() < 0.7
    cutover = int(nops * r.choice([0.4, 0.6, 0.8]))
    seen_a = set()
    for a in lead:
        acts.append(a)
        ops.append("sync" if a[0] == "sync" else "del %d %s" % (a[1], a[2].hex()) if a[0] == "del" else "put %d %s %d %d" % (a[1], a[2].hex(), a[3], a[4]))
    for step in range(nops):
        x = r.random()
        if twophase and step == cutover:
            ops.append("sync"); acts.append(("sync",))
            continue
        if twophase and step > cutover and x < psync + 0.07:
            x = 0.99                            # no savepoint behind the cut-over
        if x < psync:
            ops.append("sync"); acts.append(("sync",))
        elif inplace and x < psync + 0.07:
            continue
        elif x < psync + 0.04:
            ops.append("ckpt"); acts.append(("ckpt",))
        elif x < psync + 0.07 and len(dbs) < 4:
            d = max(dbs) + 1; dbs.append(d)
            ops.append("db %d" % d); acts.append(("db", d))
        else:
            d, k = r.choice(dbs), r.choice(keys)
            if twophase and step < cutover:
                d = dbs[0]
                seen_a.add(k)
            elif twophase and d == dbs[0] and seen_a and r.random() < 0.8:
                k = r.choice(sorted(seen_a))
            if r.random() < (0.08 if inplace else 0.4 if churn else 0.25):
                ops.append("del %d %s" % (d, k.hex())); acts.append(("del", d, k))
            else:
                ln = r.choice([r.randrange(1, 40), r.randrange(1, 300), r.randrange(300, 3000), r.randrange(3900, 4300),
                               r.randrange(4000, 9000)] + ([] if grow else [r.randrange(9000, 40000)]))
                seed = r.randrange(1, 250)
                if reloc:
                    if False:
                        pass
                    else:
                        prev = max([a[3] for a in acts if a[0] == "put" and a[1:3] == (d, k)] + [st.get(d, {}).get(k, (100, 0))[0]])
                        ln = min(30000, prev * 2 + r.randrange(1, 60)) if r.random() < 0.7 else r.randrange(50, 300)
                if churn:
                    ln = r.randrange(40, 260)
                if inplace:
                    ln = fixed[k]
                ops.append("put %d %s %d %d" % (d, k.hex(), ln, seed)); acts.append(("put", d, k, ln, seed))
    ops.append("close"); acts.append(("close",))
    lines = ["hist-begin %s %d %d" % (path, crc, buf)] + setup + ["---"] + ops + ["hist-end"]
    return lines, ops, acts, st, crc


def ref_states(st0, acts):
    out = [W.state_digest(st0)]
    st = W.copy_state(st0)
    for a in acts:
        if a[0] == "put":
            st[a[1]][a[2]] = (a[3], a[4])
        elif a[0] == "del":
            st[a[1]].pop(a[2], None)
        elif a[0] == "db":
            st.setdefault(a[1], {})
        out.append(W.state_digest(st))
    return out


def judge(line, states):
    """The property on one crash point. None or (class, message)."""
    head, tail = line.split(" | ", 1)
    f = lambda n: W.field(head, n)
    begun, done, synced = int(f("begun")), int(f("done")), int(f("synced"))
    opn = W.field(tail, "open")
    if opn != "0":
        return ("open-failed", "killed before effect %s (%s): reopen failed with %s" % (f("k"), f("at"), opn))
    dig = W.field(tail, "dig")
    if dig is None or not dig.startswith("0:"):
        return ("unreadable", "killed before effect %s (%s): reopened store cannot be read: %s" % (f("k"), f("at"), dig))
    d = dig[2:]
    idx = [i for i, x in enumerate(states) if x == d]
    ok = [i for i in idx if synced <= i <= begun]
    if ok:
        return None
    if not idx:
        return ("torn", "killed before effect %s (%s) during op #%d: contents %s equal the reference after no prefix of the operations" % (
            f("k"), f("at"), begun, d))
    if max(idx) < synced:
        return ("lost-synced", "killed before effect %s (%s): contents are the state after %s ops, but %d ops were complete at the last durable point" % (
            f("k"), f("at"), idx, synced))
    return ("future", "killed before effect %s (%s): contents are the state after %s ops, only %d were begun" % (f("k"), f("at"), idx, begun))


def build(ctx):
    impl = C.build_impl("asan")
    return C.build_harness(impl, "h_c04", ["h_c04.c"], exclude=("iwal.c",), wraps=WRAPS)


def recheck(h, drv, lines, obs, crash_op, crc):
    """fresh observing run + fresh kill; True when the killed image now equals the model's"""
    os.makedirs(obs, exist_ok=True)
    rc, out, err = C.run_lines([h], lines + ["count " + obs, crash_op], timeout=300)
    if len(out) != 3 or W.field(out[2], "ck") is None:
        return False
    line = out[2]
    c = int(W.field(line, "ck"))
    op = "partial %s/pre%d %s/wal%d %s %d %s %s" % (obs, c, obs, c, W.field(line, "stores"), crc, W.field(line, "cmsz"), W.field(line, "cmh"))
    rc, mo, me = C.run_lines([drv, "c04"], [op], timeout=120)
    return bool(mo) and mo[0] == "partial msz=%s mh=%s" % (W.field(line, "cmsz"), W.field(line, "cmh"))


def explore(ctx, h, drv, label, nhist, nops, stride, n2):
    r = C.Rng(ctx.seed, "c04/" + label)
    wd = os.path.join(C.scratch(), "c04-" + label)
    os.makedirs(wd, exist_ok=True)
    for hi in range(nhist):
        path = os.path.join(wd, "h%d.db" % hi)
        obs = os.path.join(wd, "obs%d" % hi)
        os.makedirs(obs, exist_ok=True)
        grow = hi % 2 == 1          # every other history grows the file inside operations (forced checkpoints)
        lines, ops, acts, st0, crc = gen_history(r, path, r.randrange(max(4, nops // 2), nops), grow)
        states = ref_states(st0, acts)
        rc, out, err = C.run_lines([h], lines + ["count " + obs], timeout=120)
        if rc != 0 or len(out) != 2 or W.field(out[1], "st") != "0":
            kind, fn = san_site(err)
            ctx.fail(dict(kind="crash", phase="history", site=fn, what=kind), dict(lines=lines, stderr=err[-3000:], out=out),
                     "uninterrupted history run failed: %s %s" % (out[-1:], err[-300:]))
            continue
        total = int(W.field(out[1], "effects"))
        for w in out[1].split()[5:]:
            k, v = w.split("=")
            ctx.hist("effect-" + k, int(v))
        ctx.sample(dict(history_head=lines[:6], ops=len(ops), effects=total, count_line=out[1]))
        # (b) log semantics: every real checkpoint replayed by the model
        nck = int(W.field(out[1], "ckpts"))
        # the log every checkpoint of this history rolled forward: only WRITE / SET / RESIZE records may change the main file
        # (replay_idempotent, checkpoint_kill_recovers are theorems about such logs; a COPY record reads its source at replay time)
        for i in range(nck):
            wf = os.path.join(obs, "wal%d" % i)
            if os.path.exists(wf):
                kinds = [op for (_, _, op) in W.parse_log(open(wf, "rb").read())]
                if W.COPY in kinds and not any("WBCOPY" in x for x in ctx.corr_broken):
                    ctx.corr_broken.append("the log of a checkpoint holds %d WBCOPY record(s) (history %d of stream %s): replaying such a log twice - a kill "
                                           "between roll-forward and truncation - is not idempotent; the recovery theorems cover WRITE/SET/RESIZE logs" % (
                                               kinds.count(W.COPY), hi, label))
        ck = ["ckpt %s/pre%d %s/wal%d %s/post%d" % (obs, i, obs, i, obs, i) for i in range(nck)]
        pk = {}
        # (a) every crash point (or every stride-th one), plus second-level kills inside the recovery
        ks = list(range(0, total + 1, stride))
        if stride > 1:
            ks = sorted(set(ks + [r.randrange(total + 1) for _ in range(total // stride)]))
        cl = ["crash %d" % k for k in ks]
        for _ in range(n2):
            cl.append("crash %d %d" % (r.randrange(total + 1), r.randrange(0, 40)))
        rc, out2, err2 = C.run_lines([h], lines + cl, timeout=1800)
        if len(out2) != 1 + len(cl):
            ctx.corr_broken.append("crash enumeration harness died: rc=%s %s" % (rc, err2[-400:]))
            continue
        for opl, line in zip(cl, out2[1:1 + len(cl)]):
            ctx.case((label, hi, opl))
            at = W.field(line, "at")
            if at == "record.main" and " " not in opl[6:] and W.field(line, "ck") is not None and int(W.field(line, "ck")) < nck:
                # the image a killed checkpoint left must be what the model's loop leaves with fuel for the records before that store
                c = int(W.field(line, "ck"))
                ck.append("partial %s/pre%d %s/wal%d %s %d %s %s" % (obs, c, obs, c, W.field(line, "stores"), crc, W.field(line, "cmsz"), W.field(line, "cmh")))
                pk[ck[-1]] = opl
            ctx.hist("kill-before-" + at)
            if W.field(line, "rat") not in (None, "none"):
                ctx.hist("kill-in-recovery-before-" + W.field(line, "rat"))
            prob = judge(line, states)
            ctx.hist("result-" + (prob[0] if prob else "prefix-state"))
            if prob:
                inclose = "close" if int(W.field(line.split(" | ")[0], "begun")) >= len(ops) else "op"
                ctx.hist("fail:%s:forced%s:%s" % (prob[0], W.field(line, "forced"), inclose))
                sig = dict(kind="oracle", cls=prob[0], forced=W.field(line, "forced"), at=at.split(".")[0], during=inclose)
                ctx.fail(sig, dict(lines=lines, op=opl, impl=line, states=states), prob[1])
        if drv and ck:
            rc, mo, me = C.run_lines([drv, "c04"], ck, timeout=600)
            rc, io, ie = C.run_lines([h], ck, timeout=600)
            for opl, a, b in zip(ck, io, mo + ["<missing>"] * len(ck)):
                ctx.cov["traces_validated_against_impl"] += 1
                ctx.hist("checkpoint-replayed-by-model" if opl.startswith("ckpt") else "killed-checkpoint-image-matches-model")
                if a != b:
                    if opl.startswith("partial") and opl in pk and recheck(h, drv, lines, obs + "r", pk[opl], crc):
                        # the kill run and the observing run are separate executions; once in a few thousand images they
                        # were seen to differ although every input is fixed (cause not found). A divergence counts when it
                        # shows again on a fresh pair of runs.
                        ctx.hist("killed-checkpoint-image-diverged-once-not-reproducible")
                        ctx.notes.append("non-reproducible divergence on `%s`: impl `%s` model `%s`" % (opl, a, b))
                        continue
                    ctx.corr_broken.append("model/implementation diverge on checkpoint `%s`: impl `%s` model `%s`" % (opl, a, b))
                    if len(ctx.corr_broken) <= 5:
                        ctx.log("DIVERGE", opl, "| impl:", a, "| model:", b)


# ------------------------------------------------------------------ (d) writer model vs the real writer

WWRAPS = ("write", "fsync", "fdatasync", "ftruncate64")


def build_writer(ctx):
    impl = C.build_impl("asan")
    return C.build_harness(impl, "h_walw", ["h_walw.c"], exclude=("iwal.c",), wraps=WWRAPS)


def gen_writer_history(r, wd, tag, nops):
    """op lines for h_walw: set-up, `rec` at a clean point, random ops with snapshots, close"""
    path = os.path.join(wd, tag + ".db")
    crc = r.choice([0, 1, 1])
    buf = r.choice([4096, 4096, 8192, 16384])
    ops = ["open %s %d %d" % (path, crc, buf), "db 1"]
    dbs = [1]
    if r.random() < 0.4:
        ops.append("db 2"); dbs.append(2)
    if r.random() < 0.6:      # pre-grown file: few resize-forced checkpoints inside the recorded part
        ops += ["put 1 %s %d 9" % (b"grow".hex(), r.choice([20000, 40000, 80000])), "del 1 %s" % b"grow".hex()]
    ops += ["ckpt", "rec %s %s" % (os.path.join(wd, tag + ".ev"), os.path.join(wd, tag + ".main0"))]
    keys = [b"k%03d" % i for i in range(r.choice([6, 20, 50]))] + [bytes([65 + i]) * r.choice([40, 120, 200]) for i in range(2)]
    psync = r.choice([0.05, 0.15, 0.3])
    nsnap = 0
    for _ in range(nops):
        x = r.random()
        if x < psync:
            ops.append("sync")
        elif x < psync + 0.04:
            ops.append("ckpt")
        elif x < psync + 0.07 and len(dbs) < 4:
            d = max(dbs) + 1; dbs.append(d); ops.append("db %d" % d)
        elif x < psync + 0.13 and nsnap < 4:
            ops.append("snap %s %s %s" % tuple(os.path.join(wd, "%s.s%d.%s" % (tag, nsnap, k)) for k in ("main", "wal", "buf"))); nsnap += 1
        else:
            d, k = r.choice(dbs), r.choice(keys)
            if r.random() < 0.25:
                ops.append("del %d %s" % (d, k.hex()))
            else:
                # sizes around the buffer capacity: payload inside the buffer, exactly filling it, written outside the segment
                ln = r.choice([r.randrange(1, 40), r.randrange(1, 300), r.randrange(300, 3000), r.randrange(buf - 400, buf + 100),
                               r.randrange(4000, 9000), r.randrange(9000, 30000)])
                ops.append("put %d %s %d %d" % (d, k.hex(), ln, r.randrange(1, 250)))
    ops.append("snap %s %s %s" % tuple(os.path.join(wd, "%s.s%d.%s" % (tag, nsnap, k)) for k in ("main", "wal", "buf")))
    ops += ["close", "stop"]
    return ops, crc, buf, path


def gen_raw_history(r, wd, tag, nops):
    """The listener driven directly inside a free region at the end of a pre-grown file: exact fits of payload and header,
    WBCOPY, onsynced -- what KV operations produce rarely or never. No KV operation follows the raw events and the store is
    not closed (its contents are overwritten on purpose)."""
    path = os.path.join(wd, tag + ".db")
    crc = r.choice([0, 1])
    buf = r.choice([4096, 8192])
    grow = 70000
    ops = ["open %s %d %d" % (path, crc, buf), "db 1", "put 1 %s %d 9" % (b"grow".hex(), grow), "del 1 %s" % b"grow".hex(),
           "ckpt", "rec %s %s" % (os.path.join(wd, tag + ".ev"), os.path.join(wd, tag + ".main0"))]
    return ops, crc, buf, path


def raw_ops(r, wd, tag, nops, msz, buf):
    lo, hi = msz - 40000, msz          # stores stay inside [lo, hi)
    ops, nsnap = [], 0
    off = lambda ln: r.randrange(lo, hi - ln)
    for _ in range(nops):
        x = r.random()
        if x < 0.22:
            ops.append("raw write %d fit%d %d" % (off(buf + 8), r.choice([0, 0, 1, -1, 2, -20, 5]), r.randrange(1, 250)))
        elif x < 0.40:      # leave r bytes free, then a record whose header (20/24/28 bytes) just fits or just does not
            ops.append("raw room %d %d %d" % (off(buf), r.choice([0, 1, 11, 12, 19, 20, 21, 23, 24, 25, 27, 28, 29]), r.randrange(1, 250)))
            k = r.random()
            if k < 0.4:
                ops.append("raw write %d %d %d" % (off(64), r.choice([0, 1, 7, 30]), r.randrange(1, 250)))
            elif k < 0.7:
                ops.append("raw set %d %d %d" % (off(600), r.randrange(256), r.choice([0, 1, 500])))
            else:
                ln = r.choice([0, 1, 300])
                ops.append("raw copy %d %d %d" % (off(ln + 1), ln, off(ln + 1)))
        elif x < 0.55:
            ops.append("raw write %d %d %d" % (off(3 * buf), r.choice([0, 1, 40, 300, buf - 21, buf - 20, buf - 19, buf, 2 * buf + 5]), r.randrange(1, 250)))
        elif x < 0.65:
            ops.append("raw set %d %d %d" % (off(5000), r.randrange(256), r.choice([0, 1, 17, 4096])))
        elif x < 0.75:
            ln = r.choice([0, 1, 64, 2000])
            ops.append("raw copy %d %d %d" % (off(ln + 1), ln, off(ln + 1)))
        elif x < 0.80:
            ops.append("raw synced")
        elif x < 0.90:
            ops.append("sync")
        elif x < 0.95:
            ops.append("ckpt")
        elif nsnap < 3:
            ops.append("snap %s %s %s" % tuple(os.path.join(wd, "%s.s%d.%s" % (tag, nsnap, k)) for k in ("main", "wal", "buf"))); nsnap += 1
    ops.append("snap %s %s %s" % tuple(os.path.join(wd, "%s.s%d.%s" % (tag, nsnap, k)) for k in ("main", "wal", "buf")))
    ops.append("stop")
    return ops


def convert_events(evpath):
    """event file of h_walw -> [(model op, system calls on the log that followed, flags line or None, checkpoint-end line or None)]"""
    recs = [l.rstrip("\n") for l in open(evpath)]
    out, i = [], 0
    while i < len(recs):
        l = recs[i]; w = l.split()
        if not w or w[0] in ("#", "st"):
            i += 1; continue
        kind = w[0]
        if kind == "snap":
            out.append(("snap", w[1:4], None, None)); i += 1; continue
        if kind not in ("set", "copy", "write", "resize", "synced", "time0"):
            raise ValueError("unexpected event record: " + l[:80])
        j, effs, t1 = i + 1, [], None
        while j < len(recs):
            k = recs[j].split()[0]
            if k == "W": effs.append("W:%s:%s" % tuple(recs[j].split()[1:3]))
            elif k == "F": effs.append("F")
            elif k == "T": effs.append("T")
            elif k == "time1" and t1 is None and kind in ("resize", "time0"): t1 = recs[j]
            elif k == "#": pass
            else: break
            j += 1
        st = recs[j] if j < len(recs) and recs[j].startswith("st ") else None
        if kind == "time0":
            op = ("ckpt %s" % w[1]) if t1 else ("sp %s %d" % (w[1], 1 if "F" in effs else 0))
        else:
            op = l
        out.append((op, " ".join(effs) or "-", st, t1))
        i = j
    return out


def writer_tie(ctx, drv, label, nhist, nops):
    """The Lean writer (`Model/WalWriter.lean`) is fed the listener events recorded from a real run and must perform the same
    system calls on the log file (lengths and FNV of every write), keep the same flags, leave the same log file and log buffer
    byte for byte, the same main file after every checkpoint, and recover to the same image after a kill at every snapshot."""
    if not drv:
        return
    h = build_writer(ctx)
    r = C.Rng(ctx.seed, "c04/writer/" + label)
    wd = os.path.join(C.scratch(), "c04w-" + label)
    os.makedirs(wd, exist_ok=True)
    for hi in range(nhist + max(2, nhist // 3)):
        tag = "w%d" % hi
        raw = hi >= nhist
        if raw:
            # two passes: the set-up tells the size of the file, the raw events are placed inside its free tail
            ops, crc, buf, path = gen_raw_history(r, wd, tag, nops)
            rc, out, err = C.run_lines([h], ops, timeout=300)
            recl = [o for o in out if o.startswith("rec ok")]
            if rc != 0 or not recl:
                ctx.corr_broken.append("writer tie: raw-listener set-up failed: %s %s" % (out[-1:], err[-200:]))
                continue
            ops = ops + raw_ops(r, wd, tag, r.randrange(nops, 2 * nops), int(W.field(recl[0], "msz")), buf)
        else:
            ops, crc, buf, path = gen_writer_history(r, wd, tag, r.randrange(max(4, nops // 2), nops))
        rc, out, err = C.run_lines([h], ops, timeout=300)
        if rc != 0 or len(out) != len(ops) or not any(o.startswith("rec ok") for o in out):
            kind, fn = san_site(err)
            ctx.fail(dict(kind="crash", phase="writer-history", site=fn, what=kind), dict(lines=ops, stderr=err[-3000:], out=out[-5:]),
                     "recorded writer history failed: rc=%s %s %s" % (rc, out[-1:], err[-300:]))
            continue
        recl = [o for o in out if o.startswith("rec ok")][0]
        try:
            conv = convert_events(os.path.join(wd, tag + ".ev"))
        except ValueError as e:
            ctx.corr_broken.append("writer tie: %s" % e)
            continue
        lines, what = ["init %d %s %s" % (crc, W.field(recl, "bufsz"), os.path.join(wd, tag + ".main0"))], [None]
        snaps = []
        for c in conv:
            if c[0] == "snap":
                k = len(snaps)
                snaps.append(c[1])
                for part in ("log", "buf"):
                    lines.append("dump %s %s" % (part, os.path.join(wd, "%s.m%d.%s" % (tag, k, part)))); what.append(("dump", k, part))
                lines.append("recover"); what.append(("recover", k))
            else:
                lines.append(c[0]); what.append(("op", c))
                if c[3]:
                    lines.append("state"); what.append(("main", c))
        rc, mo, me = C.run_lines([drv, "walw"], lines, timeout=600)
        if rc != 0 or len(mo) != len(lines):
            ctx.corr_broken.append("writer model driver failed on history %s: rc=%s %s" % (tag, rc, me[-300:]))
            continue
        # the real recovery of every snapshot pair (kill at that instant)
        # (not for raw-listener histories: they overwrite the store's contents, the KV layer may refuse the file)
        rl = [] if raw else ["recov %s %s %s %d" % (os.path.join(wd, "rw.db"), sn[0], sn[1], crc) for sn in snaps]
        rc, ro, re_ = C.run_lines([h], rl, timeout=300) if rl else (0, [], "")
        if rc != 0 or len(ro) != len(rl):
            kind, fn = san_site(re_)
            ctx.fail(dict(kind="crash", phase="writer-recover", site=fn, what=kind), dict(lines=ops, recov=rl, stderr=re_[-3000:]),
                     "recovery of a snapshot taken during a recorded history died: %s" % re_[-300:])
            continue
        nbad = 0

        def diverge(msg):
            nonlocal nbad
            nbad += 1
            ctx.corr_broken.append("writer model/implementation diverge (%s, crc=%d bufsz=%d): %s" % (tag, crc, buf, msg))
            if nbad <= 3:
                ctx.log("DIVERGE writer", tag, msg[:600])
        for wi, (wh, o) in enumerate(zip(what, mo)):
            if wh is None:
                continue
            if wh[0] == "op":
                op, effs, st, t1 = wh[1]
                ctx.cov["traces_validated_against_impl"] += 1
                ctx.case(("writer", label, hi, wi))
                ctx.hist("writer-step-" + op.split()[0] + ("-raw" if raw else ""))
                if raw and op.startswith("write"):
                    # how the payload met the buffer: inside with room to spare, filling it exactly, written outside
                    bp = W.field(st, "bufpos") if st else None
                    ctx.hist("writer-raw-payload-" + ("outside" if effs.count("W:") >= 1 and bp == "0" else "fills-buffer" if bp == W.field(recl, "bufsz") else "inside"))
                if "W:" in effs and effs.count("W:") >= 2 and op.startswith("write"):
                    ctx.hist("writer-payload-outside-segment")
                me_, ms = o.split(" | ") if " | " in o else (o, "")
                bad = me_ != effs
                if st and not st.startswith("st closed"):
                    bad = bad or any(W.field(st, k) != W.field(ms, k) for k in ("bufpos", "synched", "mbytes", "wsz"))
                if t1:
                    bad = bad or W.field(t1, "msz") != W.field(ms, "msz")
                if bad:
                    diverge("step `%s`: impl `%s | %s | %s` model `%s`" % (op[:80], effs, st, t1, o))
                if W.field(ms, "valid") != "1":
                    diverge("listener event `%s` violates the hypothesis Valid of the writer theorems" % op[:80])
                else:
                    ctx.hist("writer-event-satisfies-Valid")
            elif wh[0] == "main":
                t1 = wh[1][3]
                ctx.hist("writer-main-after-checkpoint-compared")
                if "main=%s:%s " % (W.field(t1, "msz"), W.field(t1, "mh")) not in o + " ":
                    diverge("main file after the checkpoint of `%s`: impl `%s` model `%s`" % (wh[1][0][:60], t1, o))
            elif wh[0] == "dump":
                k, part = wh[1], wh[2]
                real = open(snaps[k][1] if part == "log" else snaps[k][2], "rb").read()
                model = open(os.path.join(wd, "%s.m%d.%s" % (tag, k, part)), "rb").read()
                ctx.hist("writer-%s-bytes-compared" % part, len(real))
                if real != model:
                    first = next((i for i in range(min(len(real), len(model))) if real[i] != model[i]), min(len(real), len(model)))
                    diverge("%s at snapshot %d differs: %d vs %d bytes, first difference at %d" % (part, k, len(real), len(model), first))
            elif wh[0] == "recover":
                if raw:
                    continue
                ctx.hist("writer-kill-recover-compared")
                if ro[wh[1]] != o:
                    diverge("recovery after a kill at snapshot %d: impl `%s` model `%s`" % (wh[1], ro[wh[1]], o))
        ctx.sample(dict(writer_history_head=ops[:7], steps=len(conv), snapshots=len(snaps), crc=crc, bufsz=buf))


def run(ctx):
    ctx.cov["rule"] = ("each history (random put/del/sync/new-db/checkpoint, value sizes 1..40000, 1-4 databases, with and without file growth "
                       "inside operations) is re-run once per crash point k and killed by _exit immediately before its k-th file-system effect "
                       "(all k in quick tier for short histories); a sample is killed a second time inside the recovery; distinct = (history, k)")
    ctx.assumptions += ["process death: effects handed to the kernel survive, user-space buffers and the MAP_PRIVATE overlay are lost (power loss is C05)",
                        "checkpoint thread idle (timeouts 10^6 s): savepoints and checkpoints only by iwkv_sync, database creation, iwal_test_checkpoint, close, growth",
                        "skip-list levels fixed by random_seed so that every re-run of a history performs the same effects"]
    ctx.translate()
    ok, drv_ok = ctx.prove(MODULE, THEOREMS)
    h = build(ctx)
    drv = C.drv_path() if drv_ok else None
    if ctx.tier == "quick":
        explore(ctx, h, drv, "main", 12, 14, 1, 12)
        writer_tie(ctx, drv, "main", 5, 50)
    else:
        explore(ctx, h, drv, "main", 24, 30, 1, 60)
        explore(ctx, h, drv, "long", 6, 100, 9, 30)
        writer_tie(ctx, drv, "main", 24, 120)
    if (ctx.proof_broken or ctx.corr_broken) and not ctx.violations:
        ctx.log("obligation or correspondence broken: widening the search for a failing input")
        explore(ctx, h, None, "search", 12, 30, 1, 20)


def replay(ctx, obj):
    h = build(ctx)
    rp = obj["replay"]
    rc, o, e = C.run_lines([h], rp["lines"] + [rp["op"]], timeout=300)
    print("\n".join(o[-3:]))
    print(e[-2000:])
    ctx.case("replay")
    ctx.case("replay2")
