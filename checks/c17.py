"""C17: text-consuming functions are memory-safe on any input and depend only on it."""
import binascii, json, re, struct
from vlib import common as C
from vlib.diff import Case, differential, run_batch, san_site

LEVEL = "proof"
MODELLED_FUNCS = {'src/json/iwjser.c': ['_jbl_unescape_json_string', '_jbl_parse_json_key'], 'src/json/iwjson.c': ['_jbl_ptr_pool', 'iwjson_ftoa'], 'src/utils/iwconv.c': ['iwitoa', 'iwatoi2', 'iwafcmp', 'iwhex2bin'], 'src/re/vm.c': ['vm_add_thread', 'vm_run_with_threads'], 'src/re/parse.c': ['push', 'consume', 'concatenate', 'parse_char_class', 'parse_interval', 'parse_context', 'estimate_nodes', 'parse_with_nodes', 'cregex_parse'], 'src/re/compile.c': ['count_instructions', 'node_is_anchored', 'compile_char_class', 'compile_context', 'compile_node_with_program', 'estimate_instructions', 'cregex_compile_node'], 'src/re/iwre.c': ['iwre_create'], 'src/utils/iwini.c': ['rstrip', 'lskip', 'find_chars_or_comment', 'strncpy0', 'iwini_parse_stream', 'ini_reader_string', 'iwini_parse_string'], 'src/utils/iwutils.c': ['iwu_replace']}
MANIFEST = dict(
    level="proof",
    text=("PARTIAL. Proved (Lean 4, all inputs): bounds-instrumented executable models of _jbl_unescape_json_string (both passes), "
          "_jbl_parse_json_key, _jbl_ptr_pool, iwjson_ftoa, iwitoa, iwatoi2, iwafcmp, iwhex2bin, of the regular-expression parser and compiler "
          "(parse.c, compile.c, the guard of iwre_create) and of the regular-expression VM (vm_add_thread / vm_run_with_threads) never touch a cell "
          "outside the buffers/arrays they are given and terminate (the models answer `oob` on any out-of-range access; theorems say `oob` is "
          "unreachable: for every NUL-terminated byte string, resp. every pattern and every text). Regex front end: for every non-empty pattern the "
          "parser never reads behind the terminator, never exhausts its node buffer of 2*strlen cells and nests parse_context at most strlen+2 deep "
          "(reparse_safe); the compiler emits exactly count_instructions instructions, every jump/split target inside the program, 256-bit class "
          "tables, a final MATCH (recompile_program_wf); parse -> compile -> run ends with a match result or a refused pattern for every pattern "
          "within the stated size limits (digit runs <= 9, 2*(tree weight+6) <= INT_MAX) and otherwise at worst at one of the `int` overflows of the "
          "open findings (compiled_program_safe, compiled_program_safe_within_limits) - the well-formedness hypothesis of revm_safe is discharged; "
          "the fill pass of the unescaper stores exactly the bytes the length pass announced; every jp->n[] slot of a parsed "
          "pointer is assigned; determinism holds by construction of the models (pure functions) and the tie shows the real functions agree "
          "with them after an adversarial history (stale errno, recycled junk heap). The models are tied to the code by a differential run "
          "of the real (incl. file-static) functions on exact-size heap buffers under ASan/UBSan against the compiled Lean definitions (regex: "
          "same pattern -> same tree dump, same program listing, same match result and captures; VM additionally on well-formed damaged programs); "
          "escape table, struct sizes and buffer sizes are regenerated from the source. EXPLORATION ONLY (no model, no theorem): the full JSON/JS "
          "parser, patch / merge-patch decoding, jbn_at, the ini parser, iwu_replace, iwpool_split_string, iwxstr_printf/iwpool_printf, "
          "iwstrtod and the iw_strto* wrappers are driven with structured + mutated + truncated inputs under ASan/UBSan with a watchdog; every "
          "input is run after an adversarial history and again in another order without it (a sample also in a fresh process) and the "
          "canonical outputs must be equal"),
    note=("trusted: Lean kernel, translator, harness/generator, gcc+ASan/UBSan, libc snprintf/strtoll; modelled not verified: the C control flow of "
          "the functions named; not proved: everything listed under EXPLORATION ONLY; lengths are assumed to fit `int` (< 2^31); allocation failure "
          "(malloc returning NULL for a huge program) is not modelled; the machine stack is not modelled: the theorems bound the recursion depth "
          "(parser strlen+2, compiler = tree height <= 2*strlen+3, VM ninstructions+1), whether that fits the stack is finding C17-RE-DEPTH; "
          "null-pointer arithmetic in the length pass (d = NULL; ++d) is not flagged by gcc's sanitizers and is not modelled; three regex "
          "defects stay open (unbounded repetition counts in parser and compiler: the model answers `ub` there, unbounded recursion depth) and are "
          "reported as KNOWN-FINDING; the tree modelled is /repo plus the fix commits of branch fix-txt17"),
    technique="Lean 4 proof over bounds-instrumented executable models + differential correspondence; sanitizer/watchdog/history-independence exploration for the unmodelled rest")
MODULE = "IwModel.Props.C17"
THEOREMS = [
    "IwModel.C17.unescape_safe", "IwModel.C17.unescape_two_pass", "IwModel.C17.unescape_shape_indep", "IwModel.C17.unescape_stores_within",
    "IwModel.C17.unescape_cstring_safe", "IwModel.C17.parse_key_safe", "IwModel.C17.ptr_parse_safe", "IwModel.C17.ptr_parse_cstring_safe",
    "IwModel.C17.ptr_all_slots_assigned", "IwModel.C17.itoa_safe", "IwModel.C17.ftoa_safe", "IwModel.C17.ftoa_old_overrun", "IwModel.C17.atoi2_safe",
    "IwModel.C17.afcmp_safe", "IwModel.C17.hex2bin_safe", "IwModel.C17.revm_safe", "IwModel.C17.gen_side_conditions",
    "IwModel.C17.reparse_safe", "IwModel.C17.reparse_empty_pattern_overruns", "IwModel.C17.recompile_program_wf", "IwModel.C17.compiled_program_safe",
    "IwModel.C17.compiled_program_safe_within_limits", "IwModel.C17.reparse_tree_bounded", "IwModel.C17.refront_overflow_witnesses",
    "IwModel.C17.ini_sizes_ok", "IwModel.C17.ini_stream_spec", "IwModel.C17.ini_stream_safe", "IwModel.C17.ini_string_spec", "IwModel.C17.ini_string_safe",
    "IwModel.C17.ini_string_junk_indep", "IwModel.C17.ini_wellformed_lines", "IwModel.C17.replace_safe", "IwModel.C17.replace_eq_reference",
]

H = lambda b: binascii.hexlify(bytes(b)).decode() or "-"
U = lambda s: bytes.fromhex(s) if s != "-" else b""

INTERESTING = [0, 1, 8, 9, 10, 13, 31, 32, 34, 39, 44, 47, 48, 49, 58, 91, 92, 93, 117, 123, 125, 126, 127, 128, 0xC3, 0xE2, 0xF0, 0xFF]


def mutate(r, b, n=None):
    """byte-level damage: truncation, flips, insertions of bytes the parsers branch on, slice duplication"""
    b = bytearray(b)
    for _ in range(n if n is not None else r.choice([1, 1, 1, 2, 3])):
        k = r.randrange(6)
        pos = r.randrange(len(b) + 1)
        if k == 0:
            b = b[:pos]
        elif k == 1 and b:
            b[min(pos, len(b) - 1)] = r.choice(INTERESTING)
        elif k == 2:
            b[pos:pos] = bytes([r.choice(INTERESTING)])
        elif k == 3 and b:
            del b[min(pos, len(b) - 1)]
        elif k == 4 and b:
            a = r.randrange(len(b))
            b[pos:pos] = b[a:a + r.randrange(1, 9)]
        else:
            b[pos:pos] = r.choice([b"\\", b"\\u", b"\\u12", b"\\ud83d", b"\\ud83d\\u", b"~", b"~2", b"\"", b"\\\"", b"/", b"\x00"])
    return bytes(b)


# ================================================================ modelled functions

ESC = {0x22: b'\\"', 0x5c: b"\\\\", 0x2f: b"\\/", 8: b"\\b", 12: b"\\f", 10: b"\\n", 9: b"\\t", 13: b"\\r"}


def gen_string_body(r, q=34, valid=True, maxlen=24):
    """JSON string body (without quotes) as (text, expected bytes | None, uses_cr)"""
    text, exp, cr = bytearray(), bytearray(), False
    for _ in range(r.randrange(0, maxlen)):
        k = r.randrange(10)
        if k < 3:
            c = r.choice(b"abcXYZ 019_-~:,{}[]")
            text.append(c); exp.append(c)
        elif k == 3:
            cp = r.choice([0xe9, 0x20ac, 0x1f600, 0x7ff, 0x800, 0xffff, 0x10000, 0x10ffff, r.randrange(0x80, 0xd800)])
            u = chr(cp).encode("utf-8", "surrogatepass")
            text += u; exp += u
        elif k == 4:
            c = r.choice(list(ESC))
            if c == 13:
                cr = True
            text += ESC[c]; exp.append(c)
        elif k == 5:
            cp = r.choice([0, 1, 0x1f, 0x22, 0x5c, 0x7f, 0x80, 0x7ff, 0x800, 0xd7ff, 0xe000, 0xfffe, 0xffff, r.randrange(0, 0xd800)])
            hx = "%04x" % cp
            text += b"\\u" + (hx.upper() if r.random() < 0.4 else hx).encode()
            exp += chr(cp).encode("utf-8")
        elif k == 6:
            cp = r.choice([0x10000, 0x10ffff, 0x1f600, r.randrange(0x10000, 0x110000)])
            v = cp - 0x10000
            text += b"\\u%04x\\u%04X" % (0xd800 + (v >> 10), 0xdc00 + (v & 0x3ff))
            exp += chr(cp).encode("utf-8")
        elif k == 7:
            c = r.choice(b"qxz'1 ")          # backslash before a non-escape: kept, the byte is read again
            if c == q:
                c = ord("x")
            text += b"\\" + bytes([c]); exp += b"\\" + bytes([c])
        elif k == 8:
            c = r.choice([1, 7, 0x1f, 0x7f, 0x80, 0xff, 39 if q == 34 else 34])   # raw control / high bytes / the other quote
            text.append(c); exp.append(c)
        else:
            s = bytes(r.choice(b"abcdefgh") for _ in range(r.randrange(1, 12)))
            text += s; exp += s
    return bytes(text), bytes(exp), cr


def cr_variants(exp):
    return {exp, exp.replace(b"\r", b"\n")} if b"\r" in exp else {exp}


def case_unesc(r):
    q = r.choice([34, 34, 34, 39])
    text, exp, cr = gen_string_body(r, q, maxlen=r.choice([4, 12, 30]))
    tail = r.choice([b"", b"", b" : 1", b"x", b"\\", b"\"", b"\\u12"])
    full = text + bytes([q]) + tail
    valid = True
    if r.random() < 0.45:
        full = mutate(r, full)
        valid = False

    def oracle(out, exp=exp, valid=valid, text=text, full=full):
        w = out[0]
        if w.startswith("unesc err="):
            return "valid string %r rejected: %s" % (full, w) if valid else None
        m = re.fullmatch(r"unesc len=(\d+) end=(-?\d+) len2=(\d+) end2=(-?\d+) rc2=(\S+) out=(\S+) guard=(\w+)", w)
        if not m:
            return "unreadable output %r" % w
        ln, end, ln2, end2, rc2, o, guard = m.groups()
        if guard != "aa":
            return "fill pass stored behind the %s byte buffer it was given (input %r)" % (ln, full)
        if ln != ln2 or end != end2 or rc2 != "ok":
            return "length pass (%s,%s) and fill pass (%s,%s,%s) disagree on %r" % (ln, end, ln2, end2, rc2, full)
        if valid and (U(o) not in cr_variants(exp) or int(end) != len(text) + 1):
            return "unescape of %r gave %s end=%s, expected %s end=%d" % (full, o, end, exp.hex(), len(text) + 1)
        return None
    return Case("unesc" + ("" if valid else "-damaged"), ["unesc %d %s" % (q, H(full))], oracle)


def case_key(r):
    text, exp, cr = gen_string_body(r, 34, maxlen=10)
    lead = bytes(r.choice(b" \t\n\r,,\x01\x1f") for _ in range(r.randrange(0, 4)))
    mid = bytes(r.choice(b" \t\n\r\x0b") for _ in range(r.randrange(0, 3)))
    k = r.randrange(10)
    valid = True
    if k < 6:
        full = lead + b'"' + text + b'"' + mid + b":" + r.choice([b"1", b" 2", b""])
        want = ("key", len(lead) + len(text) + 2 + len(mid) + 1, exp)
    elif k == 6:
        full = lead + b"}" + mid
        want = ("close", len(lead), None)
    else:
        full = mutate(r, lead + b'"' + text + b'"' + mid + r.choice([b":", b"", b"=", b"}"]) + b"1")
        valid = False
        want = None

    def oracle(out, want=want, full=full, valid=valid):
        w = out[0]
        if not valid:
            return None if re.fullmatch(r"key (err=\S+|ret=\d+ key=(none|s\S+))", w) else "unreadable output %r" % w
        if w.startswith("key err="):
            return "valid key text %r rejected: %s" % (full, w)
        m = re.fullmatch(r"key ret=(\d+) key=(none|s\S+)", w)
        if not m:
            return "unreadable output %r" % w
        if want[0] == "close":
            return None if (int(m.group(1)) == want[1] and m.group(2) == "none") else "'}' handling: %s on %r" % (w, full)
        got = U(m.group(2)[1:])
        exps = {e.split(b"\0")[0] for e in cr_variants(want[2])}     # keys are C strings: cut at an embedded U+0000 (finding F9, C13)
        if int(m.group(1)) != want[1] or got not in exps:
            return "key of %r: %s, expected ret=%d key=%s" % (full, w, want[1], want[2].hex())
        return None
    return Case("key" + ("" if valid else "-damaged"), ["key " + H(full)], oracle)


def ptr_ref(p):
    """RFC 6901 (+ the implementation's rule that a trailing '/' is refused); None = must be rejected"""
    if p == b"":
        return []
    if p[:1] != b"/" or b"\0" in p:
        return None
    if len(p) > 1 and p.endswith(b"/"):
        return None
    if re.search(rb"~(?![01])", p):
        return None
    return [s.replace(b"~1", b"/").replace(b"~0", b"~") for s in p[1:].split(b"/")]


def case_ptr(r):
    segs = []
    for _ in range(r.randrange(0, 6)):
        s = bytearray()
        for _ in range(r.randrange(0, 6)):
            s += r.choice([b"a", b"b", b"0", b"12", b"-", b"*", b"~0", b"~1", b"~0~1", b"~01", b" ", b"\xc3\xa9", b"\x01", b"\xff", b"key"])
        segs.append(bytes(s))
    p = b"".join(b"/" + s for s in segs)
    k = r.randrange(10)
    if k == 0:
        p = p + b"/"
    elif k == 1:
        p = p[1:]
    elif k in (2, 3):
        p = mutate(r, p + r.choice([b"", b"~", b"~2", b"/~", b"~/x"]))
    elif k == 4:
        p = p + r.choice([b"~", b"/a~", b"/~/b", b"/a~2b", b"~~", b"/~\x00"])
    exp = ptr_ref(p.split(b"\0")[0])

    def oracle(out, p=p, exp=exp):
        w = out[0].split()
        if w[1].startswith("err="):
            return None if exp is None else "valid pointer %r rejected (%s)" % (p, out[0])
        if exp is None:
            return "malformed pointer %r accepted: %s" % (p, out[0])
        got = [U(x) for x in w[2:]]
        if w[1] != "cnt=%d" % len(exp) or got != exp:
            return "pointer %r parsed as %s, RFC 6901 gives %s" % (p, out[0], [e.hex() for e in exp])
        return None
    return Case("ptr" + ("" if exp is not None else "-malformed"), ["ptr " + H(p)], oracle)


def gen_double(r):
    k = r.randrange(12)
    if k == 0:
        return struct.unpack(">d", struct.pack(">Q", r.getrandbits(64)))[0]
    if k == 1:
        return r.choice([0.0, -0.0, 1.0, -1.0, 0.5, 0.1, 1e-8, 5e-9, 4.9e-9, 1.5e-8, 2.5e-8, 5e-324, float("inf"), float("-inf"), float("nan")])
    if k in (2, 3):
        e = r.choice([20, 21, 22, 22, 23, 23, 24, 25, 30, 31, 32, 100, 308])
        return r.choice([1, -1]) * r.choice([1.0, 9.999999999, 1.5, r.random() * 10]) * 10.0 ** e
    if k == 4:
        return r.choice([1, -1]) * float(10 ** r.randrange(0, 23) + r.choice([-1, 0, 1]))
    if k == 5:
        return r.choice([1, -1]) * r.randrange(0, 10 ** 9) / 10 ** r.randrange(0, 10)
    if k == 6:
        return r.choice([1, -1]) * (r.randrange(1, 1000) + r.choice([0.5, 0.25, 0.125, 0.00000001, 0.99999999, 0.999999995]))
    if k == 7:
        return r.choice([1.7976931348623157e308, -1.7976931348623157e308, 2.2250738585072014e-308, 9007199254740993.0, 1e15, 123456789012345680000.0])
    return r.choice([1, -1]) * r.random() * 10.0 ** r.randrange(-12, 26)


def ftoa_ref(x):
    t8 = "%.8f" % x
    if len(t8) >= 32:
        t = "%.17g" % x
        return t if len(t) < 32 else ""
    if "." in t8:
        t8 = t8.rstrip("0")
        if t8.endswith("."):
            t8 = t8[:-1]
    return t8


def case_ftoa(r):
    x = gen_double(r)
    bits = struct.unpack(">Q", struct.pack(">d", x))[0]
    t8, t17 = ("%.8f" % x), ("%.17g" % x)
    if x != x:
        t8 = t17 = ("-nan" if bits >> 63 else "nan")
    exp = ftoa_ref(x) if x == x else t8

    def oracle(out, x=x, exp=exp, bits=bits):
        w = out[0].split()
        got = U(w[2]).decode("latin1")
        if int(w[1]) != len(got):
            return "iwjson_ftoa(%r): out_len %s but the buffer holds %d bytes (%r)" % (x, w[1], len(got), got)
        if got != exp:
            return "iwjson_ftoa(%r) = %r, expected %r" % (x, got, exp)
        return None
    return Case("ftoa" + ("-exp" if len(t8) >= 32 else ""), ["ftoa %016x %s %s" % (bits, H(t8.encode()), H(t17.encode()))], oracle, key=("ftoa", bits))


def boundary_i64(r):
    k = r.randrange(0, 64)
    v = r.choice([0, 1, 9, 10, 99, 100, (1 << k) - 1, 1 << k, 10 ** r.randrange(0, 19), 10 ** r.randrange(1, 19) - 1, (1 << 63) - 1, r.randrange(0, 1 << 63)])
    v = min(v, (1 << 63) - 1)
    return -v if r.random() < 0.5 else v


def case_itoa(r):
    v = boundary_i64(r) if r.random() > 0.03 else -(1 << 63)
    s = str(v)
    mx = r.choice([32, 21, len(s) + 1, len(s) + 2, len(s), max(0, len(s) - 1), r.randrange(0, 24), r.randrange(0, 4)])

    def oracle(out, v=v, s=s, mx=mx):
        w = out[0].split()
        mem = bytes.fromhex(w[2])
        if mem[:8] != b"\xaa" * 8 or mem[8 + mx:] != b"\xaa" * 8:
            return "iwitoa(%d, buf, %d) stored outside buf[0..%d)" % (v, mx, mx)
        if mx > len(s) and mem[8:8 + mx].split(b"\0")[0].decode("latin1") != s:
            return "iwitoa(%d, buf, %d) gave %r" % (v, mx, mem[8:8 + mx])
        if int(out[1].split()[1]) != v:
            return "iwatoi(%r) = %s" % (s, out[1])
        return None
    return Case("itoa", ["itoa %d %d" % (v, mx), "atoi " + H(s.encode())], oracle, key=("itoa", v, mx))


def wrap64(i):
    return (i + (1 << 63)) % (1 << 64) - (1 << 63)


def atoi_ref(s):
    i = 0
    while i < len(s) and 0 < s[i] <= 32:
        i += 1
    s = s[i:]
    sign = 1
    if s[:1] == b"-":
        sign, s = -1, s[1:]
    elif s[:1] == b"+":
        s = s[1:]
    if s == b"inf":
        return sign * ((1 << 63) - 1)
    n = 0
    for c in s:
        if not 48 <= c <= 57:
            break
        n = n * 10 + c - 48
    return wrap64(sign * (n % (1 << 64)))


def atoi2_ref(s):
    """iwatoi2(s, len(s)) as documented: blanks, sign, "inf" (exactly three bytes left), digits in uint64 arithmetic"""
    i, n = 0, len(s)
    while i < n and 0 < s[i] <= 32:
        i += 1
    if i == n:
        return 0
    sign = 1
    if s[i] == 45:
        sign, i = -1, i + 1
    elif s[i] == 43:
        i += 1
    if n - i == 3 and s[i:] == b"inf":
        return sign * ((1 << 63) - 1)
    num = 0
    while i < n and 48 <= s[i] <= 57:
        num = (num * 10 + s[i] - 48) % (1 << 64)
        i += 1
    return wrap64(sign * num)


def case_atoi2(r):
    s = r.choice([b"", b"", b" ", b"  \t", b"\n", b"\x01\x20"]) + r.choice([b"", b"", b"-", b"+", b"--", b"-+"])
    s += r.choice([b"", b"", b"inf", b"in", b"i", b"infx", b"0", b"00", b"inf\x00"])
    s += bytes(r.choice(b"0123456789") for _ in range(r.choice([0, 1, 3, 9, 17, 18, 19, 20, 25])))
    s += r.choice([b"", b"", b"x", b".5", b" 1", b"e3", b"\x00" + b"7", b"\xff", b"i", b"in", b"inf"])
    if r.random() < 0.2:
        s = mutate(r, s)
    exp = atoi2_ref(s)

    def oracle(out, s=s, exp=exp):
        w = out[0].split()
        if w[1] == "oob":
            return "model reports an out-of-range read for %r" % s
        return None if int(w[1]) == exp else "iwatoi2(%r, %d) = %s, expected %d" % (s, len(s), w[1], exp)
    return Case("atoi2", ["atoi2 " + H(s)], oracle)


def gen_real_text(r):
    s = r.choice([b"", b"", b" ", b"  ", b"\x7f", b"\t"]) + r.choice([b"", b"", b"-", b"--"])
    s += r.choice([b"", b"0", b"00", b"7", b"%d" % r.randrange(0, 1000), b"%d" % r.randrange(0, 10 ** r.randrange(1, 18)),
                   bytes(r.choice(b"0123456789") for _ in range(r.choice([19, 20, 21, 30])))])
    if r.random() < 0.6:
        s += b"." + bytes(r.choice(b"0123456789") for _ in range(r.randrange(0, 15)))
    s += r.choice([b"", b"", b"", b"x", b" ", b"0", b".", b"\x00", b"\x00a", b"\xff"])
    return s


def case_afcmp(r):
    a, b = gen_real_text(r), gen_real_text(r)
    k = r.randrange(6)
    if k == 0:
        b = a
    elif k == 1:
        b = a + r.choice([b"0", b" ", b".0", b".", b"\x00"])
    elif k == 2:
        b = mutate(r, a, 1)
    ops = ["afcmp %s %s" % (H(a), H(b)), "afcmp %s %s" % (H(b), H(a))]

    def oracle(out, a=a, b=b):
        x, y = out[0].split()[1], out[1].split()[1]
        if "oob" in (x, y):
            return "model reports an out-of-range read for %r / %r" % (a, b)
        if int(x) != -int(y):
            return "iwafcmp not antisymmetric on %r, %r: %s / %s" % (a, b, x, y)
        if (int(x) == 0) != (a == b):
            return "iwafcmp(%r, %r) = %s" % (a, b, x)
        return None
    return Case("afcmp", ops, oracle)


def case_hex(r):
    b = bytes(r.randrange(256) for _ in range(r.choice([0, 1, 2, 7, 16, 40])))
    hx = binascii.hexlify(b)
    if r.random() < 0.3:
        hx = hx.upper()
    mx = r.choice([len(b), len(b) + 1, len(b) + 5, max(0, len(b) - 1), 1, 0])
    hm = r.choice([len(b) * 2 + 1, len(b) * 2 + 1, len(b) * 2, len(b) * 2 + 9, 0, 1])
    junk = bytes(r.choice(b"0123456789abcdefABCDEFgz /\x00\xff") for _ in range(r.randrange(0, 12)))
    jm = r.randrange(0, 8)
    ops = ["bin2hex %s %d" % (H(b), hm), "hex2bin %s %d" % (H(hx), mx), "hex2bin %s %d" % (H(junk), jm)]

    def oracle(out, b=b, mx=mx, hm=hm, junk=junk, jm=jm):
        w = out[0].split()
        if hm > 2 * len(b):
            if w[1] != H(binascii.hexlify(b)):
                return "iwbin2hex(%s) = %s" % (b.hex(), out[0])
        elif w[1] != "null":
            return "iwbin2hex into %d bytes for %d input bytes did not fail: %s" % (hm, len(b), out[0])
        w = out[1].split()
        n = min(len(b), mx) if mx > 0 else 0
        if int(w[1]) != n or U(w[2]) != b[:n]:
            return "iwhex2bin(hex(%s), max=%d) = %s" % (b.hex(), mx, out[1])
        w = out[2].split()
        if int(w[1]) > max(jm, 0):
            return "iwhex2bin(%r, max=%d) reports %s bytes" % (junk, jm, w[1])
        return None
    return Case("hex", ops, oracle)


# ---------------------------------------------------------------- regex front end (modelled): parser + compiler

def gen_front_regex(r, depth=0):
    """pattern text aimed at the branches of parse.c / compile.c: every interval spelling (valid and not), classes with `]` first,
    `^]`, escaped members, ranges with escaped end points, `-` in front of `]`, quantifiers where nothing can be quantified (start of
    a group / branch), empty alternatives, nesting, anchors in odd places, lazy marks, stacked quantifiers, high bytes"""
    parts = []
    for _ in range(r.choice([1, 1, 2, 2, 3, 4, 6])):
        k = r.randrange(16 if depth < 4 else 9)
        if k < 3:
            a = bytes([r.choice(b"abcxyz019 _-,}]")])
        elif k == 3:
            a = r.choice([b".", b"^", b"$", b"\\.", b"\\\\", b"\\(", b"\\)", b"\\[", b"\\{", b"\\|", b"\\*", b"\\a", b"\\]", bytes([r.choice([0x80, 0xc3, 0xe9, 0xff, 0x01, 0x7f])])])
        elif k in (4, 5, 6):
            items = []
            for _ in range(r.randrange(0, 4)):
                t = r.randrange(9)
                if t == 0:
                    lo = r.choice(b"a0A\x80\x01")
                    items.append(bytes([lo]) + b"-" + bytes([min(255, lo + r.randrange(0, 40))]))
                elif t == 1:
                    items.append(b"\\" + bytes([r.choice(b"]\\-^a")]))
                elif t == 2:
                    items.append(bytes([r.choice([0x80, 0xc3, 0xff, 0x7f, 1])]))
                elif t == 3:
                    items.append(b"\\" + bytes([r.choice(b"a]")]) + b"-" + bytes([r.choice(b"z~\xff")]))     # escaped lower end
                elif t == 4:
                    items.append(r.choice([b"a-", b"-", b"--", b"a-\\", b"^", b"[", b"a-a", b"b-a", b"\xff-\x80", b"]-a", b"!-]"]))
                else:
                    items.append(bytes([r.choice(b"abcxyz019_ .-")]))
            a = b"[" + (b"^" if r.random() < 0.3 else b"") + (b"]" if r.random() < 0.15 else b"") + b"".join(items) + (b"]" if r.random() < 0.93 else b"")
        elif k == 7:
            a = r.choice([b"|", b"||", b"()", b"(|)", b"(", b")", b"(*a)", b"|+", b"(?)", b"({1})", b"^*", b"$+", b"(^a|b$)"])
        elif k in (8, 9, 10, 11):
            a = b"(" + gen_front_regex(r, depth + 1) + b")"
        elif k in (12, 13):
            a = gen_front_regex(r, depth + 1) + b"|" + gen_front_regex(r, depth + 1)
        else:
            a = b"(" * r.randrange(1, 9) + bytes([r.choice(b"ab.")]) + b")" * r.randrange(1, 9)
        q = r.randrange(10)
        if q < 5:
            n1, n2 = r.choice([0, 0, 1, 1, 2, 3, 7, 12]), r.choice([0, 1, 2, 3, 5, 9])
            a += r.choice([b"?", b"*", b"+", b"{%d}" % n1, b"{%d,}" % n1, b"{,%d}" % n2, b"{%d,%d}" % (n1, n1 + n2), b"{%d,%d}" % (n1 + 1, n1), b"{", b"{}",
                           b"{%d" % n1, b"{%d,%d" % (n1, n2), b"{a}", b"{,}", b"{ 1}", b"{1 }", b"{1,2,3}", b"{-1}", b"{01}", b"{00,002}", b"{1}{2}", b"*+", b"+*", b"??"])
            if r.random() < 0.3:
                a += b"?"
        parts.append(a)
    return b"".join(parts)


def front_cost(p):
    """rough upper estimate of the program size for a pattern text (product of all numbers in braces): patterns beyond the budget are
    left to the fixed witnesses (the model has no allocation failure, the harness would need gigabytes)"""
    cost = len(p) * 2 + 8
    for m in re.finditer(rb"\d+", p):
        if len(m.group()) >= 10:          # may leave `int` in parse_interval: open finding C17-RE-COUNT-PARSE, fixed witness only
            return 10 ** 13
        cost *= min(int(m.group()), 10 ** 9) + 2
        if cost > 10 ** 12:
            break
    return cost


def tree_count(toks):
    """count_instructions over the prefix-notation dump printed by `reparse`; returns (count, anchored, rest)"""
    t, rest = toks[0], toks[1:]
    c = t[0]
    if c == "E":
        return 0, False, rest
    if c in "CAKNZ":
        return 1, False, rest
    if c == "B":
        return 1, True, rest
    if c in ".|":
        a, aa, rest = tree_count(rest)
        b, ba, rest = tree_count(rest)
        return (a + b, aa, rest) if c == "." else (2 + a + b, aa and ba, rest)
    if c == "P":
        a, aa, rest = tree_count(rest)
        return 2 + a, aa, rest
    if c == "Q":
        nmin, nmax, _ = [int(x) for x in t[1:].split(",")]
        a, aa, rest = tree_count(rest)
        if nmax >= nmin:
            return nmin * a + (nmax - nmin) * (a + 1), aa, rest
        return 1 + (nmin * a if nmin else a + 1), aa, rest
    raise ValueError("token " + t)


def case_front(r):
    k = r.randrange(20)
    simple = vetted = False
    if k < 9:
        p = gen_front_regex(r)
    elif k < 12:
        p = gen_regex(r)
    elif k < 15:
        p, simple = gen_simple_regex(r)[0], True
    elif k == 15:
        vetted = True
        p = r.choice([b"a", b"^a", b"a$", b"^$", b"(a|b)*c", b"(a?){3}b", b"a{0}", b"a{0}+", b"a{0}*", b"(a*)*", b"(|a)+", b"[\x80-\xff]+", b"\xff", b"(((a)))", b"a|", b"|a",
                      b"()", b"|", b"||", b"a||", b"(|)", b"(a)(b)(c)(d)(e)(f)(g)(h)", b".*", b".*?x", b"[^x]$", b"x*$", b"(a+)+b", b"[]]", b"[^]]", b"[]-a]", b"[a-]",
                      b"[\\]-a]", b"a{,3}", b"a{3,1}", b"a{2,}?b", b"x{1,2}{2}", b"a{2147483647", b"a{2147483647,", b"a{21}", b"(a{12}){12}", b"((((((((a))))))))",
                      b"a{100}", b"(ab|c){0,40}", b"[a-z]{30}", b"a" * 300, b"(" * 40 + b"a" + b")" * 40, b"a|" * 60 + b"b", b"\\", b"[", b"[a", b"[\\", b"(a", b"a)"])
    else:
        p = gen_front_regex(r)
    if k >= 16 or (r.random() < 0.15 and not vetted):
        p = bytes(mutate(r, p))
        simple = False
    p = bytes(p)
    if not vetted and (len(p) > 400 or front_cost(p) > 30000):
        p = p[:12]
        if front_cost(p) > 30000:
            p = b"a{2,3}"
        simple = False
    nul = p.find(b"\0")
    eff = p if nul < 0 else p[:nul]          # what the C functions see
    txt = bytes(r.choice(b"abc") for _ in range(r.choice([0, 1, 2, 4, 8, 16]))) if simple or r.random() < 0.5 else \
        bytes(r.choice(b"abcxyz01 _-.,}]\x80\xc3\xe9\xff\x01") for _ in range(r.choice([0, 1, 3, 8, 20])))
    nm = r.choice([0, 2, 2, 4, 6, 16, 20, 3])
    ops = ["reparse " + H(p), "recomp " + H(p), "research %d %s %s" % (nm, H(p), H(txt))]
    try:
        ref = re.compile(p, re.S) if simple else None
    except re.error:
        ref = None

    def oracle(out, p=p, eff=eff, txt=txt, nm=nm, ref=ref):
        w0, w1, w2 = out[0].split(), out[1].split(), out[2].split()
        if w0[1] in ("ub", "oob", "fuel") or w1[1] in ("ub", "oob", "fuel") or w2[1] in ("ub", "oob", "fuel"):
            return "model reports %s / %s / %s for pattern %r" % (w0[1], w1[1], w2[1], p)
        if (w0[1] == "fail") != (w1[1] == "fail") or (w0[1] == "fail") != (w2[1] == "fail"):
            return "parser and compiler disagree on accepting %r: %s / %s / %s" % (p, out[0][:60], out[1][:60], out[2][:60])
        if w0[1] == "fail":
            return None
        size, toks = int(w0[2]), w0[3:]
        if size > 2 * len(eff):
            return "tree of %d nodes for a pattern of %d bytes: the node buffer has %d cells (%r)" % (size, len(eff), 2 * len(eff), p)
        for t in toks:
            if t[0] in "KN":
                a, b = [int(x) for x in t[1:].split(":")]
                if not (0 < a <= b < len(eff)) or eff[b:b + 1] != b"]":
                    return "class node %s points outside the class text of %r" % (t, p)
            if t[0] == "C" and not 0 < int(t[1:]) < 256:
                return "character node %s in the tree of %r" % (t, p)
        n, prog = int(w1[1]), w1[2:]
        if len(toks) == size and size < 3000:
            cnt, anch, rest = tree_count(toks)
            if rest:
                return "tree dump of %r has trailing tokens" % p
            if n != cnt + (0 if anch else 3) + 3:
                return "program of %d instructions for a tree that counts %d (+%d): estimate_instructions is not what compile_context emits (%r)" % (n, cnt, (0 if anch else 3) + 3, p)
        if len(prog) == n:
            if not prog_wf(prog) or prog[-1] != "M":
                return "the compiler emitted a program that is not well-formed (jump target / successor outside the program, NUL character instruction, no final MATCH) for %r: %s" % (p, out[1][:300])
            if any(t[0] in "KN" and len(t) != 65 for t in prog):
                return "class table of the wrong size in the program of %r" % p
        if w2[1] not in ("0", "1") or len(w2) != 2 + nm:
            return "malformed match result for %r on %r: %s" % (p, txt, out[2][:100])
        caps = [int(x) for x in w2[2:]]
        if any(c < -1 or c > len(txt) for c in caps):
            return "capture offset outside the text for %r on %r: %s" % (p, txt, out[2][:100])
        if ref is not None:
            m = ref.search(txt)
            if (m is not None) != (w2[1] == "1"):
                return "pattern %r on %r: VM says %s, reference says %s" % (p, txt, w2[1], "match" if m else "no match")
            if m is not None:
                exp = []
                for g in range(0, min(nm // 2, ref.groups + 1)):
                    exp += [m.start(g), m.end(g)]
                if caps[:len(exp)] != exp:
                    return "pattern %r on %r: captures %s, reference %s" % (p, txt, caps[:len(exp)], exp)
        return None
    return Case("front-ref" if ref is not None else "front", ops, oracle)


# ---------------------------------------------------------------- regex VM (modelled): programs come from the real compiler

def gen_simple_regex(r, depth=0):
    """(pattern, nullable, has_unbounded): no anchors, no empty branches, no quantifier on something that can match the
    empty string (the corner where backtracking engines and a Pike VM differ) and no unbounded quantifier around another
    one (python's backtracking would go exponential) — so python's `re` is an independent reference for the match and
    its captures"""
    out, nullable, unb = [], True, False
    for _ in range(r.randrange(1, 4)):
        k = r.randrange(8 if depth < 2 else 5)
        an, au = False, False
        if k < 3:
            a = bytes([r.choice(b"abc")])
        elif k == 3:
            a = b"."
        elif k == 4:
            a = r.choice([b"[ab]", b"[^a]", b"[a-c]", b"[^bc]", b"[b-c]"])
        elif k < 7:
            body, an, au = gen_simple_regex(r, depth + 1)
            a = b"(" + body + b")"
        else:
            b1, n1, u1 = gen_simple_regex(r, depth + 1)
            b2, n2, u2 = gen_simple_regex(r, depth + 1)
            a, an, au = b"(" + b1 + b"|" + b2 + b")", n1 or n2, u1 or u2
        if not an:
            qs = [b"", b"", b"", b"?", b"{1,2}", b"{2}", b"{0,2}", b"??"]
            if not au:
                qs += [b"*", b"+", b"*?", b"+?"]
            q = r.choice(qs)
            a += q
            an = q in (b"?", b"*", b"{0,2}", b"??", b"*?")
            au = au or q in (b"*", b"+", b"*?", b"+?")
        out.append(a)
        nullable = nullable and an
        unb = unb or au
    return b"".join(out), nullable, unb


def prog_wf(toks):
    """ReVm.Wf on the token form"""
    n = len(toks)
    if n == 0:
        return False
    for pc, tk in enumerate(toks):
        c = tk[0]
        if c == "M":
            continue
        if c == "S":
            a, b = tk[1:].split(",")
            if int(a) >= n or int(b) >= n:
                return False
        elif c == "J":
            if int(tk[1:]) >= n:
                return False
        else:
            if pc + 1 >= n or (c == "C" and int(tk[1:]) == 0):
                return False
    return True


def vm_cases(ctx, h, r, npat, ntext):
    pats = []
    for _ in range(npat):
        k = r.randrange(10)
        if k < 5:
            pats.append((gen_simple_regex(r)[0], True))
        elif k < 9:
            pats.append((gen_regex(r), False))
        else:
            pats.append((r.choice([b"a", b"^a", b"a$", b"^$", b"(a|b)*c", b"(a?){3}b", b"a{0}", b"(a*)*", b"(|a)+", b"[\x80-\xff]+", b"\xff", b"(((a)))", b"a|", b"|a", b"()",
                                   b"(a)(b)(c)(d)(e)(f)(g)(h)", b".*", b".*?x", b"[^x]$", b"x*$", b"(a+)+b"]), False))
    comp = [Case("recomp", ["recomp " + H(p)]) for p, _ in pats]
    out, cr = run_batch([h], comp, timeout=300)
    cases = []
    for i, (p, simple) in enumerate(pats):
        o = out.get(i)
        ctx.hist("recomp")
        if i in cr and o is None:
            kind, fn = san_site(cr[i][1])
            ctx.fail(dict(kind="crash", op="recomp", site=fn, what=kind), dict(case="recomp", ops=comp[i].ops, detail=[cr[i][1][-3000:]]), "recomp crashed: %s in %s" % (kind, fn))
            continue
        if not o or o[0] == "recomp fail":
            ctx.hist("recomp-rejected")
            continue
        toks = o[0].split()[2:]
        if len(toks) != int(o[0].split()[1]) or len(toks) > 1500:
            continue
        if not prog_wf(toks):
            ctx.fail(dict(kind="oracle", op="recomp", cls="ill-formed-program"), dict(case="recomp", ops=comp[i].ops, impl=o),
                     "the compiler emitted a program that is not well-formed (jump target / successor outside the program, or a NUL character instruction) for %r: %s" % (p, o[0][:300]))
            continue
        try:
            ref = re.compile(p, re.S) if simple else None
        except re.error:
            ref = None
        for _ in range(ntext):
            txt = bytes(r.choice(b"abc") for _ in range(r.choice([0, 1, 2, 4, 8, 16]))) if simple or r.random() < 0.5 else \
                bytes(r.choice(b"abcxyz01 _-.\x80\xc3\xe9\xff\x01") for _ in range(r.choice([0, 1, 3, 8, 20])))
            nm = r.choice([0, 2, 2, 4, 6, 16, 20, 3])
            tk = list(toks)
            kind = "revm"
            if not simple and r.random() < 0.25 and len(tk) > 2:
                # damage the program inside the well-formedness condition: retarget jumps, reorder instructions
                kind = "revm-mutated"
                for _ in range(r.randrange(1, 4)):
                    j = r.randrange(len(tk) - 1)
                    m = r.randrange(4)
                    if m == 0:
                        tk[j] = "S%d,%d" % (r.randrange(len(tk)), r.randrange(len(tk)))
                    elif m == 1:
                        tk[j] = "J%d" % r.randrange(len(tk))
                    elif m == 2:
                        tk[j] = r.choice(["A", "B", "E", "V%d" % r.randrange(0, 70), "C%d" % r.randrange(1, 256), "K" + "ff" * 32, "N" + "00" * 32, "K" + "01" + "00" * 31])
                    else:
                        a, b = r.randrange(len(tk) - 1), r.randrange(len(tk) - 1)
                        tk[a], tk[b] = tk[b], tk[a]
                if not prog_wf(tk):
                    continue
            oracle = None
            if ref is not None and kind == "revm":
                def oracle(out2, ref=ref, txt=txt, nm=nm, p=p):
                    w = out2[0].split()
                    m = ref.search(txt)
                    if (m is not None) != (w[1] == "1"):
                        return "pattern %r on %r: VM says %s, reference says %s" % (p, txt, w[1], "match" if m else "no match")
                    if m is not None:
                        exp = []
                        for g in range(0, min(nm // 2, ref.groups + 1)):
                            exp += [m.start(g), m.end(g)]
                        got = [int(x) for x in w[2:2 + len(exp)]]
                        if got != exp:
                            return "pattern %r on %r: captures %s, reference %s" % (p, txt, got, exp)
                    return None
            cases.append(Case(kind + ("-ref" if oracle else ""), ["revm %d %s %s" % (nm, H(txt), " ".join(tk))], oracle))
    return cases



def repl_ref(data, keys):
    def m(k):
        return {b"n": k, b"e": b"", b"k": b"kk-longer-than-the-key-kk"}.get(k[:1], b"<R>")
    for k in keys:
        if k:
            data = data.replace(k, m(k))
    return data


# ---------------------------------------------------------------- ini parser (modelled: Model/Ini.lean)

INI = dict(line=200, num=200, sec=127, name=127)      # refreshed from the translator probe in run()
INI_SPACE = b" \t\n\x0b\x0c\r"


def ini_find(s, chars):
    """offset of the first byte of `chars`, or of a ';' that follows a blank, or len(s)"""
    m = re.search(rb"[" + re.escape(chars) + rb"]|(?<=[ \t\n\x0b\x0c\r]);" if chars else rb"(?<=[ \t\n\x0b\x0c\r]);", s, re.S)
    return m.start() if m else len(s)


def ini_ref(pieces):
    """reference splitter over the strings the reader delivers: (error line, [(section, name, value)]); the handler refuses the
    name `bad` and values starting with `!`"""
    section, prev, err, evs = b"", b"", 0, []

    def call(name, value, no):
        nonlocal err
        evs.append((section, name, value))
        if (name == b"bad" or value[:1] == b"!") and not err:
            err = no
    for no, raw in enumerate(pieces, 1):
        raw = raw.split(b"\0")[0]
        off = 3 if no == 1 and raw[:3] == b"\xef\xbb\xbf" else 0
        body = raw[off:].rstrip(INI_SPACE)
        t = body.lstrip(INI_SPACE)
        if not t or t[:1] in (b";", b"#"):
            continue
        if prev and off + len(body) - len(t) > 0:
            call(prev, t, no)
        elif t[:1] == b"[":
            e = 1 + ini_find(t[1:], b"]")
            if t[e:e + 1] == b"]":
                section, prev = t[1:e][:INI["sec"] - 1], b""
            elif not err:
                err = no
        else:
            e = ini_find(t, b"=:")
            if t[e:e + 1] in (b"=", b":"):
                name, rest = t[:e].rstrip(INI_SPACE), t[e + 1:]
                value = rest[:ini_find(rest, b"")].strip(INI_SPACE)
                prev = name[:INI["name"] - 1]
                call(name, value, no)
            elif not err:
                err = no
    return err, evs


def ini_pieces(text):
    """how ini_reader_string cuts a C string: up to and including the next newline, at most num - 1 bytes"""
    text = text.split(b"\0")[0]
    out, i, n = [], 0, INI["num"] - 1
    while i < len(text) and n >= 1:
        j = text.find(b"\n", i, i + n)
        k = j + 1 if j >= 0 else min(len(text), i + n)
        out.append(text[i:k])
        i = k
    return out


def ini_oracle(tag, pieces, what):
    exp_err, exp_evs = ini_ref(pieces)

    def oracle(out):
        w = out[0].split()
        if w[0] != tag or len(w) < 3 or not w[1].lstrip("-").isdigit():
            return "ini parser: unreadable result `%s` for %r" % (out[0][:200], what[:300])
        got = [tuple(U(x) for x in ev.split("/")) for ev in w[3:]]
        if int(w[1]) != exp_err or int(w[2]) != len(exp_evs) or got != exp_evs[:64]:
            d = next((i for i, (a, b) in enumerate(zip(got, exp_evs)) if a != b), min(len(got), len(exp_evs)))
            return ("ini parser on %r: returned %s with %s handler calls, the reference splitter gives %d with %d calls; first difference at call %d: %r vs %r"
                    % (what[:400], w[1], w[2], exp_err, len(exp_evs), d, got[d:d + 1], exp_evs[d:d + 1]))
        return None
    return oracle


def gen_ini_line(r):
    k = r.randrange(16)
    sp = lambda: bytes(r.choice(b"  \t") for _ in range(r.choice([0, 0, 1, 2])))
    nm = bytes(r.choice(b"abckey_1 .") for _ in range(r.randrange(0, 9)))
    val = bytes(r.choice(b"xyz 09;#=:[]\t\"!") for _ in range(r.randrange(0, 14)))
    if k < 4:
        return sp() + nm + sp() + r.choice([b"=", b":"]) + sp() + val + sp()
    if k == 4:
        return sp() + b"[" + nm + r.choice([b"]", b"]", b"", b"] ; c", b"]]", b" ]x", b" ;]", b";]"]) + sp()
    if k == 5:
        return r.choice([b";", b"#", b" ;", b"\t#"]) + val
    if k == 6:
        return r.choice([b" ", b"  ", b"\t"]) + val          # continuation of the previous value (or an indented pair)
    if k == 7:
        return nm                                           # no '=' : error line
    if k == 8:
        return r.choice([b"bad=1", b"bad = x", b"=v", b"k=", b"k = v ; comment", b"k=v;nocomment", b"k= ;c", b"k=;c", b"[s]", b"k=!no", b" !x", b"k = a = b : c",
                         b"k:v", b"[]", b"[ ]", b"[a]b", b"[;]", b"x ;=1", b"x ; =1", b"\xef\xbb\xbfk=v", b"\xef\xbb", b"\xef", b" \xef\xbb\xbfk=v"])
    if k == 9:      # around the section / name buffer sizes
        n = r.choice([INI["sec"] - 2, INI["sec"] - 1, INI["sec"], INI["sec"] + 1, INI["sec"] + 40])
        c = bytes([r.choice(b"sS")])
        return r.choice([b"[" + c * n + b"]", c * min(n, INI["num"] - 5) + b"=v", c * min(n, INI["num"] - 5) + b" = v ; c"])
    if k == 10:     # around the line buffer size
        n = r.choice([INI["num"] - 4, INI["num"] - 3, INI["num"] - 2, INI["num"] - 1, INI["num"], INI["num"] + 1, 2 * INI["num"] - 3, 2 * INI["num"] - 2, 2 * INI["num"] - 1, 2 * INI["num"], 5 * INI["num"]])
        head = r.choice([b"k=", b"[", b"", b" ", b"k", b"[s]"])
        return head + bytes(r.choice(r.choice([b"a", b"ab =;]", b"a ", b" "])) for _ in range(max(0, n - len(head))))
    if k == 11:
        return bytes(r.choice(b"ab[]=:;# \t\x01\x80\xff\r") for _ in range(r.randrange(0, 20)))
    if k == 12:
        return r.choice([b"", b"", b" ", b"\t \t", b"\r"])
    return sp() + nm + r.choice([b"=", b" = ", b":"]) + val + r.choice([b" ;c", b" ; c ; d", b";c", b"\t;", b" #c", b""])


def gen_ini_text(r):
    lines = [gen_ini_line(r) for _ in range(r.choice([0, 1, 2, 3, 5, 8, 12]))]
    txt = b"".join(ln + r.choice([b"\n", b"\n", b"\n", b"\r\n", b"\n\n"]) for ln in lines)
    if lines and r.random() < 0.3:
        txt = txt.rstrip(b"\n")
    k = r.randrange(10)
    if k == 0:
        txt = mutate(r, txt)
    elif k == 1:
        txt = b"\xef\xbb\xbf" + txt
    elif k == 2:
        txt = r.choice([b" ", b"\n", b"\xef\xbb", b" \xef\xbb\xbf"]) + txt
    return txt


def case_inis(r):
    txt = gen_ini_text(r)
    return Case("inis", ["inis " + H(txt)], ini_oracle("inis", ini_pieces(txt), txt), key=("inis", txt))


def case_inif(r):
    """iwini_parse_stream with a reader that delivers arbitrary strings (NULs inside, no newline, full-size)"""
    fills = []
    for _ in range(r.choice([0, 1, 2, 3, 5, 9])):
        f = gen_ini_line(r) + r.choice([b"", b"\n", b"\n", b"\r\n"])
        k = r.randrange(8)
        if k == 0:
            pos = r.randrange(len(f) + 1)
            f = f[:pos] + b"\0" + f[pos:]
        elif k == 1:
            f = mutate(r, f)
        elif k == 2:
            f = f + b"\0" + gen_ini_line(r)
        fills.append(f[:INI["num"] - 1])
    return Case("inif", ["inif " + " ".join(H(f) for f in fills)] if fills else ["inif"], ini_oracle("inif", fills, b" | ".join(fills)), key=("inif", tuple(fills)))


# ---------------------------------------------------------------- iwu_replace (modelled: Model/Repl.lean)

def case_replm(r):
    alpha = r.choice([b"abnek xyab", b"ab", b"aab", b"kne<R>"])
    data = bytes(r.choice(alpha) for _ in range(r.choice([0, 1, 2, 3, 5, 16, 17, 40, 200])))
    keys = []
    for _ in range(r.choice([0, 1, 1, 2, 2, 3, 5])):
        keys.append(r.choice([b"", b"a", b"ab", b"aa", b"aba", b"b", b"n", b"na", b"e", b"eb", b"k", b"kx", b"kk", b"x", b"xy", b"<R>", b"R", b"<", b"zzz", b"-", b"kk-",
                              data[:1], data[:3], data[-2:], data[1:4], data, data + b"a"]))
    dl = len(data)
    clean = True
    k = r.randrange(10)
    if k == 0 and data:
        dl, clean = r.randrange(len(data) + 1), False          # datalen shorter than the string: matches may straddle / lie behind datalen
    elif k == 1:
        pos = r.randrange(len(data) + 1)
        data, clean = data[:pos] + b"\0" + data[pos:], False   # NUL inside data[0..datalen)
        dl = len(data)
    elif k == 2:
        keys = [kk + r.choice([b"", b"\0x"]) for kk in keys]   # what follows the terminator of a key is not looked at
    eff = [kk.split(b"\0")[0] for kk in keys]

    def oracle(out, data=data, eff=eff, clean=clean, dl=dl):
        w = out[0].split()
        if len(w) != 3 or w[1] != "ok":
            return "iwu_replace(%r, %d, %r) failed: %s" % (data, dl, eff, out[0][:200])
        if clean:
            ref = repl_ref(data, eff)
            if "+" in w[2]:
                hx, extra = w[2].split("+")
                got = U(hx)
                if got != ref[:len(got)] or len(ref) != len(got) + int(extra):
                    return "iwu_replace(%r, %r): first %d bytes / total length differ from sequential replacement" % (data, eff, len(got))
            elif U(w[2]) != ref:
                return "iwu_replace(%r, %r) = %r, sequential replacement gives %r" % (data, eff, U(w[2]), ref)
        return None
    return Case("replm" + ("" if clean else "-odd"), ["replm %d %s" % (dl, " ".join([H(data)] + [H(kk) for kk in keys]))], oracle, key=("replm", dl, data, tuple(keys)))


MODELLED = [(case_inis, 5), (case_inif, 2.5), (case_replm, 3.5), (case_unesc, 6), (case_key, 3), (case_ptr, 5), (case_ftoa, 4), (case_itoa, 1.5), (case_atoi2, 2), (case_afcmp, 3), (case_hex, 2)]

# ================================================================ exploration (no model)


def gen_json(r, depth=0, js=False):
    k = r.randrange(12 if depth < 4 else 7)
    if k == 0:
        return r.choice([b"null", b"true", b"false"])
    if k in (1, 2):
        return r.choice([b"0", b"-1", b"17", b"9223372036854775807", b"-9223372036854775808", b"9223372036854775808", b"99999999999999999999",
                         b"0x1F", b"017", b"-0", b"1.5", b"-2.25e3", b"1E+2", b"1e-2", b"1e400", b"1e-400", b"0.1", b"1.", b"-.5", b".5",
                         b"1e99999999999", b"12345678901234567890.5", b"%d" % r.randrange(-10 ** 6, 10 ** 6), b"%.6f" % (r.random() * 1000),
                         b"1e0", b"1e00", b"1e+", b"1e", b"--1", b"+1", b"1-1", b"0e99999"])
    if k in (3, 4, 5, 6):
        q = 39 if js and r.random() < 0.4 else 34
        return bytes([q]) + gen_string_body(r, q, maxlen=8)[0] + bytes([q])
    ws = lambda: r.choice([b"", b"", b" ", b"\n", b"\t ", b",", b" ,"])
    if k in (7, 8):
        return b"[" + ws() + (ws() + b"," + ws()).join(gen_json(r, depth + 1, js) for _ in range(r.randrange(0, 4))) + ws() + b"]"
    items = []
    for _ in range(r.randrange(0, 4)):
        if js and r.random() < 0.5:
            key = bytes(r.choice(b"abcXYZ") for _ in range(r.randrange(1, 5))) + bytes(r.choice(b"abc019") for _ in range(r.randrange(0, 3)))
            if r.random() < 0.3:
                key = b"'" + key + b"'"
        else:
            key = b'"' + gen_string_body(r, 34, maxlen=5)[0] + b'"'
        items.append(key + ws().replace(b",", b"") + b":" + ws() + gen_json(r, depth + 1, js))
    return b"{" + ws() + (ws() + b"," + ws()).join(items) + ws() + b"}"


def case_json(r):
    js = r.random() < 0.3
    k = r.randrange(12)
    if k == 0:
        n = r.choice([3, 500, 998, 999, 1000, 1001, 1500])
        o, c = r.choice([(b"[", b"]"), (b'{"a":', b"}"), (b'[{"k":', b"}]")])
        doc = o * n + r.choice([b"1", b"", b"\"x\""]) + c * r.choice([n, n - 1, 0])
    elif k == 1:
        doc = r.choice([b"", b" ", b"]", b"}", b",", b"\xef\xbb\xbf", b"\xef\xbb", b"\xef\xbb\xbf[1]", b"[", b"{", b"{\"a\"", b"{\"a\":", b"[1,", b"nul", b"tru", b"fals",
                        b"\"\\", b"\"\\u", b"\"\\ud800\\u", b"'a'", b"[1 2]", b"{\"a\":1 \"b\":2}", b"[1,]", b"[,1]", b"{,}", b"{\"a\":]", b"[}", b"-", b".", b"1e",
                        b"[\"a\\u0000b\"]", b"{\"a\\u0000b\":1}", b"\x00[1]", b"[1]\x00junk", b"[1] junk"])
    else:
        doc = gen_json(r, 0, js)
        if r.random() < 0.5:
            doc = mutate(r, doc)
    return Case("js" if js else "json", ["%s %s" % ("js" if js else "json", H(doc))])


def gen_pointer(r, doc):
    paths = [b""]

    def walk(v, p):
        paths.append(p)
        if isinstance(v, dict):
            for k2, x in v.items():
                walk(x, p + b"/" + k2.encode().replace(b"~", b"~0").replace(b"/", b"~1"))
        elif isinstance(v, list):
            for i, x in enumerate(v):
                walk(x, p + b"/%d" % i)
    walk(doc, b"")
    p = r.choice(paths)
    k = r.randrange(10)
    if k == 0:
        p += r.choice([b"/-", b"/0", b"/01", b"/zz", b"/99999999999999999999", b"/-1", b"/*"])
    elif k == 1:
        p = mutate(r, p + r.choice([b"", b"~", b"/~", b"~2"]))
    elif k == 2:
        p = p[1:]
    return p


def gen_doc(r, depth=0):
    k = r.randrange(8 if depth < 3 else 4)
    if k == 0:
        return r.choice([None, True, False])
    if k == 1:
        return r.choice([0, 1, -5, 2 ** 40, 1.5, -0.25])
    if k in (2, 3):
        return r.choice(["", "a", "b~/c", "é", "x y", "0"])
    if k in (4, 5):
        return [gen_doc(r, depth + 1) for _ in range(r.randrange(0, 4))]
    return {r.choice(["a", "b", "c", "a/b", "m~n", "", "0", "1", "-", "k"]): gen_doc(r, depth + 1) for _ in range(r.randrange(0, 4))}


def case_patch(r):
    doc = r.choice([{}, [], {"a": 1}]) if r.random() < 0.1 else gen_doc(r)
    if not isinstance(doc, (dict, list)):
        doc = {"a": doc}
    ops = []
    for _ in range(r.randrange(0, 4)):
        op = {"op": r.choice(["add", "remove", "replace", "test", "increment", "add_create", "swap", "bogus", "", "copy", "move", 5, None])}
        needs_from = op["op"] in ("swap", "copy", "move")
        if r.random() < 0.9:
            op["path"] = gen_pointer(r, doc).decode("latin1")
        if r.random() < 0.7:
            op["value"] = gen_doc(r, 2)
        if (needs_from and r.random() < 0.8) or r.random() < 0.1:
            op["from"] = gen_pointer(r, doc).decode("latin1") if r.random() < 0.8 else r.choice(["", "x", "~", "/nope/none", 5, None, "/a~"])
        if r.random() < 0.1:
            op = r.choice([5, "x", None, [], {"path": "/a"}, {"op": "add"}])
        ops.append(op)
    pt = json.dumps(ops if r.random() < 0.9 else r.choice([{}, 5, "x", None, ops[:1] and ops[0]])).encode()
    if r.random() < 0.25:
        pt = mutate(r, pt)
    return Case("patch", ["patch %s %s" % (H(json.dumps(doc).encode()), H(pt))])


def case_merge(r):
    doc = gen_doc(r)
    if not isinstance(doc, dict):
        doc = {"a": doc}
    p = gen_doc(r)
    pt = json.dumps(p).encode()
    if r.random() < 0.3:
        pt = mutate(r, pt)
    return Case("merge", ["merge %s %s" % (H(json.dumps(doc).encode()), H(pt))])


def case_at(r):
    doc = gen_doc(r)
    if not isinstance(doc, (dict, list)):
        doc = [doc]
    return Case("at", ["at %s %s" % (H(json.dumps(doc).encode()), H(gen_pointer(r, doc)))])


def gen_regex(r, depth=0, budget=None):
    """pattern text; repetition counts are kept small so that the open findings on unbounded counts are not what every case hits"""
    parts = []
    for _ in range(r.randrange(1, 5)):
        k = r.randrange(13 if depth < 3 else 8)
        if k < 3:
            a = bytes([r.choice(b"abcxyz01 _-")])
        elif k == 3:
            a = b"."
        elif k == 4:
            a = b"\\" + bytes([r.choice(b".*+?()[]{}|^$\\ad")])
        elif k in (5, 6):
            items = []
            for _ in range(r.randrange(1, 4)):
                t = r.randrange(6)
                if t == 0:
                    lo = r.choice(b"a0A\x80")
                    items.append(bytes([lo]) + b"-" + bytes([min(255, lo + r.randrange(0, 30))]))
                elif t == 1:
                    items.append(b"\\" + bytes([r.choice(b"]\\-^a")]))
                elif t == 2:
                    items.append(bytes([r.choice([0x80, 0xc3, 0xff, 0x7f, 1])]))
                else:
                    items.append(bytes([r.choice(b"abcxyz019_ .-")]))
            a = b"[" + (b"^" if r.random() < 0.3 else b"") + (b"]" if r.random() < 0.1 else b"") + b"".join(items) + b"]"
        elif k == 7:
            a = r.choice([b"^", b"$", bytes([r.choice([0x80, 0xe9, 0xff])])])
        elif k in (8, 9, 10):
            a = b"(" + gen_regex(r, depth + 1) + b")"
        else:
            a = gen_regex(r, depth + 1) + b"|" + gen_regex(r, depth + 1)
        q = r.randrange(10)
        if q < 4 and k not in (11, 12):
            a += r.choice([b"?", b"*", b"+", b"{2}", b"{0,2}", b"{1,}", b"{,3}", b"{3,1}", b"{", b"{}", b"{1", b"{1,2", b"{a}", b"{12}"]) + (b"?" if r.random() < 0.25 else b"")
        parts.append(a)
    return b"".join(parts)


def case_re(r):
    pat = gen_regex(r)
    k = r.randrange(10)
    if k < 3:
        pat = mutate(r, pat)
    elif k == 3:
        pat = r.choice([b"", b"\\", b"a\\", b"[", b"[a", b"[\\", b"[a-", b"[]", b"[]]", b"[^]", b"(", b")", b"(a", b"a)", b"|", b"||", b"a|", b"|a", b"()", b"(|)", b"*", b"+a", b"?",
                        b"a**", b"a{0}", b"a{0,0}", b"(a*)*", b"(a|b)*c", b"(a?){3}b", b"^$", b"$^", b"a{,}", b"[z-a]", b"[a-\\]]", b"\xff+", b"[\x80-\xff]+", b"(((((a)))))", b"(a)(b)(c)(d)(e)(f)(g)(h)(i)(j)"])
    txt = bytes(r.choice(b"abcxyz01 _-.\x80\xc3\xe9\xff\x01") for _ in range(r.choice([0, 1, 3, 8, 20, 60])))
    if r.random() < 0.3:
        txt = bytes(r.choice(b"ab") for _ in range(r.randrange(0, 40)))
    return Case("re", ["re %s %s" % (H(pat), H(txt))])


def case_ini(r):
    lines = []
    for _ in range(r.randrange(0, 8)):
        k = r.randrange(12)
        nm = bytes(r.choice(b"abckey_1 ") for _ in range(r.randrange(0, 8)))
        val = bytes(r.choice(b"xyz 09;#=:[]\t\"") for _ in range(r.randrange(0, 12)))
        if k < 4:
            ln = nm + r.choice([b"=", b" = ", b":", b" : "]) + val
        elif k == 4:
            ln = b"[" + nm + r.choice([b"]", b"", b"] ; c", b"]]", b" ]x"])
        elif k == 5:
            ln = r.choice([b";", b"#", b" ;"]) + val
        elif k == 6:
            ln = b"  " + val          # continuation of the previous value
        elif k == 7:
            ln = nm                   # no '=' : error line
        elif k == 8:
            ln = r.choice([b"bad=1", b"=v", b"k=", b"k = v ; comment", b"k=v;nocomment", b"[s]", b"\xef\xbb\xbfk=v", b"\xef\xbb"])
        elif k == 9:
            n = r.choice([150, 197, 198, 199, 200, 201, 250, 399, 400, 401, 1000])
            ln = r.choice([b"k=", b"[", b"", b" "]) + bytes(r.choice(b"ab =;]") for _ in range(n))
        elif k == 10:
            ln = bytes(r.choice(b"ab[]=:;# \t\x01\x80\xff") for _ in range(r.randrange(0, 20)))
        else:
            ln = b""
        lines.append(ln)
    txt = r.choice([b"\n", b"\r\n", b"\n\n"]).join(lines) + r.choice([b"", b"\n"])
    if r.random() < 0.2:
        txt = mutate(r, txt)
    if r.random() < 0.2:
        txt = b"\xef\xbb\xbf" + txt
    return Case("ini", ["ini " + H(txt)])


def case_repl(r):
    alpha = b"abnek xyab"
    data = bytes(r.choice(alpha) for _ in range(r.choice([0, 1, 2, 5, 16, 17, 40, 200])))
    keys = []
    for _ in range(r.randrange(0, 4)):
        keys.append(r.choice([b"", b"a", b"ab", b"n", b"na", b"e", b"eb", b"k", b"kx", b"x", b"xy", b"<R>", b"R", b"zzz", data[:3], data[-2:], data]))
    clean = b"\0" not in data and all(b"\0" not in k for k in keys)
    if r.random() < 0.15:
        data = mutate(r, data)
        clean = False

    def oracle(out, data=data, keys=keys, clean=clean):
        w = out[0].split()
        if w[1] != "ok":
            return "iwu_replace failed: %s" % out[0]
        if clean:
            ref = repl_ref(data, keys)
            if "+" in w[2]:      # the harness prints at most OUT_BUDGET bytes and "+<rest>": compare the prefix and the total length
                hx, extra = w[2].split("+")
                got = U(hx)
                if got != ref[:len(got)] or len(ref) != len(got) + int(extra):
                    return "iwu_replace(%r, %r): first %d bytes / total length differ from sequential replacement" % (data, keys, len(got))
            elif U(w[2]) != ref:
                return "iwu_replace(%r, %r) = %r, sequential replacement gives %r" % (data, keys, U(w[2]), ref)
        return None
    return Case("repl", ["repl " + " ".join([H(data)] + [H(k) for k in keys])] if keys else ["repl %s -" % H(data)], oracle if keys else None)


WS = b" \t\n\x0b\x0c\r"


def split_ref(hay, sc, ws):
    if not hay:
        return []
    pieces, cur = [], bytearray()
    for c in hay:
        if c in sc:
            pieces.append(bytes(cur)); cur = bytearray()
        else:
            cur.append(c)
    if cur or (hay[-1] not in sc):
        pieces.append(bytes(cur))
    return [p.strip(WS) for p in pieces] if ws else pieces


def case_split(r):
    sc = r.choice([b",", b",", b",;", b" ", b"", b"a", b"\n"])
    hay = bytes(r.choice(b"ab ,;  \tx\n") for _ in range(r.choice([0, 1, 2, 3, 5, 9, 30])))
    if r.random() < 0.3:
        hay = r.choice([b" ", b"  ", b",", b", ", b" ,", b",   ", b"a, ,b", b"a, ,b,c", b" a ", b",,", b" , , ", b"a,", b",a", b"\t"])
    ws = r.randrange(2)
    exp = split_ref(hay, sc, ws)

    def oracle(out, hay=hay, sc=sc, ws=ws, exp=exp):
        got = [U(x) for x in out[0].split()[1:]]
        return None if got == exp else "iwpool_split_string(%r, %r, %d) = %r, expected %r" % (hay, sc, ws, got, exp)
    return Case("split", ["split %s %s %d" % (H(hay), H(sc), ws)], oracle)


def case_xprintf(r):
    n = r.choice([0, 1, 15, 16, 17, 100, 1000, 1010, 1017, 1018, 1022, 1023, 1024, 1025, 2047, 2048, 5000])
    s = bytes(r.choice(b"abc%d%s \xff\x01") for _ in range(n))
    return Case("xprintf", ["xprintf %s %d" % (H(s), r.randrange(16))])


def case_num(r):
    s = r.choice([b"", b" ", b"\t\n"]) + r.choice([b"", b"-", b"+", b"--"])
    s += r.choice([b"", b"0", b"1", b"12", b"0x1f", b"017", b"9223372036854775807", b"9223372036854775808", b"18446744073709551616", b"inf", b"nan", b"."])
    s += r.choice([b"", b".", b".5", b".25", b".000000000000000000001", b"." + b"9" * 30])
    s += r.choice([b"", b"", b"e", b"e5", b"E-5", b"e+", b"e0", b"e00", b"e0x", b"e99999999999", b"e-99999999999", b"e308", b"e309", b"e-324", b"x", b" "])
    if r.random() < 0.2:
        s = mutate(r, s)
    return Case("num", ["strtod " + H(s), "strtoll %s %d" % (H(s), r.choice([10, 10, 0, 16, 8, 36]))])


EXPLORE = [(case_json, 8), (case_patch, 3), (case_merge, 2), (case_at, 2), (case_re, 7), (case_ini, 3), (case_repl, 2), (case_split, 2), (case_xprintf, 1), (case_num, 2)]

# inputs that reach the three open findings (kept out of the random streams so that each costs one process restart per run)
WITNESS = [
    ("re-count-parse", "re %s %s" % (H(b"a{99999999999}"), H(b"aaa"))),
    ("re-count-compile", "re %s %s" % (H(b"((a{60000}){60000})"), H(b"aaa"))),
    ("re-depth", "re %s %s" % (H(b"a" * 200000), H(b"aaa"))),
]


def pick(r, gens, n):
    tot = sum(w for _, w in gens)
    out = []
    for _ in range(n):
        x = r.random() * tot
        for g, w in gens:
            x -= w
            if x <= 0:
                out.append(g(r))
                break
    return out


def signature(case, prob):
    op = case.ops[-1].split()[0]
    if prob[0] == "crash":
        kind = prob[1]["kind"]
        if prob[1].get("rc") == 97 or "WATCHDOG" in str(prob[2]):
            kind = "watchdog"
        if prob[1].get("rc") == -999:
            kind = "timeout"
        return dict(kind="crash", op=op, site=prob[1]["site"], what=kind)
    if prob[0] == "history":
        return dict(kind="history", op=op)
    msg = prob[1] if prob[0] == "oracle" else ""
    cls = ""
    for tag, pat in (("stored-outside", "stored outside|stored behind"), ("passes-disagree", "disagree"), ("oob-model", "out-of-range"),
                     ("malformed-accepted", "accepted"), ("valid-rejected", "rejected")):
        if re.search(pat, msg):
            cls = tag
            break
    return dict(kind=prob[0], op=op, cls=cls)


def with_history(cases, r):
    """copy of the cases with an adversarial history in front of each (stale errno, recycled junk heap blocks, a used parser)"""
    out = []
    for c in cases:
        out.append(Case(c.kind, ["perturb %d" % r.randrange(1000)] + c.ops,
                        (lambda o: (lambda lines: o(lines[1:])))(c.oracle) if c.oracle else None, key=c.key))
    return out


def report(ctx, probs):
    for c, p in probs:
        if p[0] == "diverge":
            ctx.corr_broken.append("model/implementation diverge on `%s`: impl `%s` model `%s`" % (c.ops[p[1]][:300], p[2][:300], p[3][:300]))
            if len(ctx.corr_broken) <= 5:
                ctx.log("DIVERGE", c.ops[p[1]][:300], "| impl:", p[2][:300], "| model:", p[3][:300])
        else:
            ctx.fail(signature(c, p), dict(case=c.kind, ops=[o[:100000] for o in c.ops], impl=c.impl, detail=[str(x)[:3000] for x in p[1:]]), str(p[1])[:400])


def explore(ctx, h, drv, n_mod, n_exp, label, fresh=60):
    r = C.Rng(ctx.seed, "c17/" + label)
    mod = pick(r, MODELLED, n_mod)
    exp = pick(r, EXPLORE, n_exp)
    for c in mod[:3] + exp[:3]:
        ctx.sample(dict(kind=c.kind, ops=[o[:200] for o in c.ops[:3]]))
    mod += vm_cases(ctx, h, r, max(40, n_mod // 60), 6)
    front = [case_front(r) for _ in range(n_mod // 3)]
    for c in front[:3]:
        ctx.sample(dict(kind=c.kind, ops=[o[:200] for o in c.ops[:3]]))
    mod += front
    # run A: after an adversarial history; modelled ops are diffed against the Lean driver
    a_mod, a_exp = with_history(mod, r), with_history(exp, r)
    probs = differential(ctx, [h], [drv, "c17"] if drv else None, a_mod, timeout=900)
    probs += differential(ctx, [h], None, a_exp, timeout=900)
    report(ctx, probs)
    for c in a_mod:                      # which parser / compiler branches the front-end cases reached
        if c.kind.startswith("front") and c.impl and len(c.impl) == 4:
            w = c.impl[1].split()
            if w[1] != "ok":
                ctx.hist("front:rejected")
                continue
            ctx.hist("front:accepted")
            toks = w[3:]
            for tag, pred in (("class", lambda t: t[0] == "K"), ("negated-class", lambda t: t[0] == "N"), ("alternation", lambda t: t == "|"),
                              ("epsilon", lambda t: t == "E"), ("anchor", lambda t: t in ("B", "Z")), ("group", lambda t: t == "P"),
                              ("unbounded", lambda t: t[0] == "Q" and ",-1," in t), ("counted", lambda t: t[0] == "Q" and ",-1," not in t and t[:5] != "Q0,1,"),
                              ("lazy", lambda t: t[0] == "Q" and t.endswith(",0")), ("zero-count", lambda t: t[:5] == "Q0,0,"), ("high-byte", lambda t: t[0] == "C" and int(t[1:]) > 127)):
                if any(pred(t) for t in toks):
                    ctx.hist("front:" + tag)
            n = c.impl[2].split()[1]
            if n.isdigit():
                ctx.hist("front:program<=16" if int(n) <= 16 else "front:program<=128" if int(n) <= 128 else "front:program>128")
    for c in a_mod:                      # which branches of the ini parser / iwu_replace the modelled cases reached
        if c.kind in ("inis", "inif") and c.impl and len(c.impl) == 2:
            w = c.impl[1].split()
            if len(w) >= 3 and w[2].isdigit():
                ctx.hist("ini:handler-calls>0" if int(w[2]) else "ini:no-handler-call")
                ctx.hist("ini:error-line" if w[1] != "0" else "ini:no-error")
                txt = U(c.ops[1].split()[1]) if c.kind == "inis" and len(c.ops[1].split()) > 1 else b""
                if any(len(ln) >= INI["num"] - 1 for ln in txt.split(b"\n")):
                    ctx.hist("ini:line-longer-than-buffer")
                if any(len(ev.split("/")[0]) >= 2 * (INI["sec"] - 1) for ev in w[3:]):
                    ctx.hist("ini:section-name-truncated")
                if any(ev.split("/")[0] != "-" for ev in w[3:]):
                    ctx.hist("ini:in-section")
        if c.kind.startswith("replm") and c.impl and len(c.impl) == 2:
            ctx.hist("replm:changed" if c.impl[1].split()[-1] != c.ops[1].split()[2] else "replm:unchanged")
    crashed = {id(c) for c, p in probs if p[0] == "crash"}
    # run B: the same inputs in another order, no perturbation; run F: a sample in a fresh process each
    allc = [(a, b) for a, b in zip(a_mod + a_exp, mod + exp) if id(a) not in crashed and a.impl is not None]
    order = list(range(len(allc)))
    r.shuffle(order)
    bcases = [Case(allc[i][1].kind, allc[i][1].ops) for i in order]
    bout, bcr = run_batch([h], bcases, timeout=900)
    hist = []
    for pos, i in enumerate(order):
        a = allc[i][0]
        got = bout.get(pos)
        ctx.case(("B", a.key))
        if got is None:
            if pos in bcr:
                kind, fn = san_site(bcr[pos][1])
                hist.append((a, ("crash", dict(kind=kind, site=fn, rc=bcr[pos][0]), bcr[pos][1][-3000:])))
            continue
        if got != a.impl[1:]:
            d = C.first_diff(a.impl[1:], got)
            hist.append((a, ("history", "result depends on what ran before: after perturbation `%s`, without `%s` (op `%s`)" % (d[1][:300], d[2][:300], a.ops[1 + d[0]][:300]))))
    for i in r.sample(range(len(allc)), min(fresh, len(allc))):
        a, b = allc[i]
        rc, o, e = C.run_lines([h], b.ops, timeout=60)
        ctx.case(("F", a.key))
        ctx.hist("fresh-process")
        if rc != 0 or o != a.impl[1:]:
            if rc != 0:
                kind, fn = san_site(e)
                hist.append((a, ("crash", dict(kind=kind, site=fn, rc=rc), e[-3000:])))
            else:
                d = C.first_diff(a.impl[1:], o)
                hist.append((a, ("history", "result depends on what ran before: after perturbation `%s`, in a fresh process `%s` (op `%s`)" % (d[1][:300], d[2][:300], a.ops[1 + d[0]][:300]))))
    report(ctx, hist)
    ctx.hist("history-pairs-compared", len(allc))
    return probs + hist


def witnesses(ctx, h):
    cases = [Case("witness-" + k, [op]) for k, op in WITNESS]
    probs = differential(ctx, [h], None, cases, timeout=300)
    report(ctx, probs)


def run(ctx):
    ctx.cov["rule"] = ("modelled leaf functions: cases from grammar-based generators (every escape spelling, surrogate pairs, raw control/high bytes, "
                       "pointer segments with ~0/~1, doubles around the 32-byte limit, digit runs around int64) plus a damaged stream (truncation, byte "
                       "flips, inserted `\\`, `\\u12`, `~`, NUL); unmodelled functions: structured documents / patches / patterns / ini texts plus the same "
                       "damage; every case runs after an adversarial history and again without it in another order; distinct = distinct op text")
    ctx.assumptions += ["buffer lengths fit `int` (< 2^31 bytes)",
                        "fraction parts compared by iwafcmp have at most 15 digits (long-double accumulation is then exact enough to agree with the exact model)",
                        "libc snprintf(\"%.8Lf\"/\"%.17Lg\") results are inputs of the ftoa model (computed by the generator with Python's exact formatting)",
                        "regex repetition counts and pattern nesting are kept small in the random streams (estimated program size <= 30000 instructions: the model has no allocation failure); the three open findings are exercised by fixed witnesses"]
    ctx.translate()
    from translate import gen
    consts, _ = gen.run_probe("probe_ini")      # sizes for the ini generators and the reference splitter (same probe as the translator)
    INI.update(line=consts["INI_MAX_LINE"], num=consts["INI_READER_NUM"], sec=consts["INI_MAX_SECTION"], name=consts["INI_MAX_NAME"])
    ok, drv_ok = ctx.prove(MODULE, THEOREMS)
    impl = C.build_impl("asan")
    h = C.build_harness(impl, "h_c17", ["h_c17.c"], exclude=("iwjser.c",))
    drv = C.drv_path() if drv_ok else None
    if ctx.tier == "quick":
        explore(ctx, h, drv, 30000, 24000, "main", fresh=150)
    else:
        for i in range(6):
            explore(ctx, h, drv, 60000, 50000, "main%d" % i, fresh=300)
    witnesses(ctx, h)
    if (ctx.proof_broken or ctx.corr_broken) and not ctx.violations:
        ctx.log("obligation or correspondence broken: widening the search for a failing input")
        for i in range(3):
            explore(ctx, h, drv, 8000, 3000, "search%d" % i)


def replay(ctx, obj):
    impl = C.build_impl("asan")
    h = C.build_harness(impl, "h_c17", ["h_c17.c"], exclude=("iwjser.c",))
    rc, o, e = C.run_lines([h], obj["replay"]["ops"])
    print("\n".join(x[:2000] for x in o))
    print(e[-3000:])
    ctx.case("replay")
    ctx.case("replay2")
