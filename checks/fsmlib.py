"""Shared generators, oracle and runner for the block-allocator checks C10 and C11 (src/fs/iwfsmfile.c).

A case is one self-contained history: `open ...` followed by allocate / reallocate / deallocate / status /
check / sync / reopen / clear lines (protocol: harness/h_c10.c).  Regions are addressed as `#j` = the j-th live
region (modulo the number of live regions), so a history is meaningful whatever addresses come back.

The oracle reads only the implementation's output lines.  It keeps its own set of live regions and states the
properties on API-visible results: alignment, length, solidity, disjointness from live regions / header / bitmap,
pattern bytes intact, index == maximal zero runs of the bitmap == complement of (live + header + bitmap),
file size after close, status queries.  It never looks at the Lean model.
"""
import bisect
from vlib import common as C
from vlib.diff import Case, differential

PAGE = 4096
NO_OVER, NO_EXTEND, ALIGNED, NO_STATS, SOLID, SYNC_BMAP = 1, 2, 4, 8, 16, 32
_consts = None


def consts():
    global _consts
    if _consts is None:
        from translate import gen
        _consts = gen.run_probe("probe_fsm")[0]
    return _consts


def roundup(x, v):
    return (x + v - 1) // v * v


class Cfg:
    def __init__(self, bpow, hdr, bmlen, mmapall, strict, lsnr, notrim, pat):
        self.bpow, self.hdr, self.bmlen, self.mmapall, self.strict, self.lsnr, self.notrim, self.pat = bpow, hdr, bmlen, mmapall, strict, lsnr, notrim, pat
        self.bsz = 1 << (bpow or 6)
        self.hdrlen = roundup(hdr + consts()["IWFSM_CUSTOM_HDR_DATA_OFFSET"], self.bsz)

    def line(self):
        return "open %d %d %d %d %d %d %d %d" % (self.bpow, self.hdr, self.bmlen, self.mmapall, self.strict, self.lsnr, self.notrim, self.pat)

    def tag(self):
        return "bpow%d" % self.bpow


def rand_cfg(r, pat=None):
    bpow = r.choice([6, 6, 6, 0, 7, 8, 9, 10, 11, 12])
    hdr = r.choice([0, 0, 64, 179, 255, 1000, 4019, 4020, 5000, 9000])
    bmlen = r.choice([0, 0, 1, 4096, 4097, 8192])
    if pat is None:
        pat = (bpow or 6) <= 8 and r.random() < 0.6
    return Cfg(bpow, hdr, bmlen, r.randrange(2), r.randrange(2), r.randrange(2), int(r.random() < 0.3), int(pat))


SIZES = [1, 1, 1, 2, 2, 3, 4, 4, 5, 8, 8, 15, 16, 17, 31, 32, 33, 63, 64, 65, 100, 128, 129, 500]


MODE = [""]      # per-history emphasis chosen by gen_history: "" | "aligned" | "solid"


def rand_flags(r, filled):
    f = 0
    mode = MODE[0]
    if UNIFORM[0]:        # statistics on, over-allocation allowed most of the time
        return (NO_OVER if r.random() < 0.2 else 0) | (NO_EXTEND if filled and r.random() < 0.5 else 0) | (SOLID if r.random() < 0.2 else 0)
    if r.random() < (0.15 if mode == "solid" else 0.5):
        f |= NO_OVER
    if r.random() < (0.6 if filled else 0.15):
        f |= NO_EXTEND
    if r.random() < (0.5 if mode == "aligned" else 0.15):
        f |= ALIGNED
    if r.random() < (0.05 if mode == "solid" else 0.3):
        f |= NO_STATS
    if r.random() < (0.6 if mode == "solid" else 0.2):
        f |= SOLID
    if r.random() < 0.05:
        f |= SYNC_BMAP
    return f


UNIFORM = [0]     # > 0: "uniform" profile - all regions about this many blocks (tight allocation statistics, holes one block off)


def rand_len(r, cfg, big=False):
    if UNIFORM[0] and not big:
        return max(1, (UNIFORM[0] + r.choice([-1, 0, 0, 0, 1, 1, 2])) * cfg.bsz - r.choice([0, 0, 1]))
    blk = r.randrange(2000, 40000) if big else r.choice(SIZES)
    return max(1, blk * cfg.bsz - r.choice([0, 0, 0, 1, cfg.bsz - 1, cfg.bsz // 2]))


def rand_hint(r, cfg):
    k = r.random()
    if k < 0.4:
        return "0"
    if k < 0.7:
        return "#%d" % r.randrange(1000)
    if k < 0.85:
        return "#%d+%d" % (r.randrange(1000), r.choice([cfg.bsz, 4 * cfg.bsz, 64 * cfg.bsz, 7]))
    return str(r.randrange(0, 40000 * cfg.bsz))


def gen_aligned_frag(r, cfg, reopen=False):
    """page-aligned requests against fragmented space: the file is filled with regions of 0.6-1.9 pages, every second one
    is released (holes start off page boundaries), then one-page PAGE_ALIGNED requests run through best fit, the
    'length + one page' retry and the full scan of _fsm_blk_allocate_aligned_lw; `check` compares index and bitmap"""
    ops = [cfg.line(), "check"]
    ppb = max(1, PAGE // cfg.bsz)
    n = 0
    fl = NO_EXTEND | NO_OVER | NO_STATS
    for _ in range(r.randrange(40, 90)):
        blks = r.randrange(max(1, ppb * 6 // 10), max(2, 2 * ppb))      # every hole is shorter than request + one page
        ops.append("alloc %d 0 %d" % (blks * cfg.bsz, fl))
        n += 1
    # eat what is left so that no big tail block exists
    for pw in range(15, -1, -1):
        ops.append("alloc %d 0 %d" % ((1 << pw) * cfg.bsz, fl))
        n += 1
    for i in range(0, n - 16, 2):
        if r.random() < 0.85:
            ops.append("dealloc #%d" % i)
    ops.append("check")
    for _ in range(r.randrange(4, 14)):
        f2 = ALIGNED | r.choice([NO_EXTEND, NO_EXTEND, 0]) | r.choice([0, NO_STATS]) | r.choice([0, NO_OVER])
        ops.append("alloc %d %s %d" % (max(1, r.choice([ppb, ppb, ppb - 1, ppb // 2 + 1, ppb + 3])) * cfg.bsz, rand_hint(r, cfg), f2))
        ops.append("check")
        if r.random() < 0.3:
            ops.append("alloc %d 0 %d" % (r.choice(SIZES) * cfg.bsz, NO_EXTEND | NO_OVER))
    if reopen and r.random() < 0.5:
        ops += ["check", "reopen", "check"]
    ops.append("check")
    return ops


def gen_history(r, cfg, nops, reopen=False, freeall=None):
    """mostly valid allocate/reallocate/deallocate mix; `reopen` adds sync/reopen/clear"""
    UNIFORM[0] = 0
    if freeall is None and r.random() < 0.18:
        return gen_aligned_frag(r, cfg, reopen)
    ops = [cfg.line(), "check"]
    MODE[0] = r.choice(["", "", "aligned", "solid"])
    UNIFORM[0] = r.choice([8, 10, 16, 40]) if (MODE[0] == "" and r.random() < 0.55) else 0
    filled = r.random() < (0.85 if MODE[0] == "aligned" else 0.6)
    nalloc = 0
    if filled:
        # consume the free tail with NO_EXTEND allocations of decreasing powers of two
        stop = r.choice([0, 0, 1, 3, 6])
        fl = NO_EXTEND | NO_OVER | r.choice([0, NO_STATS])
        for p in range(15, stop - 1, -1):
            for _ in range(2 if p < 15 else 1):
                ops.append("alloc %d %s %d" % ((1 << p) * cfg.bsz, "0", fl))
                nalloc += 1
        ops.append("check")
    bigs = 0
    since = 0
    # one request of 4 GiB or more (length arithmetic beyond 32 bits); only without byte patterns and with blocks of >= 512 bytes,
    # where bitmap and model stay small (the file is not extended without SOLID)
    huge = cfg.pat == 0 and cfg.bpow >= 9 and r.random() < 0.3
    for step in range(nops):
        k = r.random()
        if k < 0.38:
            big = r.random() < 0.04 and bigs < 2
            bigs += big
            fl = rand_flags(r, filled)
            if big:
                fl &= ~NO_EXTEND
            if cfg.pat == 0 and big:
                fl &= ~SOLID
            ops.append("alloc %d %s %d" % (rand_len(r, cfg, big), rand_hint(r, cfg), fl))
            nalloc += 1
        elif k < 0.68:
            if r.random() < 0.3:
                ops.append("dealloc #%d %d %d" % (r.randrange(1000), r.randrange(0, 70), r.randrange(1, 70)))
                nalloc += 1
            else:
                ops.append("dealloc #%d" % r.randrange(1000))
        elif k < 0.82:
            fl = rand_flags(r, filled)
            if not cfg.pat:
                fl |= SOLID      # keep the copy destination inside the file (exfile's copy of ranges past EOF belongs to C12)
            nl = 0 if r.random() < 0.03 else rand_len(r, cfg)
            ops.append("realloc #%d %d %d" % (r.randrange(1000), nl, fl))
        elif k < 0.88:
            ops.append("status #%d = %d" % (r.randrange(1000), r.randrange(2)))
        elif reopen and k < 0.93:
            o = r.choice(["sync", "reopen", "reopen", "reopen", "clear 0", "clear 1"])
            if o == "reopen":
                ops.append("check")      # the oracle compares the states right before and right after
            ops.append(o)
            if o != "sync":
                ops.append("check")
                since = 0
        else:
            ops.append("check")
            since = 0
        since += 1
        if since >= 12:
            ops.append("check")
            since = 0
    if huge:
        # (at the end of the history: nothing but releases follows, so no later request has to extend the file past 4 GiB)
        ops.append("alloc %d 0 %d" % ((1 << 32) * r.choice([1, 1, 2]) + r.choice([2 * cfg.bsz, (1 << 20) + 1, 3 * cfg.bsz - 1]), NO_OVER | NO_STATS))
        ops.append("check")
        nalloc += 1
        freeall = True if freeall is None else freeall
    if freeall is None:
        freeall = r.random() < 0.4
    if freeall:
        ops += ["check"] + ["dealloc #0"] * (nalloc + 2)
    if reopen and r.random() < 0.7:
        ops += ["check", "reopen"]
    ops.append("check")
    UNIFORM[0] = 0
    return ops


def gen_wordalign(r, cfg, s=None, e=None):
    """free a sub-range [s, e) of a 256-block region that starts on a 64-block boundary, then its neighbours"""
    ops = [cfg.line()]
    # a region of 256 blocks whose first block number is a multiple of 64: page-aligned for 64-byte blocks,
    # otherwise made by padding allocations
    blocks = 256
    ops.append("alloc %d 0 %d" % (blocks * cfg.bsz, ALIGNED | NO_OVER | NO_STATS))
    s = r.randrange(0, 200) if s is None else s
    e = r.randrange(s + 1, 257) if e is None else e
    ops.append("dealloc #0 %d %d" % (s, e - s))
    ops.append("check")
    # neighbours: pieces left [0,s) is #0 (if s>0), right [e,256) appended
    for _ in range(r.randrange(0, 4)):
        ops.append("dealloc #%d %d %d" % (r.randrange(4), r.randrange(0, 256), r.randrange(1, 256)))
        ops.append("check")
    ops += ["dealloc #0"] * 8
    ops.append("check")
    return ops


# ---------------------------------------------------------------------------------------------------------
# oracle

class Fail(Exception):
    def __init__(self, cls, msg):
        Exception.__init__(self, msg)
        self.cls = cls


def parse_ext(s):
    if s == "-" or s == "":
        return []
    return [tuple(int(x) for x in p.split(":")) for p in s.split(",")]


def parse_kv(words):
    d = {}
    for w in words:
        if "=" in w:
            k, v = w.split("=", 1)
            d[k] = v
    return d


class Shadow:
    """the oracle's own picture of the file: live regions (bytes), bitmap location, sizes"""

    def __init__(self, cfg):
        self.cfg = cfg
        self.live = {}          # addr -> len
        self.bm = None          # (off, len) bytes
        self.fsize = None
        self.trusted = True     # False after a deliberately invalid call: conservation is then not checked
        self.last_check = None

    def overlaps(self, a, l, skip=None):
        for x, n in self.live.items():
            if x != skip and a < x + n and x < a + l:
                return (x, n)
        return None

    def reserved_clash(self, a, l):
        if a < self.cfg.hdrlen:
            return "file header [0,%d)" % self.cfg.hdrlen
        if self.bm and a < self.bm[0] + self.bm[1] and self.bm[0] < a + l:
            return "bitmap [%d,%d)" % (self.bm[0], self.bm[0] + self.bm[1])
        return None

    def free_range(self, a, l):
        for x, n in list(self.live.items()):
            if x <= a and a + l <= x + n:
                del self.live[x]
                if a > x:
                    self.live[x] = a - x
                if a + l < x + n:
                    self.live[a + l] = x + n - (a + l)
                return True
        return False


def check_new_region(sh, what, req, flags, addr, ln, fs, skip=None):
    cfg = sh.cfg
    if addr % cfg.bsz or ln % cfg.bsz:
        raise Fail("align", "%s returned [%d,+%d) not aligned to the block size %d" % (what, addr, ln, cfg.bsz))
    if flags & ALIGNED and addr % PAGE:
        raise Fail("align", "%s with PAGE_ALIGNED returned address %d" % (what, addr))
    need = roundup(req, cfg.bsz)
    if ln < need:
        raise Fail("len", "%s of %d bytes returned only %d" % (what, req, ln))
    if (flags & (NO_OVER | ALIGNED)) and ln != need:
        raise Fail("len", "%s of %d bytes without over-allocation returned %d (expected %d)" % (what, req, ln, need))
    if flags & SOLID and fs is not None and fs < addr + ln:
        raise Fail("solid", "%s with SOLID returned [%d,+%d) but the file has %d bytes" % (what, addr, ln, fs))
    o = sh.overlaps(addr, ln, skip)
    if o:
        raise Fail("double-alloc", "%s returned [%d,+%d) which overlaps the live region [%d,+%d)" % (what, addr, ln, o[0], o[1]))
    c = sh.reserved_clash(addr, ln)
    if c:
        raise Fail("overlap-reserved", "%s returned [%d,+%d) inside the %s" % (what, addr, ln, c))


def oracle_history(cfg, ops, out):
    """returns None or (cls, message)"""
    try:
        return _oracle_history(cfg, ops, out)
    except Fail as f:
        return (f.cls, str(f))


def _oracle_history(cfg, ops, out):
    sh = Shadow(cfg)
    prev_closed_expect = None
    for i, (op, o) in enumerate(zip(ops, out)):
        w = op.split()
        ow = o.split()
        kv = parse_kv(ow)
        if "bm" in kv:
            b = kv["bm"].split(",")
            sh.bm = (int(b[0]), int(b[1]))
        if w[0] == "open":
            if ow[1] != "0":
                raise Fail("open", "open failed: %s" % o)
        elif w[0] == "alloc":
            req, flags = int(w[1]), int(w[3])
            if ow[1] == "0":
                addr, ln, fs = int(ow[2]), int(ow[3]), int(ow[4])
                check_new_region(sh, "allocate", req, flags, addr, ln, fs)
                sh.live[addr] = ln
            elif ow[1] == "NO_FREE_SPACE":
                if not flags & NO_EXTEND:
                    raise Fail("nospace", "allocate without NO_EXTEND reported NO_FREE_SPACE")
            else:
                raise Fail("alloc-rc", "allocate %s failed with %s" % (op, ow[1]))
        elif w[0] == "dealloc":
            if ow[1] == "none":
                continue
            a, l = int(ow[2]), int(ow[3])
            if ow[1] != "0":
                raise Fail("dealloc-rc", "release of the live range [%d,+%d) refused: %s" % (a, l, ow[1]))
            if not sh.free_range(a, l):
                raise Fail("harness", "harness released [%d,+%d) which the oracle does not know as live" % (a, l))
        elif w[0] == "realloc":
            if ow[1] == "none":
                continue
            oa, ol, na, nl = int(ow[2]), int(ow[3]), int(ow[4]), int(ow[5])
            req, flags = int(w[2]), int(w[3])
            if ow[1] == "0":
                if sh.live.get(oa) != ol:
                    raise Fail("harness", "reallocate of unknown region [%d,+%d)" % (oa, ol))
                if kv.get("pat") != "ok":
                    raise Fail("pattern", "reallocate [%d,+%d) -> [%d,+%d) did not preserve the bytes" % (oa, ol, na, nl))
                # the bytes the allocator moved (arguments of its pool.copy call): read only what the caller held, write only
                # into the new region, and carry min(old, new) bytes when the region moved
                cp = kv.get("cp")
                if cp is not None:
                    keep = min(ol, nl)
                    if cp == "-":
                        if na != oa and keep:
                            raise Fail("realloc-copy", "reallocate moved [%d,+%d) to %d without copying" % (oa, ol, na))
                    elif cp == "multi":
                        raise Fail("realloc-copy", "reallocate [%d,+%d) copied more than once" % (oa, ol))
                    else:
                        cf, cn, ct = (int(x) for x in cp.split(","))
                        if cn and (cf < oa or cf + cn > oa + ol):
                            raise Fail("realloc-copy", "reallocate [%d,+%d) -> [%d,+%d) copies %d bytes from %d: reads outside the old region" % (oa, ol, na, nl, cn, cf))
                        if cn and (ct < na or ct + cn > na + nl):
                            raise Fail("realloc-copy", "reallocate [%d,+%d) -> [%d,+%d) copies %d bytes to %d: writes outside the new region" % (oa, ol, na, nl, cn, ct))
                        if na != oa and (cf != oa or ct != na or cn < keep):
                            raise Fail("realloc-copy", "reallocate [%d,+%d) -> [%d,+%d) copies %d bytes %d -> %d: not the first %d bytes of the region" % (oa, ol, na, nl, cn, cf, ct, keep))
                del sh.live[oa]
                if nl:
                    if roundup(req, cfg.bsz) > ol:
                        check_new_region(sh, "reallocate", req, flags, na, nl, None)
                    else:
                        if na != oa or nl != roundup(req, cfg.bsz):
                            raise Fail("len", "shrinking reallocate [%d,+%d) to %d gave [%d,+%d)" % (oa, ol, req, na, nl))
                    sh.live[na] = nl
                elif req != 0:
                    raise Fail("len", "reallocate to %d bytes returned length 0" % req)
            elif ow[1] == "NO_FREE_SPACE":
                if not flags & NO_EXTEND:
                    raise Fail("nospace", "reallocate without NO_EXTEND reported NO_FREE_SPACE")
            else:
                raise Fail("realloc-rc", "reallocate %s failed with %s" % (op, ow[1]))
        elif w[0] == "status":
            if not sh.live or not sh.trusted:
                continue
            # the region is live: asking "allocated?" must succeed, asking "free?" must fail
            want = "0" if w[3] == "1" else "FSM_SEGMENTATION"
            if ow[1] != want:
                raise Fail("status", "allocation status (%s) of a live region answered %s" % (w[3], ow[1]))
        elif w[0] == "check":
            check_state(sh, kv, o)
        elif w[0] == "sync":
            if ow[1] != "0":
                raise Fail("sync", o)
        elif w[0] == "reopen":
            if ow[1] != "0":
                raise Fail("reopen", "close/reopen failed: %s" % o)
            sh.closed_size = int(ow[2])
            sh.pre = sh.last_check
            sh.expect_reopen = True
        elif w[0] == "clear":
            if ow[1] != "0":
                raise Fail("clear", o)
            sh.live = {}
            sh.expect_clear = True
    return None


def check_state(sh, kv, line):
    cfg = sh.cfg
    if "!fsmnum" in line:
        raise Fail("index-mismatch", "free-extent counter disagrees with the index: %s" % line[:200])
    if "lsnr=bad" in line:
        raise Fail("listener", "the data listener did not see every change of the bitmap area")
    bmoff, bmlen, fsize = int(kv["bmoff"]), int(kv["bmlen"]), int(kv["fsize"])
    sh.bm = (bmoff, bmlen)
    tree = parse_ext(kv["tree"])
    runs = parse_ext(kv["runs"])
    if sorted(tree) != runs:
        a, b = set(tree), set(runs)
        raise Fail("index-mismatch", "free-space index differs from the zero runs of the bitmap: only in index %s, only in bitmap %s" % (
            sorted(a - b)[:6], sorted(b - a)[:6]))
    if sorted(tree, key=lambda x: (x[1], x[0])) != tree or len(set(tree)) != len(tree):
        raise Fail("index-mismatch", "index not ordered by (length, offset)")
    if kv.get("live") != "ok":
        raise Fail("pattern", "bytes of a live region changed: %s" % kv.get("live"))
    if bmoff % PAGE or bmlen % PAGE or bmoff < cfg.hdrlen:
        raise Fail("bitmap-place", "bitmap at [%d,+%d)" % (bmoff, bmlen))
    nb = bmlen * 8
    # every live block, the header and the bitmap are allocated; nothing else is (conservation)
    used = [(0, cfg.hdrlen // cfg.bsz), (bmoff // cfg.bsz, bmlen // cfg.bsz)] + [(a // cfg.bsz, l // cfg.bsz) for a, l in sh.live.items()]
    used.sort()
    exp = []
    pos = 0
    for a, l in used:
        if a < pos:
            raise Fail("double-alloc", "live regions / header / bitmap overlap at block %d" % a)
        if a > pos:
            exp.append((pos, a - pos))
        pos = a + l
    if pos > nb:
        raise Fail("bitmap-place", "a live region ends at block %d beyond the bitmap's %d blocks" % (pos, nb))
    if pos < nb:
        exp.append((pos, nb - pos))
    if sh.trusted and exp != runs:
        a, b = set(exp), set(runs)
        raise Fail("conserve", "free runs of the bitmap are not the complement of live regions + header + bitmap: expected only %s, found only %s" % (
            sorted(a - b)[:6], sorted(b - a)[:6]))
    if getattr(sh, "expect_reopen", False):
        sh.expect_reopen = False
        pre = sh.pre
        if pre is not None:
            # closing trims the file to the end of the last used block (rounded to the page); never grows it
            last = max([bmoff + bmlen] + [a + l for a, l in sh.live.items()])
            want = pre["fsize"] if cfg.notrim else min(pre["fsize"], roundup(last, PAGE))
            if sh.closed_size != want:
                raise Fail("trim-size", "file has %d bytes after close, expected %d (last used byte %d, size before %d, trim %s)" % (
                    sh.closed_size, want, last, pre["fsize"], "off" if cfg.notrim else "on"))
            if pre["crz"] != kv["crz"] and pre["tree"] != "-":     # a file without any free block is closed without writing the header
                raise Fail("reopen-meta", "allocation statistics changed over reopen: %s -> %s" % (pre["crz"], kv["crz"]))
            if cfg.notrim and (pre["runs"] != kv["runs"] or pre["bmoff"] != kv["bmoff"]):
                raise Fail("reopen-state", "free space changed over close/reopen")
    if getattr(sh, "expect_clear", False):
        sh.expect_clear = False
        if bmoff != roundup(cfg.hdrlen, PAGE):
            raise Fail("clear", "after clear the bitmap is at %d" % bmoff)
    sh.last_check = dict(kv, fsize=fsize)
    sh.fsize = fsize


# ---------------------------------------------------------------------------------------------------------
# unit cases: bit scans, byte-wise load

def rand_words(r, n):
    out = []
    for _ in range(n):
        k = r.random()
        if k < 0.3:
            v = 0
        elif k < 0.4:
            v = (1 << 64) - 1
        elif k < 0.7:
            v = 0
            for _ in range(r.randrange(1, 4)):
                v |= 1 << r.randrange(64)
        else:
            v = r.getrandbits(64)
        out.append(v)
    return out


def case_scan(r):
    n = r.randrange(1, 5)
    words = rand_words(r, n)
    hexs = b"".join(v.to_bytes(8, "little") for v in words).hex()
    nb = 64 * n
    bits = [(words[i // 64] >> (i % 64)) & 1 for i in range(nb)]
    ops, exp = [], []
    for _ in range(12):
        a = r.choice([0, 1, 63, 64, 65, 127, 128, r.randrange(nb + 1), r.randrange(nb + 1)])
        b = r.choice([nb, nb, r.randrange(nb + 1), 64, 128, 0])
        a, b = min(a, nb), min(b, nb)
        if r.random() < 0.5:
            ops.append("scan next %s %d %d" % (hexs, a, b))
            hit = next((i for i in range(a, b) if bits[i]), None)
        else:
            # lower bound as the code uses it: 0, or not above the start of the word that holds bit a-0
            # (otherwise `size -= bit` wraps around in _fsm_find_prev_set_bit; no caller does that)
            if b > a - a % 64:
                b = r.choice([0, a - a % 64, r.randrange(0, a - a % 64 + 1)])
            ops.append("scan prev %s %d %d" % (hexs, a, b))
            hit = next((i for i in range(a - 1, b - 1, -1) if bits[i]), None)
        exp.append("scan 0 0" if hit is None else "scan 1 %d" % hit)

    def oracle(out, exp=exp, ops=ops):
        for o, e, op in zip(out, exp, ops):
            if o != e:
                return ("scan", "%s answered `%s`, the naive scan gives `%s`" % (op, o, e))
        return None
    return Case("scan", ops, oracle)


def case_load(r):
    n = r.randrange(1, 40)
    bs = bytes(r.choice([0, 0, 0, 255, 255, r.randrange(256), 1, 128, 254, 127]) for _ in range(n))
    runs, st = [], None
    for i in range(n * 8 + 1):
        s = 1 if i == n * 8 else (bs[i >> 3] >> (i & 7)) & 1
        if not s and st is None:
            st = i
        elif s and st is not None:
            runs.append((st, i - st))
            st = None
    exp = "load " + (",".join("%d:%d" % x for x in runs) or "-")

    def oracle(out, exp=exp, bs=bs):
        return None if out[0] == exp else ("load", "loading bitmap %s gave `%s`, the zero runs are `%s`" % (bs.hex(), out[0][:200], exp[:200]))
    return Case("load", ["load " + bs.hex()], oracle)


def case_leaf(r):
    vs = rand_words(r, 6)
    ops, exp = [], []
    for v in vs:
        ops.append("rev %d" % v)
        exp.append("rev %d" % int(format(v, "064b")[::-1], 2))
        if v:
            ops.append("ffs %d" % v)
            exp.append("ffs %d" % ((v & -v).bit_length() - 1))

    def oracle(out, exp=exp, ops=ops):
        for o, e, op in zip(out, exp, ops):
            if o != e:
                return ("leaf", "%s answered `%s`, expected `%s`" % (op, o, e))
        return None
    return Case("bits-leaf", ops, oracle)


# ---------------------------------------------------------------------------------------------------------

def history_case(kind, cfg, ops):
    def oracle(out, cfg=cfg, ops=ops):
        return oracle_history(cfg, ops, out)
    return Case(kind, ops, oracle)


def signature(case, prob):
    """failure signature for known-findings matching: kind, case kind, sym (oracle class or crash site), mmap mode, strict"""
    w = case.ops[0].split() if case.ops else []
    mm = ("all" if w[4] == "1" else "partial") if len(w) == 9 and w[0] == "open" else "-"
    strict = w[5] if len(w) == 9 and w[0] == "open" else "-"
    if prob[0] == "crash":
        return dict(kind="crash", op=case.kind, sym=prob[1]["site"], what=prob[1]["kind"], mmap=mm, strict=strict)
    if prob[0] == "oracle":
        m = prob[1]
        cls = m[0] if isinstance(m, tuple) else "oracle-error"
        return dict(kind="oracle", op=case.kind, sym=cls, mmap=mm, strict=strict)
    return dict(kind=prob[0], op=case.kind, mmap=mm, strict=strict)


def build(ctx):
    impl = C.build_impl("asan")
    return C.build_harness(impl, "h_c10", ["h_c10.c"], exclude=("iwfsmfile.c",))


def explore(ctx, h, drv, cases, label, dbname="fsm"):
    for c in cases[:4]:
        ctx.sample(dict(kind=c.kind, ops=c.ops[:6] + (["..."] if len(c.ops) > 6 else []), nops=len(c.ops)))
    probs = differential(ctx, [h, C.scratch() + "/%s.fsm" % dbname], [drv, "c10"] if drv else None, cases, timeout=1500)
    for c in cases:
        if c.impl:
            for op, o in zip(c.ops, c.impl):
                w = op.split()[0]
                ctx.hist("op:" + w)
                if w in ("alloc", "realloc", "dealloc", "rawdealloc", "rawrealloc", "status"):
                    ctx.hist("rc:%s:%s" % (w, o.split()[1] if len(o.split()) > 1 else "?"))
            track_branches(ctx, c)
    for c, p in probs:
        if p[0] == "diverge":
            ctx.corr_broken.append("model/implementation diverge in a `%s` case at op %d `%s`: impl `%s` model `%s`" % (
                c.kind, p[1], c.ops[p[1]] if p[1] < len(c.ops) else "?", str(p[2])[:160], str(p[3])[:160]))
            if len(ctx.corr_broken) <= 4:
                ctx.log("DIVERGE", c.kind, "op", p[1], (c.ops[p[1]] if p[1] < len(c.ops) else "?")[:80], "| impl:", str(p[2])[:200], "| model:", str(p[3])[:200])
        else:
            what = p[1][1] if p[0] == "oracle" and isinstance(p[1], tuple) else str(p[1])
            ctx.fail(signature(c, p), dict(case=c.kind, ops=c.ops, impl=c.impl, detail=[str(x)[:2000] for x in p[1:]]), str(what)[:400])
    return probs


def track_branches(ctx, c):
    """branch tags visible in the outputs: bitmap growth / relocation, aligned allocations, over-allocation, trims"""
    bm = None
    for op, o in zip(c.ops, c.impl):
        kv = parse_kv(o.split())
        b = kv.get("bm") or (kv.get("bmoff") and "%s,%s" % (kv["bmoff"], kv["bmlen"]))
        if b:
            if bm and b != bm:
                ob, nb = bm.split(","), b.split(",")
                ctx.hist("branch:bitmap-grown" if int(nb[1]) > int(ob[1]) else "branch:bitmap-moved-lower" if int(nb[0]) < int(ob[0]) else "branch:bitmap-moved")
            bm = b
        w, ow = op.split(), o.split()
        if len(ow) < 2:
            continue        # `bad-op` after a failed open/reopen: the oracle reports that
        if w[0] == "alloc" and ow[1] == "0":
            fl = int(w[3])
            if fl & ALIGNED:
                ctx.hist("branch:aligned-alloc")
            elif not fl & NO_OVER and int(ow[3]) > roundup(int(w[1]), 1 << (int(c.ops[0].split()[1]) or 6)):
                ctx.hist("branch:over-allocated")
        if w[0] == "realloc" and ow[1] == "0" and len(ow) > 4:
            ctx.hist("branch:realloc-moved" if ow[2] != ow[4] else "branch:realloc-shrunk-in-place")
        if w[0] == "reopen" and len(ow) > 2:
            ctx.hist("branch:reopen")


def replay(ctx, obj):
    h = build(ctx)
    ops = obj["replay"]["ops"]
    rc, o, e = C.run_lines([h, C.scratch() + "/replay.fsm"], ops, timeout=300)
    for a, b in list(zip(ops, o))[-40:]:
        print(a, "->", b[:300])
    print(e[-2000:])
    w = ops[0].split()
    if w[0] == "open":
        cfg = Cfg(*[int(x) for x in w[1:9]])
        print("oracle:", oracle_history(cfg, ops, o))
    ctx.case("replay")
    ctx.case("replay2")
