"""C01: the KV store behaves as an ordered map for every operation history."""
import time
from vlib import common as C
from vlib.diff import Case, differential
from checks import kvgen as G

LEVEL = "proof"
MODULE = "IwModel.Props.C01"
THEOREMS = [
    "IwModel.C01.spec_put_desc",
    "IwModel.C01.spec_get_put_self",
    "IwModel.C01.spec_get_put_other",
    "IwModel.C01.spec_del_desc",
    "IwModel.C01.spec_get_del_self",
    "IwModel.C01.spec_get_del_other",
    "IwModel.C01.spec_get_iff_mem",
    "IwModel.C01.get_refines",
    "IwModel.C01.put_refines",
    "IwModel.C01.put_no_overwrite",
    "IwModel.C01.del_refines",
    "IwModel.C01.history_refines",
    "IwModel.C01.history_refines_from",
    "IwModel.C01.put_error_preserves_state",
    "IwModel.C01.put_line_error_preserves_state",
    "IwModel.C01.put_db_frame",
    "IwModel.C01.del_db_frame",
    "IwModel.C01.metaSet_db_frame",
    "IwModel.C01.key_roundtrip_plain",
    "IwModel.C01.key_roundtrip_vnum8",
    "IwModel.C01.key_roundtrip_vnum4",
    # bridge to C19: the comparator the store uses satisfies the hypothesis of the theorems above
    "IwModel.C01.history_refines_on",
    "IwModel.C01.history_refines_on_from",
    "IwModel.C01.comparator_strict_total",
    "IwModel.C01.comparator_strict_total_subtype",
    "IwModel.C01.api_keys_valid",
    "IwModel.C01.store_refines_map",
    "IwModel.C01.store_map_laws",
    "IwModel.C01.plain_store_refines_map",
    "IwModel.C01.compound_store_refines_map",
    "IwModel.C01.vnum_store_refines_map",
    "IwModel.C01.real_store_refines_map",
    # the property as written: whole store (several databases, all put flavours, metadata) against the
    # reference map of Model/KvApiSpec.lean
    "IwModel.C01.api_put_refines",
    "IwModel.C01.api_get_refines",
    "IwModel.C01.api_getcopy_refines",
    "IwModel.C01.api_del_refines",
    "IwModel.C01.api_meta_refines",
    "IwModel.C01.api_opendb_refines",
    "IwModel.C01.api_destroydb_refines",
    "IwModel.C01.api_step_refines",
    "IwModel.C01.api_history_refines_from",
    "IwModel.C01.api_history_refines",
    "IwModel.C01.api_history_spec_sorted",
    "IwModel.C01.spec_error_preserves",
    "IwModel.C01.api_error_preserves_contents",
    "IwModel.C01.spec_db_frame",
    "IwModel.C01.api_db_frame",
]
# C functions this check's models mirror (source-text fingerprints are recorded in the evidence, see translate/funchash.py)
MODELLED_FUNCS = {'src/kv/iwkv.c': ['_to_effective_key', '_unpack_effective_key', '_lx_find_bounds', '_lx_roll_forward', '_lx_addkv', '_lx_split_addkv', '_lx_put_lw', '_lx_get_lr', '_lx_del_lw', '_lx_del_sblk_lw', '_sblk_find_pi_mm', '_sblk_genlevel', 'iwkv_puth', 'iwkv_get', 'iwkv_get_copy', 'iwkv_del', 'iwkv_db_set_meta', 'iwkv_db_get_meta', 'iwkv_db']}
MANIFEST = dict(
    level="proof",
    text=("Lean 4 refinement theorems: the node-level model of iwkv (routing, add-to-upper, split at slot 17, node removal) "
          "simulates the ordered-map spec for every history and every level choice, and the whole API model (several databases of any "
          "key mode, put plain/no-overwrite/increment/handler, get, get-copy, delete, metadata, db create/destroy) returns for every "
          "history exactly the lines and contents of the reference map (api_history_refines, no hypothesis); errors leave every "
          "database unchanged, databases are framed; the model is tied to the code by replaying generated histories (all six key modes, 1-3 databases, WAL on/off, forced "
          "skip-list levels, values up to 70 KB) through the public API and comparing every result, full dumps and node boundaries with "
          "the compiled Lean model and with an independent python reference map"),
    note=("trusted: Lean kernel, harness/generators, python reference; modelled not verified: C control flow of iwkv.c; byte-level "
          "block packing is not in this model (see C06); I/O and allocation failures are not modelled"),
    technique="Lean 4 refinement proof (node model -> ordered map) + differential correspondence on API histories")

HARNESS = ("h_kv", ["h_kv.c"], ("iwkv.c",))


def gen_history(r, nops, ndb=None, wal=None, big=True):
    """a self-contained history: open(trunc) ... dumps ... close"""
    wal = r.randrange(2) if wal is None else wal
    ops = ["open %d 1 0" % wal]
    ndb = ndb or r.choice([1, 1, 2, 3])
    dbs = []
    for i in range(1, ndb + 1):
        fl = r.choice(G.FLAG_COMBOS)
        ops.append("db %d %d" % (i, fl))
        dbs.append((i, fl, G.make_pool(r, fl, r.choice([12, 40, 90, 200]))))
    metas = {i: 0 for i, _, _ in dbs}
    for _ in range(nops):
        i, fl, pool = r.choice(dbs)
        k, c = r.choice(pool)
        x = r.random()
        if x < 0.50:
            v = G.gen_value(r, big)
            y = r.random()
            of, ph = 0, 0
            if y < 0.12:
                of = G.NO_OVERWRITE
            elif y < 0.22:
                of = G.INCREMENT | (G.NO_OVERWRITE if r.random() < 0.3 else 0)
                if r.random() < 0.8:
                    v = r.choice([1, 255, 2 ** 31 - 1, -1, -300, 2 ** 40]).to_bytes(8, "little", signed=True)[:r.choice([4, 8])]
            elif y < 0.30:
                ph = 1
            elif y < 0.36:
                ph = 2
            ops.append("put %d %s %d %s %d %d%s" % (i, G.H(k), c, G.H(v), of, G.gen_level(r), " %d" % ph if ph else ""))
        elif x < 0.66:
            ops.append("del %d %s %d" % (i, G.H(k), c))
        elif x < 0.80:
            ops.append("get %d %s %d" % (i, G.H(k), c))
        elif x < 0.86:
            ops.append("getc %d %s %d %d" % (i, G.H(k), c, r.choice([0, 1, 4, 8, 100, 100000])))
        elif x < 0.89:
            m = bytes(r.randrange(256) for _ in range(r.choice([0, 1, 5, 127, 128, 129, 300, 1000])))
            if m:
                metas[i] = len(m)
            ops.append("mset %d %s" % (i, G.H(m)))
        elif x < 0.92:
            ops.append("mget %d %d %d" % (i, r.choice([0, 1, 64, 128, 2000]), metas[i]))
        elif x < 0.94:
            # malformed / error stream: wrong key width in integer mode, empty key, unknown database, too large integers
            bad = r.choice([b"", b"abc", b"\xff" * 8, b"\xff\xff\xff\xff", b"12345"])
            ops.append(r.choice(["put %d %s %d 7631 0 0", "get %d %s %d", "del %d %s %d"]) % (r.choice([i, 9]), G.H(bad), c))
        elif x < 0.97:
            ops.append("dump %d" % i)
        else:
            ops.append("nodes %d" % i)
    for i, _, _ in dbs:
        ops += ["dump %d" % i, "nodes %d" % i]
    ops.append("close")
    return ops


def make_case(r, nops, ops=None, **kw):
    ops = ops if ops is not None else gen_history(r, nops, **kw)
    ref = G.Ref()
    exp = [ref.apply(l) for l in ops]

    def oracle(out, ops=ops, exp=exp):
        for i, (o, e) in enumerate(zip(out, exp)):
            if e is not None and o != e:
                return "op %d `%s`: store answered `%s`, ordered reference map says `%s`" % (i, ops[i][:120], o[:200], e[:200])
        return None
    return Case("history", ops, oracle, key=hash(tuple(ops)))


def classify(ops):
    tags = set()
    for l in ops:
        w = l.split()
        tags.add(w[0])
    return tags


def signature(case, prob):
    if prob[0] == "crash":
        return dict(kind="crash", site=prob[1]["site"], what=prob[1]["kind"])
    return dict(kind=prob[0])


def shrink(ctx, h, case):
    """ddmin over the op lines of a failing history (keeps open/db/close lines)"""
    fixed = [l for l in case.ops if l.split()[0] in ("open", "db", "close")]
    body = [l for l in case.ops if l.split()[0] not in ("open", "db", "close")]
    head = [l for l in fixed if l.split()[0] != "close"]

    def opsig(l):
        w = l.split()
        return " ".join(w[:1] + (w[2:4] if w[0] == "cur" else []))[:24]

    def mismatches(ops):
        ref = G.Ref()
        exp = [ref.apply(l) for l in ops]
        if time.time() > deadline[0]:
            return []
        rc, o, e = C.run_lines_stall([h, C.scratch() + "/kv-shrink.db"], ops, timeout=30, stall=5)
        if rc != 0 or len(o) < len(ops):
            return ["crash"]
        return [opsig(l) for l, x, y in zip(ops, exp, o) if x is not None and x != y]
    deadline = [time.time() + 90]      # shrinking is a convenience: never let it dominate the run
    orig = mismatches(case.ops)
    want = orig[0] if orig else None

    def fails(sub):
        ms = mismatches(head + sub + ["close"])
        return bool(ms) and (want is None or ms[0] == want)
    small = C.ddmin(body, fails, budget=150)
    return head + small + ["close"]


def exactfit_cases(ctx, r, h, n, label):
    """histories that drive one data block to 0-3 free bytes and then grow values in place across the 127/128 record-length
    boundary (generator shared with C06, which audits the images; here every answer is compared with the reference map)"""
    from checks import c06
    cases = []
    for _ in range(n):
        g = c06.gen_exactfit_history(r, h, label)
        if g is None:
            continue
        ops = [l for l in g[0] if not l.startswith("image ")]
        keys = sorted({l.split()[2] for l in ops if l.startswith("put 1 ")})
        ops = ops[:-2] + ["get 1 %s 0" % k for k in keys] + ops[-2:]
        ctx.hist("exactfit:free-%d" % g[1]["free"])
        cases.append(make_case(r, 0, ops=ops))
    return cases


def page_cases(ctx, r, h, n, label):
    """node-page histories of C06 (all nodes of a 16-slot page but chosen ones removed, then a refill that reuses what the drain
    gave back), here judged by the reference map: every record that stayed must still be there, every answer must be right"""
    from checks import c06
    cases = []
    for i in range(n):
        c, info = c06.gen_page_history(r, h, label, i)
        if c is None:
            continue
        ops = [l for l in c.ops if not l.startswith("image ")]
        keys = sorted({l.split()[2] for l in ops if l.startswith("put 1 ")})
        ops = ops[:-1] + ["get 1 %s 0" % k for k in r.sample(keys, min(len(keys), 60))] + ["dump 1"] + ops[-1:]
        ctx.hist("pages:" + info["shape"])
        cases.append(make_case(r, 0, ops=ops))
    return cases


def lkey_cases(ctx, r, n):
    """one node whose keys share the 115 bytes a node caches of its first key (lengths 113..119): the first key is deleted again
    and again, every remaining key must still be found (the cache and its full-key flag are refreshed from the next key)"""
    cases = []
    for _ in range(n):
        fl = r.choice([0, 0, G.COMPOUND])
        pre = bytes(r.randrange(1, 256) for _ in range(r.choice([113, 114, 115, 115, 116])))
        keys = {pre + bytes(r.randrange(1, 256) for _ in range(r.choice([0, 1, 1, 2, 3, 4]))) for _ in range(r.choice([3, 5, 8]))}
        keys = sorted(keys)
        comp = (lambda: r.randrange(0, 3)) if fl & G.COMPOUND else (lambda: 0)
        recs = [(k, comp()) for k in keys]
        ops = ["open %d 1 0" % r.randrange(2), "db 1 %d" % fl]
        order = list(recs)
        r.shuffle(order)
        for k, c in order:
            ops.append("put 1 %s %d %s 0 0" % (G.H(k), c, G.H(G.gen_value(r, big=False))))
        live = sorted(set(recs), reverse=True)            # store order: greatest first
        while len(live) > 1:
            k, c = live.pop(0) if r.random() < 0.8 else live.pop(r.randrange(len(live)))
            ops.append("del 1 %s %d" % (G.H(k), c))
            for k2, c2 in live:
                ops.append("get 1 %s %d" % (G.H(k2), c2))
            if r.random() < 0.3:
                ops.append("put 1 %s %d %s 0 0" % (G.H(k), c, G.H(G.gen_value(r, big=False))))
                live = sorted(set(live + [(k, c)]), reverse=True)
                if len(ops) > 400:
                    break
        ops += ["dump 1", "close"]
        ctx.hist("lkey-case")
        cases.append(make_case(r, 0, ops=ops))
    return cases


def explore(ctx, h, drv, nhist, nops, label, exactfit=0, pages=0, **kw):
    r = C.Rng(ctx.seed, "c01/" + label)
    cases = [make_case(r, nops, **kw) for _ in range(nhist)]
    if exactfit:
        cases += exactfit_cases(ctx, r, h, exactfit, label)
    if pages:
        cases += page_cases(ctx, r, h, pages, label)
    if exactfit:
        cases += lkey_cases(ctx, r, max(6, exactfit // 2))
    for c in cases[:2]:
        ctx.sample(dict(kind="history", first_ops=c.ops[:12], n_ops=len(c.ops)))
    for c in cases:
        for l in c.ops:
            ctx.hist("op:" + l.split()[0])
    probs = differential(ctx, [h, C.scratch() + "/kv-%s.db" % label], [drv, "kv"] if drv else None, cases, timeout=900)
    for c, p in probs:
        if p[0] == "diverge":
            ctx.corr_broken.append("model/implementation diverge at op %d `%s`: impl `%s` model `%s`" % (p[1], c.ops[p[1]][:100], p[2][:160], p[3][:160]))
            if len(ctx.corr_broken) <= 3:
                import os
                os.makedirs(ctx.replay_dir, exist_ok=True)
                open(os.path.join(ctx.replay_dir, "diverge-%d.txt" % len(ctx.corr_broken)), "w").write("\n".join(c.ops[:p[1] + 1] + ["close"]) + "\n")
                ctx.log("DIVERGE", c.ops[p[1]][:100], "| impl:", p[2][:160], "| model:", p[3][:160])
        else:
            ops = c.ops
            if p[0] == "oracle" and len(ctx.violations) < 2:
                ops = shrink(ctx, h, c)
            ctx.fail(signature(c, p), dict(ops=ops, detail=p[1:]), str(p[1])[:400])
    return probs


def run(ctx):
    ctx.cov["rule"] = ("a case is one self-contained history (open+truncate, 1-3 databases with flags drawn from the six key modes, "
                       "key pools with shared 110-120 byte prefixes / integers around vnum thresholds / numeric strings, values 0-70000 bytes, "
                       "put plain/no-overwrite/increment/handler accept+reject, get, get-copy, delete, metadata, malformed keys, dumps and node "
                       "boundaries); distinct = distinct op text; every history is non-trivial (>= 50 ops)")
    ctx.assumptions += ["record-size limit (IWKV_MAX_KVSZ) is not exercised", "I/O and allocation failures are not injected"]
    ctx.translate()
    ok, drv_ok = ctx.prove(MODULE, THEOREMS)
    impl = C.build_impl("asan")
    h = C.build_harness(impl, *HARNESS[:2], exclude=HARNESS[2])
    drv = C.drv_path() if drv_ok else None
    if ctx.tier == "quick":
        explore(ctx, h, drv, 60, 300, "q", exactfit=12, pages=5)
        explore(ctx, h, drv, 4, 3000, "long", big=False)
    else:
        explore(ctx, h, drv, 600, 400, "t", exactfit=80, pages=40)
        explore(ctx, h, drv, 20, 10000, "tlong", big=False)
    if (ctx.proof_broken or ctx.corr_broken) and not ctx.violations:
        for i in range(3):
            explore(ctx, h, drv, 80, 400, "search%d" % i)


def replay(ctx, obj):
    impl = C.build_impl("asan")
    h = C.build_harness(impl, *HARNESS[:2], exclude=HARNESS[2])
    ops = obj["replay"]["ops"]
    ref = G.Ref()
    rc, o, e = C.run_lines([h, C.scratch() + "/kv-replay.db"], ops)
    for l, got in zip(ops, o):
        exp = ref.apply(l)
        print(l[:100], "|", got[:160], "" if exp in (None, got) else "  <<< reference: " + exp[:160])
    print(e[-2000:])
    ctx.case("replay"); ctx.case("replay2")
