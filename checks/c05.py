"""C05: a damaged or cut-off log tail never yields a state that is not a synced prefix."""
import os, struct
from vlib import common as C
from vlib.diff import Case, run_batch, san_site

LEVEL = "proof"
# C functions this check's models mirror (source-text fingerprints are recorded in the evidence, see translate/funchash.py)
MODELLED_FUNCS = {'src/kv/iwal.c': ['_last_fix_and_reset_points', '_rollforward_exl', '_recover_wl', '_write_wl', '_flush_wl']}
MANIFEST = dict(
    level="proof",
    text=("Lean 4 theorems over an executable byte-level model of the WAL pre-scan (_last_fix_and_reset_points) and roll-forward "
          "(_rollforward_exl/_recover_wl): for every log that starts with a separator and closes its segments at savepoints and every cut "
          "length, recovery succeeds in the state of a savepoint all of whose predecessors survive and not an older one than the last intact "
          "savepoint (recover_cut; recover_cut_reset for logs with reset marks from an online backup); a record either loop accepts lies "
          "completely in the file (applied_record_complete); with checksums on, changed bytes under a segment or payload checksum make "
          "recovery fail or leave an earlier savepoint state (crc_detects_partial, crc_detects_payload_partial, explicit hypotheses); every "
          "log a model of the writer (_write_wl/_flush_wl/_savepoint_exl/_checkpoint_exl, Model/WalWriter.lean) can leave in the file satisfies "
          "those well-formedness hypotheses (writer_log_wellformed), so recover_cut holds for every writer-produced log at every cut "
          "(writer_recover_cut). The "
          "model is tied to the code by recovering real logs (real iwkv histories incl. online-backup logs with reset marks and backup images) "
          "cut at/inside every record type and bit-flipped, through the real iwkv_open, plus synthetic logs through _rollforward_exl alone: "
          "main-file images are compared with the model, contents with recorded savepoint states (python dict reference); the theorem "
          "hypotheses are evaluated on every real log"),
    note=("trusted: Lean kernel, translator, harness/generators, gcc+ASan/UBSan, page-cache semantics of MAP_SHARED; modelled not verified: "
          "C control flow of the two loops; crc32 is abstract in the theorems (the changed bytes must hash differently, stored checksum non-zero); "
          "the separator header itself is not covered by a checksum; the writer is a Lean model tied byte for byte to the real log (C04 stream d) "
          "and its well-formedness is also still evaluated per real log; tree = /repo + fix commits "
          "4f5efbe b993ce2 0cbf31f 329967d; open finding F38 (corruption before the last reset mark of a backup-time log)"),
    technique="Lean 4 proof over executable model + differential correspondence (C harness vs compiled Lean driver)")
MODULE = "IwModel.Props.C05"
THEOREMS = ["IwModel.C05.recover_cut", "IwModel.C05.applied_record_complete", "IwModel.C05.crc_detects_partial", "IwModel.C05.crc_detects_payload_partial",
            "IwModel.C05.recover_cut_reset", "IwModel.C05.prescan_cut_savepoint", "IwModel.C05.segClosedB_sound", "IwModel.C05.segDisjointB_sound",
            "IwModel.C05.wal_layout_ok", "IwModel.C05.writer_log_wellformed", "IwModel.C05.writer_recover_cut"]

SEP, SET, COPY, WRITE, RESIZE, SAVEPOINT, RESET = 127, 1, 2, 3, 4, 5, 6
NAMES = {SEP: "sep", SET: "set", COPY: "copy", WRITE: "write", RESIZE: "resize", SAVEPOINT: "savepoint", RESET: "reset"}
HDR = {SEP: 12, SET: 24, COPY: 28, WRITE: 20, RESIZE: 20, SAVEPOINT: 12, RESET: 4}
WRAPS = ("ftruncate64", "pread64", "write")
M64 = (1 << 64) - 1


def fnv(h, b):
    for x in b:
        h = ((h ^ x) * 0x100000001b3) & M64
    return h


def mkval(ln, seed):
    return bytes((seed * 31 + i * 17 + (i >> 8)) & 0xff for i in range(ln))


_rh = {}


def rec_hash(dbid, key, ln, seed):
    k = (dbid, key, ln, seed)
    if k not in _rh:
        h = fnv(0xcbf29ce484222325, struct.pack("<II", dbid, len(key)))
        _rh[k] = fnv(fnv(h, key), mkval(ln, seed))
    return _rh[k]


def state_digest(st):
    """st: {dbid: {key: (len, seed)}} -> (digest, count, ndb) as the harness prints them"""
    d = n = 0
    for dbid, m in st.items():
        for key, (ln, seed) in m.items():
            d = (d + rec_hash(dbid, key, ln, seed)) & M64
            n += 1
    return "%016x:%d:%d" % (d, n, len(st))


def copy_state(st):
    return {k: dict(v) for k, v in st.items()}


# ------------------------------------------------------------------ histories (python dict = reference)

class Log:
    """one (pre-image, log) pair with the savepoint table of the run that produced it"""
    def __init__(self, **kw):
        self.__dict__.update(kw)


def gen_history(r, wd, tag, crc, nops, backup, grow=(60000, 120000, 200000)):
    """Returns op lines and a parallel list of reference actions."""
    path = os.path.join(wd, tag + ".db")
    ops = ["open %s %d %d" % (path, crc, r.choice([4096, 4096, 8192]))]
    acts = [("open",)]
    dbs = [1]
    ops.append("db 1"); acts.append(("db", 1))
    if r.random() < 0.5:
        ops.append("db 2"); acts.append(("db", 2)); dbs.append(2)
    # pre-grow the file so that the recorded part of the history is not cut short by forced checkpoints
    big = r.choice(grow)
    ops += ["put 1 %s %d 9" % (b"grow".hex(), big), "del 1 %s" % b"grow".hex(), "ckpt"]
    acts += [("put", 1, b"grow", big, 9), ("del", 1, b"grow"), ("ckpt",)]
    keys = [b"k%03d" % i for i in range(r.choice([8, 30, 60]))] + [bytes([65 + i]) * r.choice([40, 120, 200]) for i in range(3)]
    psync = r.choice([0.08, 0.15, 0.3])

    def one_op(inner=False):
        x = r.random()
        if x < psync:
            return "sync", ("sync",)
        if x < psync + 0.02 and len(dbs) < 4 and not inner:
            d = max(dbs) + 1
            dbs.append(d)
            return "db %d" % d, ("db", d)
        d = r.choice(dbs)
        k = r.choice(keys)
        if r.random() < 0.22:
            return "del %d %s" % (d, k.hex()), ("del", d, k)
        ln = r.choice([r.randrange(1, 40), r.randrange(1, 300), r.randrange(1, 300), r.randrange(300, 3000),
                       r.randrange(3900, 4300), r.randrange(4000, 9000)])
        seed = r.randrange(1, 250)
        return "put %d %s %d %d" % (d, k.hex(), ln, seed), ("put", d, k, ln, seed)

    for _ in range(nops):
        o, a = one_op()
        ops.append(o); acts.append(a)
    if backup:
        inner = []
        for _ in range(r.randrange(3, 12)):
            inner.append(one_op(True))
        inner.append(("ckpt", ("ckpt-bkp",)))
        for _ in range(r.randrange(2, 14)):
            inner.append(one_op(True))
        if r.random() < 0.4:
            inner.append(("ckpt", ("ckpt-bkp",)))
            for _ in range(r.randrange(1, 8)):
                inner.append(one_op(True))
        ops.append("backup %s %d %s %s" % (os.path.join(wd, tag + ".bkp"), len(inner), os.path.join(wd, tag + ".pre"), os.path.join(wd, tag + ".wal")))
        acts.append(("backup", len(inner)))
        for o, a in inner:
            ops.append(o); acts.append(a)
        ops.append("close"); acts.append(("close",))
        ops.append("split %s %s %s" % (os.path.join(wd, tag + ".bkp"), os.path.join(wd, tag + ".bpre"), os.path.join(wd, tag + ".bwal")))
        acts.append(("split",))
    else:
        if r.random() < 0.7:
            ops.append("sync"); acts.append(("sync",))
            for _ in range(r.randrange(0, 5)):      # unsynced tail
                o, a = one_op()
                if a[0] in ("put", "del"):
                    ops.append(o); acts.append(a)
            for _ in range(r.randrange(0, 4)):      # ... with segments flushed because the buffer filled up
                d, k, ln, seed = r.choice(dbs), r.choice(keys), r.randrange(3800, 9000), r.randrange(1, 250)
                ops.append("put %d %s %d %d" % (d, k.hex(), ln, seed)); acts.append(("put", d, k, ln, seed))
        ops.append("snap %s %s" % (os.path.join(wd, tag + ".pre"), os.path.join(wd, tag + ".wal")))
        acts.append(("snap",))
        ops.append("close"); acts.append(("close",))
    return ops, acts


def field(line, name):
    for w in line.split():
        if w.startswith(name + "="):
            return w[len(name) + 1:]
    return None


def run_history(ctx, h, r, wd, tag, crc, nops, backup, grow):
    """Runs one history on the real store, checks every savepoint dump against the python reference, returns Log objects."""
    ops, acts = gen_history(r, wd, tag, crc, nops, backup, grow)
    # interleave a `dig` after every savepoint-taking op so that the reference is validated while the log is written
    rc, out, err = C.run_lines([h], ops, timeout=300)
    if rc != 0 or len(out) != len(ops):
        kind, fn = san_site(err)
        ctx.fail(dict(kind="crash", phase="history", site=fn, what=kind), dict(ops=ops, stderr=err[-3000:]),
                 "history run died rc=%s after %d of %d ops: %s" % (rc, len(out), len(ops), err[-400:]))
        return []
    st = {}
    sps = [(0, state_digest(st))]      # (end offset of the savepoint record in the log, expected digest)
    resets = []
    logs = []
    bk_base = None
    inbk, rfo = False, "0"
    seq = list(zip(ops, acts, out))
    # outputs come in execution order: for `backup` the inner ops' lines precede the backup line
    order = []
    j = 0
    while j < len(seq):
        if seq[j][1][0] == "backup":
            k = seq[j][1][1]
            inner = [(seq[j + 1 + t][0], seq[j + 1 + t][1]) for t in range(k)]
            outs = [seq[j + t][2] for t in range(k + 1)]
            order.append((seq[j][0], ("backup-begin",), None))
            for t in range(k):
                order.append((inner[t][0], inner[t][1], outs[t]))
            order.append((seq[j][0], ("backup-end",), outs[k]))
            j += k + 1
        else:
            order.append(seq[j])
            j += 1
    for op, a, o in order:
        kind = a[0]
        if kind == "backup-begin":
            # stage WAL_CLEANUP takes a savepoint + checkpoint and truncates the log; the image's main part is this state
            sps = [(0, state_digest(st))]
            resets = []
            bk_base = state_digest(st)
            inbk, rfo = True, "0"
            continue
        w = o.split()
        if kind in ("put", "del"):
            ok = w[1] == "0" or (kind == "del" and w[1] == "notfound")
            if not ok:
                ctx.fail(dict(kind="oracle", phase="history", op=kind), dict(ops=ops, out=out), "%s failed: %s" % (op, o))
                return []
            if kind == "put":
                st.setdefault(a[1], {})[a[2]] = (a[3], a[4])
            elif w[1] == "0":
                st[a[1]].pop(a[2], None)
            if inbk and field(o, "rfo") != rfo:
                ctx.hist("hist-dropped-unplanned-checkpoint")
                return []
            if field(o, "rebased") == "1":
                sps = [(0, state_digest(st))]
                resets = []
                ctx.hist("hist-forced-checkpoint")
            elif field(o, "rebased") == "-1":
                ctx.corr_broken.append("re-base checkpoint failed in history: " + o)
                return []
        elif kind == "db":
            new = a[1] not in st
            st.setdefault(a[1], {})
            if new:
                sps.append((int(field(o, "wsz")), state_digest(st)))
        elif kind == "sync":
            sps.append((int(field(o, "wsz")), state_digest(st)))
        elif kind == "ckpt":
            sps = [(0, state_digest(st))]
            resets = []
        elif kind == "ckpt-bkp":
            # checkpoint while a backup is copying the log: savepoint, apply, append separator + reset mark (no truncation)
            end = int(field(o, "wsz"))
            sps.append((end - 16, state_digest(st)))
            resets.append((end, len(sps) - 1))
            rfo = field(o, "rfo")
        elif kind == "backup-end":
            if w[1] != "0" or field(o, "armed") != "0":
                ctx.corr_broken.append("online backup in history did not run as planned: " + o)
                return []
            # the COPY2 savepoint is the last record of both the image's log and the live log snapshot
            pre, wal = os.path.join(wd, tag + ".pre"), os.path.join(wd, tag + ".wal")
            wl = os.path.getsize(wal)
            sps.append((wl, state_digest(st)))
            logs.append(Log(tag=tag + "/live", pre=pre, wal=wal, sps=list(sps), resets=list(resets), crc=crc, mode=1))
            logs.append(Log(tag=tag + "/image", pre=os.path.join(wd, tag + ".bpre"), wal=os.path.join(wd, tag + ".bwal"),
                            sps=[(0, bk_base)] + sps[1:], resets=[], crc=crc, mode=2, need_split=True))
        elif kind == "snap":
            if int(w[2]) < 0:
                ctx.corr_broken.append("snapshot failed: " + o)
                return []
            logs.append(Log(tag=tag, pre=os.path.join(wd, tag + ".pre"), wal=os.path.join(wd, tag + ".wal"), sps=list(sps),
                            resets=[], crc=crc, mode=1))
        elif kind == "open":
            if w[1] != "0":
                ctx.corr_broken.append("history open failed: " + o)
                return []
    for lg in logs:
        lg.ops = ops
    ctx.hist("hist-ops", len(ops))
    return logs


# ------------------------------------------------------------------ log parsing (only to aim the damage; the oracle does not use it)

def parse_log(b):
    p, recs = 0, []
    while p < len(b):
        op = b[p]
        if op not in HDR:
            break
        n = HDR[op]
        if op == WRITE and p + 20 <= len(b):
            n += struct.unpack_from("<I", b, p + 8)[0]
        recs.append((p, n, op))
        p += n
    return recs


def pick_cuts(r, lg, wal, recs, quota):
    n = len(wal)
    cuts = {0, n}
    cand = []
    for (p, ln, op) in recs:
        here = [p, p + 1, p + 2, p + 3, p + 4, p + ln - 1, p + HDR[op] - 1, p + HDR[op], p + HDR[op] + 1]
        if op == WRITE and ln > 40:
            here += [p + ln - 19, p + ln - 20, p + ln - 21, p + ln // 2]
        if op in (SAVEPOINT, RESET):
            here += list(range(p, p + ln + 1))
        cand.append((op, [c for c in here if 0 <= c <= n]))
    # all kinds represented, savepoints and their neighbours always
    for op, cs in cand:
        if op in (SAVEPOINT, RESET):
            cuts.update(cs)
    pool = [c for op, cs in cand for c in cs]
    r.shuffle(pool)
    for c in pool:
        if len(cuts) >= quota:
            break
        cuts.add(c)
    for _ in range(quota // 10):
        cuts.add(r.randrange(0, n + 1))
    # cuts that leave the file a whole number of pages long, and cuts next to page edges
    for pg in range(4096, n + 1, 4096):
        cuts.add(pg)
    return sorted(cuts)


def where(recs, pos):
    for (p, ln, op) in recs:
        if p <= pos < p + ln:
            return NAMES[op] + (".payload" if pos - p >= HDR[op] else ".id" if pos == p else ".hdr")
    return "tail"


def pick_flips(r, wal, recs, quota):
    out = []
    n = len(wal)
    if not n:
        return out
    for _ in range(quota // 2):          # single bits anywhere
        out.append([(r.randrange(n), 1 << r.randrange(8))])
    hdrs = [(p, ln, op) for (p, ln, op) in recs]
    for _ in range(quota // 4):          # single bits in header fields (rarely hit by uniform positions)
        p, ln, op = r.choice(hdrs)
        out.append([(p + r.randrange(min(HDR[op], ln)), 1 << r.randrange(8))])
    for _ in range(quota // 4):          # 1..16 random bytes
        p = r.randrange(n)
        k = r.randrange(1, 17)
        out.append([(q, r.randrange(1, 256)) for q in range(p, min(n, p + k))])
    return out


def flips_text(fl):
    return ",".join("%d:%02x" % (p, m) for p, m in fl) if fl else "-"


# ------------------------------------------------------------------ synthetic logs (model/implementation tie only, no oracle)

_crc_tab = []


def crc32(b):
    """iwu_crc32: MSB-first, polynomial 0x04c11db7, init 0, no final xor"""
    if not _crc_tab:
        for i in range(256):
            c = i << 24
            for _ in range(8):
                c = ((c << 1) ^ 0x04c11db7) & 0xffffffff if c & 0x80000000 else (c << 1) & 0xffffffff
            _crc_tab.append(c)
    c = 0
    for x in b:
        c = ((c << 8) & 0xffffffff) ^ _crc_tab[((c >> 24) ^ x) & 255]
    return c


def synth_log(r, crc_on, lim=8192):
    """A mostly well-formed log (all record kinds, incl. COPY and RESIZE which real histories hardly produce), with
    occasional malformations. Every store stays inside the first `lim` bytes and the file never shrinks below that."""
    out = bytearray()
    nseg = r.randrange(1, 9)
    for si in range(nseg):
        body = bytearray()
        tailp = b""
        nrec = r.randrange(0, 7)
        for ri in range(nrec):
            k = r.random()
            if k < 0.25:
                ln = r.choice([0, 1, r.randrange(1, 300)]); off = r.randrange(0, lim - ln)
                body += struct.pack("<B3xIqq", SET, r.randrange(0, 1 << 32), off, ln)
            elif k < 0.6:
                ln = r.choice([0, 1, r.randrange(1, 400)]); off = r.randrange(0, lim - ln)
                pl = bytes(r.randrange(256) for _ in range(ln))
                c = crc32(pl) if crc_on else 0
                body += struct.pack("<B3xIIq", WRITE, c, ln, off)
                if ri == nrec - 1 and r.random() < 0.4:
                    tailp = pl          # payload written outside the segment
                else:
                    body += pl
            elif k < 0.72:
                ln = r.choice([0, r.randrange(1, 200)]); off = r.randrange(0, lim - ln); noff = r.randrange(0, lim - ln)
                body += struct.pack("<B3xqqq", COPY, off, ln, noff)
            elif k < 0.8:
                ns = r.choice([lim, lim + 1, lim + 4096, 3 * 4096, 4 * 4096 - 7, 5 * 4096])
                body += struct.pack("<B3xqq", RESIZE, 0, ns)
            elif k < 0.9:
                body += struct.pack("<B3xQ", SAVEPOINT, 1700000000000 + r.randrange(1 << 30))
            else:
                body += struct.pack("<B3x", RESET)
        if r.random() < 0.6 and not tailp:
            body += struct.pack("<B3xQ", SAVEPOINT, 1700000000000 + r.randrange(1 << 30))
        if r.random() < 0.15 and not tailp:
            body = bytearray(struct.pack("<B3x", RESET))          # the separator + reset mark a checkpoint appends during a backup
        ln = len(body)
        c = crc32(body) if crc_on else 0
        m = r.random()
        if m < 0.04:
            ln = max(0, ln + r.choice([-13, -1, 1, 11, 12, 13, 40]))
        elif m < 0.06:
            c ^= 1 << r.randrange(32)
        out += struct.pack("<B3xII", SEP if r.random() < 0.98 else r.choice([0, 5, 6, 1, 200]), c, ln) + body + tailp
    if r.random() < 0.1:
        out += bytes(r.randrange(256) for _ in range(r.randrange(1, 30)))
    return bytes(out)


def synth_cases(ctx, r, wd, nlogs, ncut):
    cases = []
    work = os.path.join(wd, "swork.db")
    for i in range(nlogs):
        crc_on = r.random() < 0.6
        wal = synth_log(r, crc_on)
        pre = bytes(r.randrange(256) for _ in range(256)) * (r.choice([2, 3, 4]) * 16)
        pp, wp = os.path.join(wd, "s%d.pre" % i), os.path.join(wd, "s%d.wal" % i)
        open(pp, "wb").write(pre); open(wp, "wb").write(wal)
        recs = parse_log(wal)
        for (_, _, op) in recs:
            ctx.hist("synth-rec-" + NAMES[op])
        n = len(wal)
        cuts = {0, n}
        for (p, ln, op) in recs:
            cuts.update(c for c in (p, p + 1, p + HDR[op] - 1, p + HDR[op], p + ln - 1) if c <= n)
        cl = sorted(cuts)
        r.shuffle(cl)
        ops = ["load %s %s" % (pp, wp), "wf"]
        for c in sorted(cl[:ncut]) + [n]:
            for mode in (1, 2):
                # logs written without checksums are also read with checking on (a zero crc field is not checked)
                ops.append("roll %s %d %d %d -" % (work, mode, 1 if crc_on or r.random() < 0.3 else 0, c))
            ops.append("scan %d -" % c)
        if crc_on and n:
            for _ in range(ncut // 2):
                fl = flips_text([(r.randrange(n), 1 << r.randrange(8))])
                ops.append("roll %s %d 1 %d %s" % (work, r.choice([1, 2]), n, fl))
                ops.append("scan %d %s" % (n, fl))
        c = Case("synth", ops, None, key=("synth", i))
        cases.append(c)
    return cases


def run_synth(ctx, h, drv, r, wd, nlogs, ncut):
    """model first: stores outside the main file (undefined behaviour in C) are not sent to the implementation"""
    if not drv:
        return
    cases = synth_cases(ctx, r, wd, nlogs, ncut)
    mout, mcr = run_batch([drv, "c05"], cases, timeout=1800, stall=900)
    if mcr:
        ctx.corr_broken.append("model driver failed on synthetic logs: %s" % str(list(mcr.values())[0][1])[-300:])
        return
    icases = []
    for i, c in enumerate(cases):
        ops = []
        for k, o in enumerate(c.ops):
            bad = "rc=fault" in mout[i][k]
            if bad:
                ctx.hist("synth-skipped-fault")
            ops.append("nop" if bad or o == "wf" else o)
        icases.append(Case("synth", ops))
    iout, icr = run_batch([h], icases, timeout=900)
    for i, c in enumerate(cases):
        if iout.get(i) is None:
            rc, err = icr[i][0], icr[i][1]
            kind, fn = san_site(err)
            k = len(icr[i][2]) if len(icr[i]) > 2 else 0
            ctx.corr_broken.append("implementation died (%s in %s) on synthetic log op `%s` where the model predicts `%s`" % (
                kind, fn, c.ops[min(k, len(c.ops) - 1)], mout[i][min(k, len(c.ops) - 1)]))
            continue
        for k, o in enumerate(c.ops):
            if icases[i].ops[k] == "nop" or k == 0:
                continue
            ctx.case(("synth", i, o))
            ctx.cov["traces_validated_against_impl"] += 1
            a, b = iout[i][k], mout[i][k]
            ctx.hist("synth-" + o.split()[0] + "-" + (field(b, "rc") or "scan"))
            if a != b:
                ctx.corr_broken.append("model/implementation diverge on synthetic log %d `%s`: impl `%s` model `%s`" % (i, o, a, b))
                if len(ctx.corr_broken) <= 5:
                    ctx.log("DIVERGE synthetic", c.ops[0], o, "| impl:", a, "| model:", b)


# ------------------------------------------------------------------ oracle

def allowed_states(lg, cut):
    """indices of savepoint states a recovery of the first `cut` log bytes may end in"""
    ends = [e for e, _ in lg.sps]
    strict = max(i for i, e in enumerate(ends) if e <= cut)
    lenient = max(i for i, e in enumerate(ends) if i == 0 or e - 12 < cut)
    floor = 0
    if lg.resets:
        # the main file already holds everything up to the savepoint of the last checkpoint before the snapshot
        floor = lg.resets[-1][1]
    return range(max(strict, floor), max(lenient, floor) + 1)


def check_rec(lg, cut, flips, line):
    """The property on the implementation's answer. Returns None or (class, message)."""
    tail = line.split(" | ", 1)[1] if " | " in line else ""
    opn = field(tail, "open")
    dig = field(tail, "dig")
    if not flips and lg.resets and cut < lg.resets[-1][0]:
        return None      # tail loss reaches into bytes that were fsynced before the main file was changed: outside the crash model
    if opn != "0":
        if flips:
            return None          # damaged bytes: a failed open is allowed
        return ("open-failed", "log cut at %d of %d: iwkv_open failed with %s" % (cut, lg.wlen, opn))
    if dig is None or not dig.startswith("0:"):
        return ("unreadable", "cut %d flips %s: recovered store cannot be read: %s" % (cut, flips_text(flips), dig))
    d = dig[2:]
    idx = [i for i, (_, x) in enumerate(lg.sps) if x == d]
    if not idx:
        return ("not-a-savepoint", "cut %d flips %s: recovered contents %s are no recorded savepoint state" % (cut, flips_text(flips), d))
    if flips:
        return None
    al = allowed_states(lg, cut)
    if not any(i in al for i in idx):
        cls = "older-than-intact" if max(idx) < al[0] else "newer-than-log"
        return (cls, "cut %d of %d: recovered savepoint state #%s, expected one of #%s (savepoints end at %s)" % (
            cut, lg.wlen, idx, list(al), [e for e, _ in lg.sps]))
    post = field(tail, "post")
    if post not in (None, "ok"):
        return ("unusable-after-recovery", "cut %d of %d: the store recovered to savepoint state #%s, but one more put + sync + close + reopen gave `%s`" % (
            cut, lg.wlen, idx, post))
    return None


# ------------------------------------------------------------------ driver

def build(ctx):
    impl = C.build_impl("asan")
    h = C.build_harness(impl, "h_c05", ["h_c05.c"], exclude=("iwal.c",), wraps=WRAPS)
    return h


def cases_for(ctx, r, lg, wd, quota_cuts, quota_flips, mfrac):
    wal = open(lg.wal, "rb").read()
    lg.wlen = len(wal)
    recs = parse_log(wal)
    for (_, _, op) in recs:
        ctx.hist("log-rec-" + NAMES[op])
    # payloads written outside their segment
    ends = set()
    for (p, ln, op) in recs:
        if op == SEP:
            ends.add(p + 12 + struct.unpack_from("<I", wal, p + 8)[0])
    work = os.path.join(wd, "work.db")
    items = []      # (kind, cut, flips, opline)
    # hypotheses of theorem recover_cut, evaluated by the model on this real log (python's own parse cross-checks the walk)
    nres = sum(1 for (_, _, op) in recs if op == RESET)
    whole = bool(recs) and recs[-1][0] + recs[-1][1] == len(wal)
    lg.wf_expect = "wf sep=1 closed=1 disj=1 rsep=1 full=%d nrec=%d nsp=%d nreset=%d" % (1 if whole or not wal else 0, len(recs), sum(1 for (_, _, op) in recs if op == SAVEPOINT), nres)
    if wal:
        items.append(("wf", len(wal), [], "wf"))
    for c in pick_cuts(r, lg, wal, recs, quota_cuts):
        if lg.mode == 2 and 0 < c < 12:
            # _iwkv_check_online_backup does not take this for a backup image (log part shorter than a separator):
            # the file is opened as a plain store with trailing bytes; only a clean outcome is asked for
            items.append(("noimage", c, [], "rec %s %d %d %d -" % (work, lg.mode, lg.crc, c)))
            continue
        items.append(("cut", c, [], "rec %s %d %d %d -" % (work, lg.mode, lg.crc, c)))
        items.append(("scan", c, [], "scan %d -" % c))
    if lg.crc:
        extra = []
        if lg.resets:      # damage in the part of a backup-time log that is already applied (open finding F38 lives here)
            before = [(p, ln, op) for (p, ln, op) in recs if p + ln <= lg.resets[-1][0] - 16]
            for _ in range(8):
                if before:
                    p, ln, op = r.choice(before)
                    extra.append([(p + r.choice([0, 0, 1, 8, 9]), 1 << r.randrange(8))])
        # a separator's own header is not covered by any checksum: turn its id into another valid opcode
        subs = []
        seps = [p for (p, ln, op) in recs if op == SEP]
        last_sp = max([p for (p, ln, op) in recs if op == SAVEPOINT] or [0])
        tail_seps = [p for p in seps if p > last_sp]
        for p in tail_seps[:4] + ([r.choice(seps)] if seps else []):
            for newop in (SAVEPOINT, RESET, SET):
                subs.append([(p, SEP ^ newop)])
        ctx.hist("opsub-tail-separators", len(tail_seps))
        # (the first byte decides whether _iwkv_check_online_backup takes a file for a backup image at all)
        img0 = lambda fl: lg.mode == 2 and any(p == 0 for p, _ in fl)
        for fl in subs:
            if img0(fl):
                items.append(("noimage", len(wal), fl, "rec %s %d %d %d %s" % (work, lg.mode, lg.crc, len(wal), flips_text(fl))))
                continue
            items.append(("opsub", len(wal), fl, "rec %s %d %d %d %s" % (work, lg.mode, lg.crc, len(wal), flips_text(fl))))
            items.append(("scan", len(wal), fl, "scan %d %s" % (len(wal), flips_text(fl))))
        for fl in pick_flips(r, wal, recs, quota_flips) + extra:
            if img0(fl):
                items.append(("noimage", len(wal), fl, "rec %s %d %d %d %s" % (work, lg.mode, lg.crc, len(wal), flips_text(fl))))
                continue
            items.append(("flip", len(wal), fl, "rec %s %d %d %d %s" % (work, lg.mode, lg.crc, len(wal), flips_text(fl))))
            items.append(("scan", len(wal), fl, "scan %d %s" % (len(wal), flips_text(fl))))
    cases = []
    for i in range(0, len(items), 60):
        chunk = items[i:i + 60]
        c = Case("log", ["load %s %s" % (lg.pre, lg.wal)] + [it[3] for it in chunk], None, key=(lg.tag, i))
        c.oracle = (lg, chunk, recs)
        # the model replays lists: it answers every pre-scan but only a sample of the recoveries
        c.model = [c.ops[0]] + [it[3] if it[0] in ("scan", "wf") or (it[0] != "noimage" and r.random() < mfrac) else "nop" for it in chunk]
        cases.append(c)
    return cases


def evaluate(ctx, cases, iout, icr, mout, mcr):
    for ci, c in enumerate(cases):
        lg, chunk, recs = c.oracle
        impl = iout.get(ci)
        model = mout.get(ci) if mout is not None else None
        if impl is None:
            # the harness died inside this case: find the op
            rc, err, partial = icr[ci][0], icr[ci][1], (icr[ci][2] if len(icr[ci]) > 2 else [])
            k = len(partial) - 1      # partial[0] answers `load`
            kind, cut, flips, opl = chunk[max(0, min(k, len(chunk) - 1))]
            skind, fn = san_site(err)
            first = min(p for p, _ in flips) if flips else cut
            region = "before-last-reset" if lg.resets and first < lg.resets[-1][0] else "tail"
            if kind == "cut" and region == "before-last-reset":
                ctx.hist("result-outside-crash-model-died")     # see check_rec: such a cut is not a lost tail
                continue
            sig = dict(kind="crash", cls="crash", site=fn, what=skind, damage=kind, region=region, resets=str(len(lg.resets)),
                       at=where(recs, flips[0][0]) if flips else where(recs, max(0, cut - 1)))
            ctx.fail(sig, dict(log=lg.tag, history=lg.ops, op=opl, stderr=err[-3000:]), "recovery died (%s in %s) on `%s`" % (skind, fn, opl))
            ctx.case((lg.tag, "crash", opl))
            continue
        for k, (kind, cut, flips, opl) in enumerate(chunk):
            line = impl[k + 1]
            ctx.case((lg.tag, opl))
            ctx.hist("dmg-%s-%s" % (kind, where(recs, flips[0][0]) if flips else where(recs, max(0, cut - 1)) if cut else "empty"))
            if kind == "wf":
                if model is not None and k + 1 < len(model) and model[k + 1] != lg.wf_expect:
                    ctx.corr_broken.append("log %s: hypotheses of recover_cut as evaluated by the model `%s`, expected `%s`" % (lg.tag, model[k + 1], lg.wf_expect))
                    ctx.log("WF", lg.tag, model[k + 1], "| expected", lg.wf_expect)
                elif model is not None:
                    ctx.hist("log-satisfies-theorem-hypotheses")
                continue
            if kind == "noimage":
                ctx.hist("result-noimage-" + (field(line, "open") or "?"))
                continue
            if kind != "scan":
                prob = check_rec(lg, cut, flips, line)
                ctx.hist("result-" + ("open-fails" if field(line, "open") != "0" else "savepoint-state" if not prob else "bad"))
                if prob:
                    first = min(p for p, _ in flips) if flips else cut
                    sig = dict(kind="oracle", cls=prob[0], damage=kind, mode=str(lg.mode), crc=str(lg.crc),
                               at=where(recs, flips[0][0]) if flips else where(recs, max(0, cut - 1)),
                               resets=str(len(lg.resets)),
                               region="before-last-reset" if lg.resets and first < lg.resets[-1][0] else "tail")
                    ctx.fail(sig, dict(log=lg.tag, history=lg.ops, op=opl, impl=line, savepoints=lg.sps, resets=lg.resets), prob[1])
            if model is not None and k + 1 < len(model) and model[k + 1] != "skip":
                ctx.cov["traces_validated_against_impl"] += 1
                a = line.split(" | ")[0]
                b = model[k + 1]
                if a != b:
                    ctx.corr_broken.append("model/implementation diverge on `%s` (log %s): impl `%s` model `%s`" % (opl, lg.tag, a, b))
                    if len(ctx.corr_broken) <= 5:
                        ctx.log("DIVERGE", opl, "| impl:", a, "| model:", b)


def explore(ctx, h, drv, label, nhist, nops, quota_cuts, quota_flips, grow=(60000, 120000, 200000), mfrac=1.0, nsynth=60):
    r = C.Rng(ctx.seed, "c05/" + label)
    wd = os.path.join(C.scratch(), "c05-" + label)
    os.makedirs(wd, exist_ok=True)
    logs = []
    for i in range(nhist):
        crc = 1 if i % 3 != 2 else 0
        backup = (i % 3 == 1)
        logs += run_history(ctx, h, r, wd, "h%d" % i, crc, r.randrange(nops // 2, nops), backup, grow)
    cases = []
    for lg in logs:
        ctx.sample(dict(log=lg.tag, mode=lg.mode, crc=lg.crc, savepoints=[e for e, _ in lg.sps][:12], resets=lg.resets,
                        log_bytes=os.path.getsize(lg.wal), history_head=lg.ops[:8]))
        cases += cases_for(ctx, r, lg, wd, quota_cuts, quota_flips, mfrac)
    ctx.log("%d logs, %d cases, %d damaged recoveries" % (len(logs), len(cases), sum(len(c.ops) - 1 for c in cases)))
    iout, icr = run_batch([h], cases, timeout=900)
    ctx.log("implementation done")
    mout = mcr = None
    if drv:
        mcases = [Case("log", c.model) for c in cases]
        mout, mcr = run_batch([drv, "c05"], mcases, timeout=1800, stall=900)
        ctx.log("model done")
        if mcr:
            i = sorted(mcr)[0]
            ctx.corr_broken.append("model driver failed on case %s: %s" % (cases[i].ops[:2], str(mcr[i][1])[-300:]))
    evaluate(ctx, cases, iout, icr, mout, mcr)
    run_synth(ctx, h, drv, r, wd, nsynth, 25)
    ctx.log("synthetic logs done")


def explore_async(ctx, h, label, nhist, nops, ncuts):
    """savepoints taken by the log's worker thread while the caller goes on (put/del with IWKV_SYNC only poke it): wherever such a
    savepoint lands, a log cut right behind it must recover to the state after some prefix of the caller's operations. The log is
    parsed only to aim the cuts; the verdict is the real recovery compared with the reference states."""
    r = C.Rng(ctx.seed, "c05/async/" + label)
    wd = os.path.join(C.scratch(), "c05a-" + label)
    os.makedirs(wd, exist_ok=True)
    for hi in range(nhist):
        tag = "a%d" % hi
        crc = hi % 2
        path = os.path.join(wd, tag + ".db")
        pre, walp = os.path.join(wd, tag + ".pre"), os.path.join(wd, tag + ".wal")
        ops = ["open %s %d %d" % (path, crc, r.choice([4096, 8192])), "db 1"]
        dbs = [1]
        if r.random() < 0.5:
            ops.append("db 2"); dbs.append(2)
        big = r.choice([60000, 120000])
        ops += ["put 1 %s %d 9" % (b"grow".hex(), big), "del 1 %s" % b"grow".hex(), "ckpt"]
        st = {d: {} for d in dbs}
        states = {state_digest(st)}
        keys = [b"k%03d" % i for i in range(r.choice([4, 12, 40]))]
        body = []
        for _ in range(nops):
            d, k = r.choice(dbs), r.choice(keys)
            fl = " s" if r.random() < 0.6 else ""
            if r.random() < 0.25:
                body.append("del %d %s%s" % (d, k.hex(), fl)); st[d].pop(k, None)
            else:
                ln, seed = r.choice([r.randrange(1, 40), r.randrange(1, 300), r.randrange(300, 2500)]), r.randrange(1, 250)
                body.append("put %d %s %d %d%s" % (d, k.hex(), ln, seed, fl)); st[d][k] = (ln, seed)
            states.add(state_digest(st))
        ops += body + ["snap %s %s" % (pre, walp), "close"]
        rc, out, err = C.run_lines([h], ops, timeout=300)
        if rc == 0 and len(out) == len(ops) and os.path.exists(walp):
            kinds = [op for (_, _, op) in parse_log(open(walp, "rb").read())]
            ctx.hist("async:log-records", len(kinds))
            if COPY in kinds:
                # replay_idempotent / checkpoint_kill_recovers (C04) are theorems about logs without copy records: a copy reads its
                # source from the main file at replay time, a second replay after a killed checkpoint reads what the first one wrote
                ctx.corr_broken.append("a log written by the store contains a WBCOPY record (history %s, %d of %d records): replaying such a log "
                                       "twice is not idempotent; the recovery theorems cover logs of WRITE/SET/RESIZE records only" % (
                                           tag, kinds.count(COPY), len(kinds)))
        nb = len(ops) - len(body) - 2
        if rc != 0 or len(out) != len(ops) or any(field(o, "rebased") not in (None, "0") for o in out[nb:]):
            ctx.hist("async:history-dropped")
            continue
        wal = open(walp, "rb").read()
        sp_ends = [p + n for (p, n, op) in parse_log(wal) if op == SAVEPOINT]
        ctx.hist("async:savepoints", len(sp_ends))
        if not sp_ends:
            continue
        cuts = sp_ends if len(sp_ends) <= ncuts else [sp_ends[i * len(sp_ends) // ncuts] for i in range(ncuts)]
        lines = ["load %s %s" % (pre, walp)] + ["rec %s 1 %d %d -" % (os.path.join(wd, "aw.db"), crc, c) for c in cuts]
        rc, ro, re_ = C.run_lines([h], lines, timeout=600)
        if rc != 0 or len(ro) != len(lines):
            kind, fn = san_site(re_)
            ctx.fail(dict(kind="crash", phase="async-recover", site=fn, what=kind), dict(ops=ops, recov=lines, stderr=re_[-2000:]),
                     "recovery of a log cut behind a worker-thread savepoint died: %s" % re_[-300:])
            continue
        for c, line in zip(cuts, ro[1:]):
            ctx.case(("async", label, hi, c))
            ctx.cov["traces_validated_against_impl"] += 1
            tail = line.split(" | ", 1)[1] if " | " in line else ""
            opn, dig = field(tail, "open"), field(tail, "dig")
            prob = None
            if opn != "0":
                prob = ("open-failed", "log cut behind the savepoint ending at %d: iwkv_open failed with %s" % (c, opn))
            elif dig is None or not dig.startswith("0:"):
                prob = ("unreadable", "log cut behind the savepoint ending at %d: recovered store cannot be read: %s" % (c, dig))
            elif dig[2:] not in states:
                prob = ("not-a-prefix", "log cut behind the savepoint ending at %d: recovered contents %s are the state after no prefix of the operations" % (c, dig[2:]))
            elif field(tail, "post") not in (None, "ok"):
                prob = ("unusable-after-recovery", "log cut behind the savepoint ending at %d: recovered, but one more put + sync + close + reopen gave `%s`" % (c, field(tail, "post")))
            ctx.hist("async:" + (prob[0] if prob else "prefix-state"))
            if prob:
                ctx.fail(dict(kind="oracle", phase="async-savepoint", cls=prob[0]), dict(ops=ops, cut=c, impl=line), prob[1])


def run(ctx):
    ctx.cov["rule"] = ("real -wal files written by random put/del/sync/new-db histories (python dict as reference, every savepoint dump checked), "
                       "plain and with an online backup during which a writer checkpoints (reset marks; live log and backup image); each log is "
                       "recovered after every chosen cut (all savepoint/reset bytes, record boundaries +-1..4, header ends, payload tails -19..-21, "
                       "page multiples, random) and, checksums on, after single-bit flips (uniform + header fields + ids before a reset mark), "
                       "1..16-byte overwrites and separator ids replaced by other opcodes; plus synthetic logs with all seven record kinds and "
                       "malformations run through _rollforward_exl alone (model/implementation only); distinct = distinct (log, damage); "
                       "every case recovers a non-empty log except cut 0")
    ctx.assumptions += ["crash model: the log loses a tail (any byte length) or has bytes changed; the main file is as of the last log truncation",
                        "page size 4096; no timer savepoints/checkpoints (huge timeouts); savepoints through iwkv_sync / db creation / explicit checkpoint, and - async stream - "
                        "by the worker thread poked through IWKV_SYNC operations"]
    ctx.translate()
    ok, drv_ok = ctx.prove(MODULE, THEOREMS)
    h = build(ctx)
    drv = C.drv_path() if drv_ok else None
    if ctx.tier == "quick":
        explore(ctx, h, drv, "main", 6, 60, 70, 60, grow=(20000, 40000), mfrac=0.5)
        explore_async(ctx, h, "q", 5, 400, 150)
    else:
        explore(ctx, h, drv, "main", 20, 120, 250, 200, mfrac=0.03, nsynth=600)
        explore_async(ctx, h, "t", 20, 1500, 400)
    if (ctx.proof_broken or ctx.corr_broken) and not ctx.violations:
        ctx.log("obligation or correspondence broken: widening the search for a failing input")
        for x in (ctx.proof_broken + ctx.corr_broken)[:3]:
            ctx.log("  broken:", x[:500])
        for i in range(3):
            explore(ctx, h, None, "search%d" % i, 6, 80, 120, 100)


def replay(ctx, obj):
    """Re-runs the history of a recorded violation in a fresh scratch directory, then the damaged recovery itself."""
    import re
    h = build(ctx)
    rp = obj["replay"]
    hist = rp.get("history") or rp.get("ops") or []
    wd = os.path.join(C.scratch(), "replay")
    os.makedirs(wd, exist_ok=True)
    m = re.search(r"open (\S+)/[^/ ]+\.db ", hist[0] + " ") if hist else None
    old = m.group(1) if m else None
    fix = (lambda s: s.replace(old, wd)) if old else (lambda s: s)
    lines = [fix(l) for l in hist]
    op = rp.get("op")
    if op:
        tag = (rp.get("log") or "").split("/")
        base = os.path.join(wd, tag[0]) if tag and tag[0] else None
        if base:
            pre, wal = (base + ".bpre", base + ".bwal") if len(tag) > 1 and tag[1] == "image" else (base + ".pre", base + ".wal")
            lines += ["load %s %s" % (pre, wal), re.sub(r"^(rec|roll) \S+", lambda mm: mm.group(1) + " " + os.path.join(wd, "work.db"), op)]
    rc, o, e = C.run_lines([h], lines, timeout=300)
    print("\n".join(o[-4:]))
    print(e[-1500:])
    print("recorded:", rp.get("impl"))
    ctx.case("replay")
    ctx.case("replay2")
