"""Shared machinery of C07 and C08: build of the threaded harness, case runner, output parser,
sanitizer report condensation, and the linearizability oracle (python reference map)."""
import os, re
from vlib import common as C

WRAPS = ("pthread_rwlock_rdlock pthread_rwlock_wrlock pthread_rwlock_unlock pthread_mutex_lock pthread_mutex_unlock "
         "pthread_cond_wait pthread_cond_timedwait pthread_spin_lock pthread_spin_unlock iwp_pread open64 open "
         "iwp_current_time_ms pwrite64 write ftruncate64 msync munmap").split()
SOURCES = ["h_conc.c", "h_side_fsm.c", "h_side_exf.c", "h_side_wal.c"]
EXCLUDE = ("iwkv.c", "iwfsmfile.c", "iwexfile.c", "iwal.c")


def build(variant):
    impl = C.build_impl(variant)
    return C.build_harness(impl, "h_conc", SOURCES, exclude=EXCLUDE, wraps=WRAPS)


class Res:
    """Parsed output of one case."""

    def __init__(self, name):
        self.name = name
        self.ops = {}        # (tid, idx) -> dict(inv, res, out, text)
        self.evs = {}        # (tid, idx) -> [tokens]
        self.bg = []         # [[tokens]]
        self.snaps, self.imgs = {}, {}
        self.dump = None
        self.close = None
        self.hang = None
        self.gates = []      # sched mode: lines in order
        self.lines = []      # sched mode: every output line in order
        self.complete = False
        self.stderr = ""
        self.obs = []
        self.f25 = None
        self.exclbad = None
        self.mainwrites = []
        self.rc = 0


def parse(out_lines):
    """Split harness stdout into Res objects (one per `case` line)."""
    res, cur = [], None
    for ln in out_lines:
        if ln.startswith("case "):
            cur = Res(ln[5:].strip())
            res.append(cur)
            continue
        if cur is None:
            continue
        cur.lines.append(ln)
        if ln.startswith("o "):
            head, _, text = ln.partition(" | ")
            p = head.split(" ", 5)
            cur.ops[(int(p[1]), int(p[2]))] = dict(inv=int(p[3]), res=int(p[4]), out=p[5] if len(p) > 5 else "", text=text)
        elif ln.startswith("ev "):
            p = ln.split()
            cur.evs[(int(p[1]), int(p[2]))] = p[3:]
        elif ln.startswith("bg "):
            cur.bg.append(ln.split()[2:])
        elif ln.startswith("snap "):
            p = ln.split(" ", 2)
            cur.snaps[int(p[1])] = p[2]
        elif ln.startswith("img "):
            p = ln.split(" ", 2)
            cur.imgs[int(p[1])] = p[2]
        elif ln.startswith("dump "):
            cur.dump = ln[5:]
        elif ln.startswith("close "):
            cur.close = ln[6:]
        elif ln.startswith("hang"):
            cur.hang = ln
        elif ln.startswith("mainwrite "):
            cur.mainwrites.append(ln)
        elif ln.startswith("f25 "):
            cur.f25 = ln
        elif ln.startswith("obs "):
            cur.obs.append(ln[4:])
        elif ln.startswith("exclbad "):
            cur.exclbad = ln
        elif ln == "end":
            cur.complete = True
    return res


def split_stderr(err):
    """stderr text per case name (the harness prints `CASE <name>` markers)."""
    parts, name, buf = {}, None, []
    for ln in err.split("\n"):
        if ln.startswith("CASE "):
            if name is not None:
                parts[name] = "\n".join(buf)
            name, buf = ln[5:].strip(), []
        else:
            buf.append(ln)
    if name is not None:
        parts[name] = "\n".join(buf)
    return parts


SKIP_FR = ("__interceptor_", "__tsan", "__asan", "__sanitizer", "__ubsan", "__wrap_", "memcpy", "memmove", "memset", "strlen",
           "pthread_", "write", "read", "pread", "pwrite", "malloc", "free", "calloc", "realloc", "operator")


def tsan_reports(err):
    """[(kind, siteA, siteB)] for every ThreadSanitizer report: first library frame of the first two stacks."""
    out = []
    for blk in re.split(r"={10,}", err):
        m = re.search(r"WARNING: ThreadSanitizer: ([^\n(]*)", blk)
        if not m:
            continue
        kind = m.group(1).strip()
        stacks = re.split(r"\n\s*\n", blk)
        sites = []
        for st in stacks:
            fr = re.findall(r"#\d+ (\S+) ", st)
            fr = [f for f in fr if not f.startswith(SKIP_FR)]
            if fr and re.search(r"#0 ", st):
                sites.append(fr[0])
        sites = sites[:2] + ["?", "?"]
        out.append((kind, sites[0], sites[1], blk[:3000]))
    return out


def run_cases(h, texts, variant="asan", timeout=600):
    """texts: list of (name, [lines]).  Returns {name: Res}.  A process that dies is restarted on the remaining
    cases; the case it died in keeps complete=False and gets the stderr tail."""
    env = {"TSAN_OPTIONS": "halt_on_error=0:second_deadlock_stack=1:report_signal_unsafe=0:exitcode=0"}
    done = {}
    start = 0
    guard = 0
    hangs = 0      # a process that stops producing output for 60 s is killed; three such hangs end the exploration
    while start < len(texts) and guard < 40 and hangs < 3:
        guard += 1
        lines = []
        for name, ls in texts[start:]:
            lines.extend(ls)
        rc, o, e = C.run_lines_stall([h, os.path.join(C.scratch(), "conc-%s.db" % variant)], lines, timeout=timeout, stall=60, env=env)
        if rc == -999:
            hangs += 1
        rs = parse(o)
        errs = split_stderr(e)
        n_complete = 0
        for r in rs:
            r.stderr = errs.get(r.name, "")
            done[r.name] = r
            if r.complete:
                n_complete += 1
        if n_complete >= len(texts) - start:
            break
        # died / hung inside case number start+n_complete
        if start + n_complete < len(texts):
            nm = texts[start + n_complete][0]
            if nm not in done:
                r = Res(nm)
                r.stderr = e[-4000:]
                done[nm] = r
            done[nm].rc = rc
            if rc == -999 and not done[nm].hang:
                done[nm].hang = "hang process-timeout"
        start = start + n_complete + 1
    return done


# ---------------------------------------------------------------------------------------------
# dumps:  "1{k=v;k=v;}2{}"  ->  {dbid: {key: val}}

def parse_dump(s):
    out = {}
    if not s or s == "-":
        return out
    for m in re.finditer(r"(\d+)\{([^}]*)\}", s):
        d = {}
        for kv in m.group(2).split(";"):
            if "=" in kv:
                k, v = kv.split("=", 1)
                d[k] = v
        out[int(m.group(1))] = d
    return out


# ---------------------------------------------------------------------------------------------
# Linearizability of one register (a key of a database, or a database's meta block).
# op = dict(inv, res, kind, arg, ret) with kind in put/putnx/del/get ; state None = absent.

def _apply(kind, arg, ret, st):
    """returns (ok, new_state)"""
    if kind == "put":
        return ret == "ok", arg
    if kind == "putnx":
        if st is None:
            return ret == "ok", arg
        return ret == "ke", st
    if kind == "del":
        if st is None:
            return ret == "nf", st
        return ret == "ok", None
    if kind == "get":
        if st is None:
            return ret == ("nf", None), st
        return ret == ("ok", st), st
    return False, st


def linearizable(ops, init=None, budget=200000):
    """Wing-Gong search with memoisation. Returns True / False / None (budget exhausted)."""
    n = len(ops)
    if n == 0:
        return True
    ops = sorted(ops, key=lambda o: o["inv"])
    seen = set()
    calls = [0]

    def rec(done, st):
        if len(done) == n:
            return True
        key = (done, st)
        if key in seen:
            return False
        seen.add(key)
        calls[0] += 1
        if calls[0] > budget:
            raise OverflowError
        pend = [i for i in range(n) if i not in done]
        minres = min(ops[i]["res"] for i in pend)
        for i in pend:
            o = ops[i]
            if o["inv"] > minres:
                break
            ok, st2 = _apply(o["kind"], o["arg"], o["ret"], st)
            if ok and rec(done | frozenset([i]), st2):
                return True
        return False

    try:
        return rec(frozenset(), init)
    except (OverflowError, RecursionError):
        return None


INF = 10 ** 12


def tag_of(res, tid, idx, text):
    """value a put/cset/mset of thread tid, op idx writes: tag/len as the harness prints it"""
    w = text.split()
    ln = int(w[3]) if w[0] == "put" else int(w[2])
    tag = "t%d_%d" % (tid, idx)
    return "%s/%d" % (tag, max(ln, len(tag)))


def check_history(r, shared_ids, want_final=True):
    """Independent oracle for one free-mode run: every result is explained by some sequential order of the
    calls consistent with real time (hence with each thread's program order), and the final dump is the
    state that order ends in.  Returns list of (class, message)."""
    probs = []
    if getattr(r, "exclbad", None):
        w = r.exclbad.split()
        probs.append(("excl-with-workers", "exclusive access to the store was taken %s time(s) while %s worker(s) (open cursors / calls in progress) "
                      "were still registered: an exclusive call did not wait for them" % (w[1], w[2])))
    regs = {}       # (db, key) -> [op]
    meta = {}       # db -> [op]
    privdb = {}     # (tid, slot) -> dict(id, map, cursorkey)
    created = {}    # shared id -> list of (flags, out)
    final = parse_dump(r.dump) if r.dump is not None else None
    dead_ids, live_priv = set(), {}
    curdb = {}      # (tid, cursor slot) -> database name the cursor was opened on
    for (tid, idx) in sorted(r.ops):
        o = r.ops[(tid, idx)]
        w = o["text"].split()
        out = o["out"].split()
        rc = out[0] if out else "?"
        k = w[0]
        if rc in ("skip", "nodb"):
            continue
        if k == "copen" and rc == "ok":
            curdb[(tid, int(w[1]) % 4)] = w[2]
        if k == "cclose":
            curdb.pop((tid, int(w[1]) % 4), None)
        if rc.startswith("e") or rc in ("state", "bad-op", "?"):
            probs.append(("error-rc", "T%d op %d `%s` returned %s" % (tid, idx, o["text"], o["out"])))
            continue
        base = dict(inv=o["inv"], res=o["res"])
        if k in ("put", "get", "del") and not w[1].startswith("p"):
            db = int(w[1])
            lst = regs.setdefault((db, w[2]), [])
            if k == "put":
                nx = len(w) > 4 and int(w[4]) & 1
                lst.append(dict(base, kind="putnx" if nx else "put", arg=tag_of(r, tid, idx, o["text"]), ret=rc))
            elif k == "del":
                lst.append(dict(base, kind="del", arg=None, ret=rc))
            else:
                lst.append(dict(base, kind="get", arg=None, ret=(rc, out[1] if rc == "ok" and len(out) > 1 else None)))
        elif k in ("put", "get", "del") and w[1].startswith("p"):
            pd = privdb.get((tid, int(w[1][1:])))
            if pd is None:
                continue
            m = pd["map"]
            if k == "put":
                nx = len(w) > 4 and int(w[4]) & 1
                if nx and w[2] in m:
                    exp = "ke"
                else:
                    exp = "ok"
                    m[w[2]] = tag_of(r, tid, idx, o["text"])
                if rc != exp:
                    probs.append(("private-db", "T%d op %d `%s` returned %s, expected %s" % (tid, idx, o["text"], rc, exp)))
            elif k == "del":
                exp = "ok" if w[2] in m else "nf"
                m.pop(w[2], None)
                if rc != exp:
                    probs.append(("private-db", "T%d op %d `%s` returned %s, expected %s" % (tid, idx, o["text"], rc, exp)))
            else:
                exp = ("ok", m[w[2]]) if w[2] in m else ("nf", None)
                got = (rc, out[1] if rc == "ok" and len(out) > 1 else None)
                if got != exp:
                    probs.append(("private-db", "T%d op %d `%s` returned %s, expected %s" % (tid, idx, o["text"], got, exp)))
        elif k == "cget" and rc == "ok" and len(out) > 1:
            key, _, val = out[1].partition("=")
            c = int(w[1])
            dbn = curdb.get((tid, c))
            if dbn is None:
                continue
            if str(dbn).startswith("p"):
                pd = privdb.get((tid, int(dbn[1:])))
                if pd is not None:
                    if pd["map"].get(key) != val:
                        probs.append(("private-db", "T%d op %d cursor read %s=%s, reference has %s" % (tid, idx, key, val, pd["map"].get(key))))
                    pd["ckey"][c] = key
            else:
                regs.setdefault((int(dbn), key), []).append(dict(base, kind="get", arg=None, ret=("ok", val)))
        elif k in ("cset", "cdel") and rc == "ok":
            c = int(w[1])
            dbn = curdb.get((tid, c))
            if dbn is not None and str(dbn).startswith("p"):
                pd = privdb.get((tid, int(dbn[1:])))
                if pd is not None and pd["ckey"].get(c) is not None:
                    if k == "cset":
                        pd["map"][pd["ckey"][c]] = tag_of(r, tid, idx, o["text"])
                    else:
                        pd["map"].pop(pd["ckey"][c], None)
                        pd["ckey"][c] = None
        elif k == "dbnew" and rc == "ok":
            pid = int(out[1].split("=")[1])
            if pid in shared_ids:
                probs.append(("db-id", "iwkv_new_db returned id %d which belongs to a shared database" % pid))
            dead_ids.discard(pid)
            privdb[(tid, int(w[1]) % 4)] = dict(id=pid, map={}, ckey={})
        elif k == "dbdel" and rc == "ok":
            pd = privdb.pop((tid, int(w[1]) % 4), None)
            if pd:
                dead_ids.add(pd["id"])
        elif k == "dbget":
            created.setdefault(int(w[1]), []).append((int(w[2]), o["out"], o))
        elif k == "mset":
            meta.setdefault(w[1], []).append(dict(base, kind="put", arg=tag_of(r, tid, idx, o["text"]).split("/")[0], ret=rc))
        elif k == "mget":
            tg = out[1] if len(out) > 1 else None
            meta.setdefault(w[1], []).append(dict(base, kind="get", arg=None, ret=("ok", tg) if tg else ("nf", None)))
    # shared creation: one flag value wins, exactly the calls asking for it succeed
    for dbid, lst in created.items():
        oks = [x for x in lst if x[1].startswith("ok")]
        flg = set(int(x[1].split("flg=")[1].split()[0]) for x in oks)
        if any(" same=0" in x[1] for x in oks):
            probs.append(("db-create", "iwkv_db(%d) handed out two different handles for one database id (the database was created twice): %s" % (
                dbid, [(x[0], x[1]) for x in lst])))
        if dbid in (1, 2):
            flg.add(0)
        if len(flg) > 1 or (lst and not flg):
            probs.append(("db-create", "iwkv_db(%d) results inconsistent: %s" % (dbid, [(x[0], x[1]) for x in lst])))
        elif flg:
            f = flg.pop()
            for req, outp, o in lst:
                if (req == f) != outp.startswith("ok"):
                    probs.append(("db-create", "iwkv_db(%d, flags %d) returned %s although the database has flags %d" % (dbid, req, outp, f)))
    # final dump as reads at the end of time
    if want_final and final is not None:
        for (db, key), lst in regs.items():
            v = final.get(db, {}).get(key)
            lst.append(dict(inv=INF, res=INF + 1, kind="get", arg=None, ret=("ok", v) if v is not None else ("nf", None)))
        for db, d in final.items():
            for key, v in d.items():
                if db in shared_ids and (db, key) not in regs:
                    probs.append(("final-dump", "database %d holds %s=%s which no call wrote" % (db, key, v)))
            if db in dead_ids and db not in set(pd["id"] for pd in privdb.values()):
                probs.append(("final-dump", "destroyed database %d is still present" % db))
        for (tid, slot), pd in privdb.items():
            got = final.get(pd["id"])
            if got is None or got != pd["map"]:
                probs.append(("private-db", "private database %d of T%d: dump %s, reference %s" % (pd["id"], tid, got, pd["map"])))
    for (db, key), lst in sorted(regs.items()):
        ok = linearizable(lst)
        if ok is False:
            lst2 = sorted(lst, key=lambda o: o["inv"])
            probs.append(("not-linearizable", "db %d key %s: no sequential order explains %s" % (
                db, key, [(o["inv"], o["res"] if o["res"] < INF else "end", o["kind"], o["arg"], o["ret"]) for o in lst2][:14])))
    for db, lst in sorted(meta.items()):
        if linearizable(lst) is False:
            probs.append(("not-linearizable", "db %s meta block: no sequential order explains %s" % (db, [(o["inv"], o["res"], o["kind"], o["arg"], o["ret"]) for o in lst][:10])))
    return probs


# ---------------------------------------------------------------------------------------------
# lock recording -> declared order (python side, independent of the Lean acceptor)

RANK = {"K": 0, "S": 1, "D": 2, "A": 3, "F": 4, "G": 5, "P": 6, "N": 7}


def lock_edges(tokens):
    """(held -> acquired) pairs of one recorded sequence; returns (edges, problems)"""
    held, edges, probs = [], set(), []
    for t in tokens:
        op, name = t[0], t[1:]
        cls = name[0]
        if op in "rwls":
            for h in held:
                edges.add((h[0], cls))
            if name in held:
                probs.append("re-acquire of %s while held" % name)
            held.append(name)
        elif op in "uvx":
            if name in held:
                held.remove(name)
            else:
                probs.append("release of %s not held" % name)
        elif op in "ct":
            pass
        elif op == "E":
            probs.append("lock call failed on %s" % name)
    return edges, probs, held
