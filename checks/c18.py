"""C18: containers behave as their plain reference models for every call sequence."""
import bisect, re
from vlib import common as C
from vlib.diff import Case, differential

LEVEL = "proof"
# C functions this check's models mirror (source-text fingerprints are recorded in the evidence, see translate/funchash.py)
MODELLED_FUNCS = {'src/utils/iwhmap.c': ['iwhmap_put', 'iwhmap_get', 'iwhmap_remove', 'iwhmap_clear', '_lru_entry_update', '_rehash'], 'src/utils/iwarr.c': ['iwulist_insert', 'iwulist_remove', 'iwulist_clone', 'iwlist_unshift', 'iwlist_clone', 'iwarr_sorted_insert', 'iwarr_sorted_remove'], 'src/utils/iwavl.h': ['iwavl_insert', 'iwavl_lookup_bounds'], 'src/utils/iwavl.c': ['iwavl_remove'], 'src/utils/iwrb.c': ['iwrb_put', 'iwrb_back', 'iwrb_peek', 'iwrb_iter_init', 'iwrb_iter_prev'], 'src/utils/iwxstr.c': ['iwxstr_cat', 'iwxstr_unshift', 'iwxstr_shift', 'iwxstr_pop', 'iwxstr_insert', 'iwxstr_printf_va', 'iwxstr_insert_vaprintf'], 'src/utils/iwpool.c': ['iwpool_alloc', 'iwpool_split_string', 'iwpool_printf_split', 'iwpool_user_data_set', '_parent_remove_child', 'iwpool_destroy', 'iwpool_ref', 'iwpool_create_attach']}
MANIFEST = dict(
    level="proof",
    text=("Lean 4 theorems over executable mechanism models of iwhmap (buckets, step growth, rehash up/down, LRU list and eviction "
          "loop), iwulist/iwlist (window arithmetic, growth/shrink, bounds-instrumented memmove), the sorted-array binary search, the "
          "AVL tree (rotation cases of insert and remove, lookup_bounds), the ring buffer (put/back/clear with the iterator loop), iwxstr "
          "statement by statement (buffer cells, memmove, terminator stores, the 1024-byte vsnprintf buffer switch of the print functions) and "
          "iwpool (bump allocation, the split_string scan with its trimming loops, child pools with their own reference counts, the orphans a destroyed parent leaves behind, user data): each refines its plain reference "
          "(association list + recency list, List, sorted permutation, BST set, two-list ring, byte list, List.splitOnP) for all call sequences, "
          "with bucket/array/buffer bounds as invariants, and one global theorem freed_exactly_once (multiset of elements given to the free "
          "callbacks = multiset of owned elements inserted and not handed back, over any history ending in destroy, for hash map, iwlist, xstr "
          "and pool user data, child pools incl. references on children and orphans); the models are tied to the code by differential runs of "
          "random call sequences (colliding hashes, eviction, threshold crossings) against the compiled Lean definitions, an independent "
          "python reference as oracle, a logged free callback, a heap balance at destroy and ASan"),
    note=("trusted: Lean kernel, translator, harness/generator, gcc+ASan/UBSan; modelled not verified: the C control flow of the functions "
          "named; pointers are abstracted (keys/values are ids, the LRU list is a list of keys), allocation failure paths are not modelled; "
          "sort_r (libc qsort_r) and the formatting done by vsnprintf are not modelled: the sort result is pinned down by uniqueness of the sorted "
          "permutation, the print functions are proved for every formatted output; strings contain no NUL; the check models the tree with the C18 fix commits"),
    technique="Lean 4 proof over executable model + differential correspondence (C harness vs compiled Lean driver) + python reference oracle")
MODULE = "IwModel.Props.C18"
THEOREMS = ["IwModel.C18." + n for n in (
    "consts_ok",
    "hmap_step_refines", "hmap_refines_assoc", "hmap_bucket_bounds", "hmap_iter_spec", "hmap_clear_frees_each_once",
    "lru_evicts_oldest", "lru_count_bound",
    "ulist_step_refines", "ulist_refines_list", "ulist_clone_window", "plist_step_refines", "plist_handed_out",
    "sorted_find_iff", "sorted_insert_sorted", "sorted_remove_spec", "ring_last_n", "xstr_refines_bytes", "pool_alloc_bump",
    "avl_insert_refines", "avl_remove_refines", "avl_bst", "avl_balanced", "avl_lookup_iff", "avl_bounds_spec", "avl_refines_set",
    # round 3 (c18rest): ring back/peek, sort, statement-level xstr incl. printf buffer switch, pool split / children, ownership
    "ring_refines_ref", "ring_peek_newest", "ring_back_spec",
    "ulist_sort_sorted_perm", "plist_sort_sorted_perm", "sort_result_unique",
    "xstr_mem_refines", "xstr_mem_run", "xstr_printf_exact", "xstr_wrap_clone_spec",
    "pool_split_reference", "pool_trim_rule", "pool_printf_exact", "pool_children_ownership",
    "hmap_freed_exactly_once", "plist_freed_exactly_once", "freed_exactly_once",
    # round 4 (c18poolref): children with their own reference counts, orphans of a destroyed parent
    "pool_history_balance", "poLedger_isSome_iff", "pool_orphan_witness",
)]

M32 = 0xffffffff
H = lambda b: bytes(b).hex() or "-"


# ---------------------------------------------------------------- hash functions (generator side: to aim at buckets)

def hash32(x):
    x &= M32
    x ^= x >> 17
    x = x * 0xed5ad4bb & M32
    x ^= x >> 11
    x = x * 0xac4c1b51 & M32
    x ^= x >> 15
    x = x * 0x31848bab & M32
    x ^= x >> 14
    return x


def _unxs(x, s):
    y = x
    for _ in range(32 // s + 1):
        y = x ^ (y >> s)
    return y


_I1, _I2, _I3 = (pow(c, -1, 1 << 32) for c in (0xed5ad4bb, 0xac4c1b51, 0x31848bab))


def unhash32(h):
    x = _unxs(h, 14)
    x = x * _I3 & M32
    x = _unxs(x, 15)
    x = x * _I2 & M32
    x = _unxs(x, 11)
    x = x * _I1 & M32
    return _unxs(x, 17)


def hash64(x):
    return hash32(x) ^ hash32(x >> 31)


def _wymix(a, b):
    c = (a ^ 0x53c5ca59) * (b ^ 0x74743c1b)
    return c & M32, (c >> 32) & M32


def wyhash32(key, seed=0x3017f643):
    r32 = lambda p: int.from_bytes(p[:4], "little")
    s, t = _wymix(seed, len(key) & M32)
    p = key
    while len(p) > 8:
        s, t = _wymix(s ^ r32(p), t ^ r32(p[4:]))
        p = p[8:]
    i = len(p)
    if i >= 4:
        s, t = s ^ r32(p), t ^ r32(p[i - 4:])
    elif i:
        s ^= (p[0] << 16) | (p[i >> 1] << 8) | p[i - 1]
    s, t = _wymix(s, t)
    s, t = _wymix(s, t)
    return s ^ t


# ---------------------------------------------------------------- hash map

def hm_keys(r, kind, n, M, S):
    """n distinct keys, aimed at few buckets in most cases"""
    style = r.choice(["spread", "collide", "collide", "lowbits"])
    keys = []
    seen = set()
    if kind == "u32":
        cols = [r.randrange(256) for _ in range(r.choice([1, 2, 3]))]
        while len(keys) < n:
            if style == "spread":
                k = r.choice([r.randrange(1 << 32), r.randrange(1000), M32 - r.randrange(3)])
            elif style == "collide":     # same low 8 hash bits: stays together across two doublings
                k = unhash32((r.randrange(1 << 24) << 8) | r.choice(cols))
            else:
                k = unhash32((r.randrange(1 << 26) << 6) | (cols[0] & 63))
            if k not in seen:
                seen.add(k), keys.append(k)
    elif kind == "u64":
        cols = [r.randrange(64) for _ in range(2)]
        tries = 0
        if r.random() < 0.35:
            # pairs of distinct keys with the SAME full 32-bit hash (the two 32-bit windows of the xor swapped): equal hash must
            # not be taken for equal key
            while len(keys) < n - 1:
                a, b = r.randrange(1 << 32), r.randrange(1 << 32)
                b = (b & ~1) | (a >> 31)
                a = (a & ~1) | (b >> 31)
                x, y = a | ((b >> 1) << 32), b | ((a >> 1) << 32)
                if x != y and hash64(x) == hash64(y) and x not in seen and y not in seen:
                    seen.update((x, y)), keys.extend((x, y))
        while len(keys) < n:
            k = r.choice([r.randrange(1 << 64), r.randrange(1 << 33), r.randrange(1 << 31, 1 << 34), (1 << 64) - 1 - r.randrange(4)])
            tries += 1
            if style != "spread" and tries < 40 * n and (hash64(k) & 63) not in cols:
                continue
            if k not in seen:
                seen.add(k), keys.append(k)
    elif kind == "str":
        cols = [r.randrange(64) for _ in range(2)]
        tries = 0
        while len(keys) < n:
            ln = r.choice([0, 1, 2, 3, 4, 5, 7, 8, 9, 12, 16, 17, 20, 33])
            k = bytes(r.randrange(1, 256) for _ in range(ln))
            tries += 1
            if style != "spread" and tries < 40 * n and (wyhash32(k) & 63) not in cols:
                continue
            if k not in seen:
                seen.add(k), keys.append(k)
    else:
        while len(keys) < n:
            k = r.randrange(1, 4 * n + 8)
            if k not in seen:
                seen.add(k), keys.append(k)
    return keys


class HmRef:
    """plain reference: dict + recency list"""

    def __init__(self, kind):
        self.kind, self.d, self.nodes, self.lru, self.maxc = kind, {}, [], False, 0

    def ktok(self, k):
        return [] if self.kind in ("u32", "u64") else ["k" + (H(k) if self.kind == "str" else str(k))]

    def touch(self, k):
        if k in self.nodes:
            self.nodes.remove(k)
        self.nodes.append(k)

    def drop(self, k):
        v = self.d.pop(k)
        if k in self.nodes:
            self.nodes.remove(k)
        return self.ktok(k) + ["v%d" % v]

    def put(self, k, v):
        fr = []
        if k in self.d:
            fr = self.ktok(k) + ["v%d" % self.d[k]]
        self.d[k] = v
        if self.lru:
            self.touch(k)
            while self.nodes and len(self.d) > self.maxc:
                fr += self.drop(self.nodes[0])
        return fr

    def get(self, k):
        if k in self.d and self.lru:
            self.touch(k)
        return self.d.get(k)

    def ren(self, a, b):
        if a not in self.d:
            return []
        v = self.d[a]
        self.d[a] = 0
        fr = [t for t in self.drop(a) if t != "v0"]
        if b in self.d:
            fr += self.ktok(b) + ["v%d" % self.d[b]]
        self.d[b] = v
        if self.lru:
            self.touch(b)
        return fr

    def clear(self):
        fr = []
        for k in list(self.d):
            fr += self.drop(k)
        return fr


def _free(line):
    m = re.search(r" free=(\S+)", line)
    return sorted(m.group(1).split(",")) if m and m.group(1) != "-" else []


def case_hm(r, big=False):
    kind = r.choice(["u32", "u64", "str", "ptr", "ptr"])
    M, S = r.choice([(0, 1), (1, 1), (3, 1), (0, 64), (2, 64), (5, 1 << 20), (0, 1 << 26)]) if kind == "ptr" else (0, 1)
    nkeys = r.choice([6, 12, 40, 90, 150, 300] if not big else [150, 300, 600, 1100])
    keys = hm_keys(r, kind, nkeys, M, S)
    ks = (lambda k: H(k)) if kind == "str" else str
    ops = ["hm new %s %d %d" % (kind, M, S)]
    ref = HmRef(kind)
    exp = [None]
    lru_n = r.choice([None, None, None, None, 0, 1, 2, 3, 10, 63, 64, 70, 130, 300])
    lru_at = 0 if r.random() < 0.7 else r.randrange(1, 40)
    nops = r.choice([30, 80, 200, 500] if not big else [1500, 3000])
    if nkeys >= 90 and nops < 200:
        nops = 400
    vid = [0]
    phase_len = max(10, nops // r.choice([2, 3, 4]))
    for i in range(nops):
        if lru_n is not None and i == lru_at or (ref.lru and r.random() < 0.004):
            n = lru_n if i == lru_at else r.choice([0, 2, 50])
            ops.append("hm lru %d" % n), exp.append(("ok",))
            ref.lru, ref.maxc = True, n
        phase = (i // phase_len) % 3          # fill / churn / drain
        w = [(8, "put"), (2, "get"), (1, "rm"), (1, "ren")] if phase == 0 else \
            [(3, "put"), (3, "get"), (3, "rm"), (2, "ren"), (0.3, "clear")] if phase == 1 else \
            [(1, "put"), (2, "get"), (8, "rm"), (1, "ren"), (0.1, "clear")]
        x = r.random() * sum(a for a, _ in w)
        for a, op in w:
            x -= a
            if x <= 0:
                break
        live = list(ref.d)
        pick = lambda: r.choice(live) if live and r.random() < 0.75 else r.choice(keys)
        if op == "put":
            k = r.choice(keys) if r.random() < 0.7 or not live else r.choice(live)
            vid[0] += 1
            ops.append("hm put %s %d" % (ks(k), vid[0]))
            fr = ref.put(k, vid[0])
            exp.append(("put", 0, len(ref.d), sorted(fr)))
        elif op == "get":
            k = pick()
            ops.append("hm get %s" % ks(k))
            exp.append(("get", ref.get(k)))
        elif op == "rm":
            k = pick()
            ops.append("hm rm %s" % ks(k))
            had = k in ref.d
            fr = ref.drop(k) if had else []
            exp.append(("rm", int(had), len(ref.d), sorted(fr)))
        elif op == "ren":
            a, b = pick(), (r.choice(live) if live and r.random() < 0.4 else r.choice(keys))
            ops.append("hm ren %s %s" % (ks(a), ks(b)))
            fr = ref.ren(a, b)
            exp.append(("ren", 0, len(ref.d), sorted(fr)))
        else:
            ops.append("hm clear")
            exp.append(("clear", 0, sorted(ref.clear())))
        if r.random() < 0.04 or i == nops - 1:
            ops.append("hm iter"), exp.append(("iter", sorted("%s=%d" % (ks(k), v) for k, v in ref.d.items())))
            ops.append("hm raw"), exp.append(("raw", len(ref.d), [ks(k) for k in ref.nodes]))
            ops.append("hm count"), exp.append(("count", len(ref.d)))
    ops.append("hm destroy")
    exp.append(("destroy", sorted(ref.clear())))

    def oracle(out, exp=exp, ops=ops):
        for i, (e, line) in enumerate(zip(exp, out)):
            w = line.split()
            if e is None or e[0] == "ok":
                ok = w == ["ok"]
            elif e[0] in ("put", "rm", "ren"):
                ok = w[0] == e[0] and int(w[1]) == e[1] and w[2] == "n=%d" % e[2] and _free(line) == e[3]
            elif e[0] == "get":
                ok = w == ["get", "nil" if e[1] is None else str(e[1])]
            elif e[0] == "clear":
                ok = w[:2] == ["clear", "n=0"] and _free(line) == e[2]
            elif e[0] == "iter":
                ok = w[0] == "iter" and sorted(w[1:]) == e[1]
            elif e[0] == "count":
                ok = w == ["count", str(e[1])]
            elif e[0] == "raw":
                lru = re.search(r" lru=(\S+)", line).group(1)
                ok = "lrubad" not in line and "cnt=%d " % e[1] in line and ([] if lru == "none" else lru.split(",")) == e[2]
                for b in re.search(r" b=(\S*)", line).group(1).split(";"):
                    if b:
                        u, t = map(int, b.split(":")[1].split("/"))
                        ok = ok and (u <= t)
            else:
                ok = w[0] == "destroy" and _free(line) == e[1] and w[-1] == "leak=0"
            if not ok:
                return "hash map (%s) differs from the reference at op %d `%s`: got `%s`, reference %s" % (
                    ops[0], i, ops[i], line[:300], str(e)[:300])
        return None
    return Case("hm-" + kind + ("-lru" if lru_n is not None else ""), ops, oracle)


# ---------------------------------------------------------------- unit list / pointer list

def _items(line):
    m = re.search(r"\[(.*)\]", line)
    return [] if not m.group(1) else m.group(1).split(",")


def _san(line):
    m = re.search(r" s=(\d+) a=(\d+) n=(\d+) ", line)
    return tuple(map(int, m.groups()))


def case_list(r, which, big=False):
    ul = which == "ul"
    us = r.choice([1, 2, 4, 8, 3, 16]) if ul else 0
    ini = r.choice([0, 0, 1, 2, 5, 31, 32, 33, 40, 70])
    ops = ["ul new %d %d" % (us, ini) if ul else "pl new %d" % ini]
    exp = [("ok",)]
    ref = []
    nops = r.choice([20, 60, 150, 400]) if not big else r.choice([800, 2000])
    alphabet = r.choice([3, 10, 250])

    def item():
        if ul:
            return bytes(r.randrange(alphabet) for _ in range(us))
        return bytes(r.randrange(alphabet) for _ in range(r.choice([0, 1, 1, 2, 3, 5, 9, 17])))
    phase_len = max(8, nops // r.choice([2, 3, 5]))
    longshift = (not ul) and r.random() < 0.15      # reach the start % 256 compaction of iwlist_shift
    if longshift:
        for _ in range(r.choice([300, 530, 600, 1100])):
            x = item()
            ops.append("pl push " + H(x)), exp.append(("rc", "push", 0)), ref.append(x)
    if longshift and r.random() < 0.6:
        # plain queue use: nothing but shifts across the compaction points (start = 256, 512, ...), every result checked
        for _ in range(r.choice([256, 257, 300, 520])):
            if not ref:
                break
            ops.append("pl shift"), exp.append(("item", "shift", ref.pop(0)))
        ops.append("pl dump"), exp.append(("list", "dump", list(ref)))
    for i in range(nops):
        phase = (i // phase_len) % 3
        if longshift and i < nops // 2:
            phase = 2
        grow, take = (6, 1) if phase == 0 else (3, 3) if phase == 1 else (1, 7)
        w = [(grow, "push"), (grow, "unshift"), (grow * 0.7, "insert"), (take, "pop"), (take, "shift"), (take * 0.7, "rm"),
             (1, "set"), (1, "get"), (0.4, "len"), (0.3, "sort"), (0.3, "clone"), (0.4, "dump")]
        if ul:
            w += [(0.5, "find"), (0.6, "rmby"), (0.1, "clear"), (0.1, "reset"), (0.2, "copy")]
        x = r.random() * sum(a for a, _ in w)
        for a, op in w:
            x -= a
            if x <= 0:
                break
        n = len(ref)
        idx = lambda hi: r.choice([0, hi, max(0, hi - 1), r.randrange(hi + 1), hi + 1, hi + 5]) if hi >= 0 else 0
        p = which + " "
        if op in ("push", "unshift"):
            v = item()
            ops.append(p + op + " " + H(v)), exp.append(("rc", op, 0))
            ref.append(v) if op == "push" else ref.insert(0, v)
        elif op == "insert":
            j, v = idx(n), item()
            ops.append(p + "insert %d %s" % (j, H(v)))
            if j <= n:
                ref.insert(j, v)
            exp.append(("rc", "insert", int(j > n)))
        elif op == "set":
            j, v = idx(n - 1), item()
            ops.append(p + "set %d %s" % (j, H(v)))
            if j < n:
                ref[j] = v
            exp.append(("rc", "set", int(j >= n)))
        elif op in ("pop", "shift", "rm"):
            j = n - 1 if op == "pop" else 0 if op == "shift" else idx(n - 1)
            ops.append(p + op + (" %d" % j if op == "rm" else ""))
            got = ref.pop(j) if 0 <= j < n else None
            exp.append(("rc", op, int(got is None)) if ul else ("item", op, got))
        elif op == "get":
            j = idx(n - 1)
            ops.append(p + "get %d" % j), exp.append(("item", "get", ref[j] if j < n else None))
        elif op == "len":
            ops.append(p + "len"), exp.append(("len", n))
        elif op == "sort":
            ref.sort()
            ops.append(p + "sort"), exp.append(("ok1", "sort"))
        elif op in ("clone", "dump", "copy"):
            ops.append(p + op), exp.append(("list", op, list(ref)))
        elif op == "find":
            v = r.choice(ref) if ref and r.random() < 0.7 else item()
            ops.append(p + "find " + H(v)), exp.append(("find", ref.index(v) if v in ref else -1))
        elif op == "rmby":
            v = r.choice(ref) if ref and r.random() < 0.7 else item()
            ops.append(p + "rmby " + H(v)), exp.append(("rc", "rmby", int(v in ref)))
            if v in ref:
                ref.remove(v)
        elif op == "clear":
            ref.clear()
            ops.append(p + "clear"), exp.append(("rc", "clear", 0))
        elif op == "reset":
            ref.clear()
            ops.append(p + "reset"), exp.append(("ok1", "reset"))
    ops.append(p + "dump"), exp.append(("list", "dump", list(ref)))
    ops.append(p + "destroy"), exp.append(("destroy",))

    def oracle(out, exp=exp, ops=ops):
        for i, (e, line) in enumerate(zip(exp, out)):
            w = line.split()
            if e[0] == "ok":
                ok = w == ["ok"]
            elif e[0] == "rc":
                ok = w == [e[1], str(e[2])]
            elif e[0] == "ok1":
                ok = w == [e[1]]
            elif e[0] == "item":
                ok = w == [e[1], "nil" if e[2] is None else H(e[2])]
            elif e[0] == "len":
                ok = w == ["len", str(e[1])]
            elif e[0] == "find":
                ok = w == ["find", str(e[1])]
            elif e[0] == "list":
                s, a, n = _san(line)
                ok = w[0] == e[1] and _items(line) == [H(x) for x in e[2]] and n == len(e[2]) and s + n <= a and \
                    "mismatch" not in line and "noterm" not in line
            else:
                ok = w == ["destroy", "leak=0"]
            if not ok or "inconsistent" in line:
                return "%s differs from the reference list at op %d `%s`: got `%s`, reference %s" % (
                    "iwulist" if ul else "iwlist", i, ops[i], line[:300], str(e)[:300])
        return None
    return Case(which + ("-long" if longshift else ""), ops, oracle)


# ---------------------------------------------------------------- sorted array helpers

def case_sa(r, big=False):
    ops, exp, ref = ["sa new"], [("ok",)], []
    span = r.choice([3, 8, 40, 1000])
    for i in range(r.choice([10, 40, 120]) if not big else 600):
        v = r.randrange(-span, span)
        op = r.choice(["ins", "ins", "ins", "rm", "find", "find", "dump"])
        if op == "ins":
            sk = r.randrange(2)
            ops.append("sa ins %d %d" % (v, sk))
            if sk and v in ref:
                exp.append(("ins", None, None, v))
            else:
                bisect.insort(ref, v)
                exp.append(("ins", list(ref), None, v))
        elif op == "rm":
            ops.append("sa rm %d" % v)
            exp.append(("rm", list(ref), v))
            if v in ref:
                ref.remove(v)
        elif op == "find":
            ops.append("sa find %d" % v), exp.append(("find", list(ref), v))
        else:
            ops.append("sa dump"), exp.append(("dump", list(ref)))
    ops.append("sa dump"), exp.append(("dump", list(ref)))
    ops.append("sa destroy"), exp.append(("ok1",))

    def oracle(out, exp=exp, ops=ops):
        for i, (e, line) in enumerate(zip(exp, out)):
            w = line.split()
            ok = True
            if e[0] == "ok":
                ok = w == ["ok"]
            elif e[0] == "ins":
                j = int(w[1])
                ok = (j == -1) if e[1] is None else (0 <= j < len(e[1]) and e[1][j] == e[3])
            elif e[0] == "rm":
                j = int(w[1])
                ok = (0 <= j < len(e[1]) and e[1][j] == e[2]) if e[2] in e[1] else j == -1
            elif e[0] == "find":
                a, v = e[1], e[2]
                j, j2, f = int(w[1]), int(w[2]), int(w[3])
                if v in a:
                    ok = 0 <= j < len(a) and a[j] == v and f == 1 and a[j2] == v
                else:
                    ok = j == -1 and f == 0 and 0 <= j2 <= len(a) and all(x < v for x in a[:j2]) and all(x > v for x in a[j2:])
            elif e[0] == "dump":
                ok = line == "dump [" + ",".join(map(str, e[1])) + "]"
            if not ok:
                return "sorted array helper differs at op %d `%s`: got `%s`, reference array %s" % (i, ops[i], line[:200], str(e[1])[:200])
        return None
    return Case("sa", ops, oracle)


# ---------------------------------------------------------------- AVL

def _parse_tree(s):
    pos = [0]

    def node():
        if s[pos[0]] == ".":
            pos[0] += 1
            return None
        assert s[pos[0]] == "("
        pos[0] += 1
        m = re.match(r"-?\d+", s[pos[0]:])
        k = int(m.group(0))
        pos[0] += len(m.group(0))
        b = "-=+".index(s[pos[0]]) - 1
        pos[0] += 1
        l = rt = None
        if s[pos[0]] != ")":
            l = node()
            rt = node()
        assert s[pos[0]] == ")"
        pos[0] += 1
        return (l, k, b, rt)
    t = node()
    assert pos[0] == len(s)
    return t


def _check_tree(t):
    """returns (height, inorder, postorder) or raises"""
    if t is None:
        return 0, [], []
    hl, il, pl = _check_tree(t[0])
    hr, ir, pr = _check_tree(t[3])
    if t[2] != hr - hl or abs(hr - hl) > 1:
        raise ValueError("balance factor %d at key %d but heights %d/%d" % (t[2], t[1], hl, hr))
    return max(hl, hr) + 1, il + [t[1]] + ir, pl + pr + [t[1]]


def case_av(r, big=False):
    ops, exp, ref = ["av new"], [("ok",)], []
    span = r.choice([8, 30, 200, 5000])
    nops = r.choice([20, 80, 300]) if not big else 3000
    style = r.choice(["random", "ascending", "descending", "random"])
    nxt = [0]
    phase_len = max(8, nops // r.choice([2, 3]))
    for i in range(nops):
        phase = (i // phase_len) % 2
        op = r.choice(["ins"] * (6 if phase == 0 else 2) + ["rm"] * (1 if phase == 0 else 6) + ["has", "bounds", "bounds", "dump"] + (["iter", "riter", "post"] if r.random() < 0.2 else []))
        if style == "random" or op != "ins":
            k = r.choice(ref) if ref and r.random() < (0.7 if op != "ins" else 0.15) else r.randrange(-span, span)
        else:
            nxt[0] += 1
            k = nxt[0] if style == "ascending" else -nxt[0]
        j = bisect.bisect_left(ref, k)
        present = j < len(ref) and ref[j] == k
        if op == "ins":
            ops.append("av ins %d" % k), exp.append(("w", "ins %d" % (not present)))
            if not present:
                ref.insert(j, k)
        elif op == "rm":
            ops.append("av rm %d" % k), exp.append(("w", "rm %d" % present))
            if present:
                ref.pop(j)
        elif op == "has":
            ops.append("av has %d" % k), exp.append(("w", "has %d" % present))
        elif op == "bounds":
            lb = k if present else (ref[j - 1] if j > 0 else None)
            ub = k if present else (ref[j] if j < len(ref) else None)
            ops.append("av bounds %d" % k), exp.append(("w", "bounds %s %s" % ("nil" if lb is None else lb, "nil" if ub is None else ub)))
        elif op in ("iter", "riter"):
            ks = ref if op == "iter" else ref[::-1]
            ops.append("av " + op), exp.append(("w", (op + " " + " ".join(map(str, ks))).strip()))
        elif op == "post":
            ops.append("av dump"), exp.append(("dump", list(ref)))
            ops.append("av post"), exp.append(("post",))
        else:
            ops.append("av dump"), exp.append(("dump", list(ref)))
    ops.append("av dump"), exp.append(("dump", list(ref)))
    ops.append("av destroy"), exp.append(("w", "destroy leak=0"))

    def oracle(out, exp=exp, ops=ops):
        lastpost = None
        for i, (e, line) in enumerate(zip(exp, out)):
            msg = None
            if e[0] == "ok":
                ok = line == "ok"
            elif e[0] == "w":
                ok = line.strip() == e[1]
            elif e[0] == "dump":
                try:
                    ok = not line.endswith("badparent")
                    h, ino, lastpost = _check_tree(_parse_tree(line.split()[1]))
                    ok = ok and ino == e[1]
                except Exception as ex:
                    ok, msg = False, str(ex)
            else:
                ok = line.split()[1:] == [str(k) for k in lastpost]
            if not ok:
                return "AVL tree differs from the reference set at op %d `%s`: got `%s`, reference %s %s" % (i, ops[i], line[:300], str(e)[:200], msg or "")
        return None
    return Case("av-" + style, ops, oracle)


# ---------------------------------------------------------------- ring buffer

class RbRef:
    """plain reference of the ring for put / back / clear (the two-list reference the Lean theorem `ring_refines_ref` uses,
    written independently): `a` = cells before the cursor, newest first; `b` = cells from the cursor to the end of the
    buffer (wrapped ring only).  `back` on a wrapped ring rotates (the newest element becomes the oldest), from cursor 1 the
    ring reports empty."""

    def __init__(self, ln):
        self.ln, self.a, self.b, self.wrapped = ln, [], [], False

    def put(self, x):
        if self.wrapped and self.b:
            self.a, self.b = [x] + self.a, self.b[:-1]
        elif not self.wrapped and len(self.a) < self.ln:
            self.a = [x] + self.a
        else:
            self.a, self.b, self.wrapped = [x], self.a[:-1], True

    def back(self):
        if not self.wrapped:
            self.a = self.a[1:]
        elif len(self.a) == 1:
            self.a, self.b, self.wrapped = [], [], False
        elif self.a:
            self.a, self.b = self.a[1:], self.b + [self.a[0]]

    def clear(self):
        self.a, self.b, self.wrapped = [], [], False

    def it(self):
        return self.a + self.b

    def peek(self):
        return self.a[0] if self.a else None

    def num(self):
        return self.ln if self.wrapped else len(self.a)


def case_rb(r, big=False):
    us, ln = r.choice([1, 2, 4, 8]), r.choice([1, 2, 3, 5, 8, 33])
    ops, exp = ["rb new %d %d" % (us, ln)], [("w", "ok")]
    ref = RbRef(ln)
    allow_back = r.random() < 0.6
    nback_wrapped = 0
    burst = 0
    for i in range(r.choice([10, 40, 120]) if not big else 1000):
        if burst > 0:                      # runs of `back` walk the cursor of a wrapped ring down to cell 1 and beyond
            op, burst = "back", burst - 1
        else:
            op = r.choice(["put"] * 6 + ["peek", "num", "iter", "iter"] + (["back"] * 2 if allow_back else []) + (["clear"] if r.random() < 0.1 else []))
            if op == "back" and r.random() < 0.25:
                burst = r.choice([1, 2, ln - 1, ln, ln + 1])
        if op == "put":
            v = bytes(r.randrange(256) for _ in range(us))
            ops.append("rb put " + H(v)), exp.append(("w", "put"))
            ref.put(v)
        elif op == "back":
            ops.append("rb back"), exp.append(("w", "back"))
            nback_wrapped += ref.wrapped
            ref.back()
            ops.append("rb iter"), exp.append(("w", ("iter " + " ".join(H(x) for x in ref.it())).strip()))
        elif op == "clear":
            ops.append("rb clear"), exp.append(("w", "clear"))
            ref.clear()
        elif op == "peek":
            ops.append("rb peek"), exp.append(("w", "peek " + (H(ref.peek()) if ref.peek() is not None else "nil")))
        elif op == "num":
            ops.append("rb num"), exp.append(("w", "num %d" % ref.num()))
        else:
            ops.append("rb iter"), exp.append(("w", ("iter " + " ".join(H(x) for x in ref.it())).strip()))
    ops.append("rb peek"), exp.append(("w", "peek " + (H(ref.peek()) if ref.peek() is not None else "nil")))
    ops.append("rb num"), exp.append(("w", "num %d" % ref.num()))
    ops.append("rb destroy"), exp.append(("w", "destroy leak=0"))

    def oracle(out, exp=exp, ops=ops):
        for i, (e, line) in enumerate(zip(exp, out)):
            if e is not None and line.strip() != e[1]:
                return "ring buffer differs from the put/back reference at op %d `%s`: got `%s`, reference `%s`" % (i, ops[i], line[:200], e[1][:200])
        return None
    return Case("rb" + ("-back" if allow_back else "") + ("-wrappedback" if nback_wrapped else ""), ops, oracle)


# ---------------------------------------------------------------- growable string

def case_xs(r, big=False):
    ops, exp = [], []
    data = bytearray()
    ud = [None]
    term = [True]
    boundary = set()

    def blob(mx=40):
        n = r.choice([0, 1, 2, 7, 15, 16, 17, r.randrange(mx), r.randrange(mx)])
        return bytes(r.randrange(1, 256) for _ in range(n))
    if r.random() < 0.2:
        b, asz = blob(), r.choice([0, 1, 5, 16, 64])
        ops.append("xs wrap %s %d" % (H(b), asz))
        data += b
    else:
        ops.append("xs new %d" % r.choice([0, 0, 1, 2, 16, 100]))
    exp.append(("w", "ok"))
    uid = [0]
    for i in range(r.choice([10, 40, 100]) if not big else 800):
        op = r.choice(["cat", "cat", "cat2", "unshift", "shift", "pop", "insert", "insert", "printf", "iprintf", "clear", "dump", "dump", "clone",
                       "setsize", "ud", "udget", "uddetach"])
        if op in ("cat", "cat2", "unshift"):
            b = blob() if r.random() < 0.95 else blob(3000)
            ops.append("xs %s %s" % (op, H(b))), exp.append(("w", op + " 0"))
            data[:] = (data + b) if op != "unshift" else (b + data)
            term[0] = True
        elif op in ("shift", "pop"):
            n = r.choice([0, 1, 2, len(data), len(data) + 3, r.randrange(len(data) + 1)])
            ops.append("xs %s %d" % (op, n)), exp.append(("w", op))
            if n:
                data[:] = data[n:] if op == "shift" else data[:max(0, len(data) - n)]
                term[0] = True
        elif op == "insert":
            pos, b = r.choice([0, len(data), len(data) + 1, r.randrange(len(data) + 1)]), blob()
            ops.append("xs insert %d %s" % (pos, H(b)))
            if pos <= len(data):
                data[pos:pos] = b
            exp.append(("w", "insert %d" % (pos > len(data))))
        elif op in ("printf", "iprintf"):
            s = blob() if r.random() < 0.8 else blob(2500)
            v = r.choice([0, -1, 7, 1 << 40, -(1 << 62)])
            if r.random() < 0.35:
                # formatted length right at the 1024-byte stack buffer of iwxstr_printf_va / iwxstr_insert_vaprintf:
                # 1023 = last length served from the stack buffer, 1024 = first one that needs the heap buffer
                tot = r.choice([1022, 1023, 1023, 1024, 1024, 1025, 1025, 1026, 2047, 2048])
                s = bytes(r.randrange(33, 127) for _ in range(tot - 1 - len(str(v))))
                boundary.add(tot)
            f = s + b"|" + str(v).encode()
            if op == "printf":
                ops.append("xs printf %s %d" % (H(s), v)), exp.append(("w", "printf 0"))
                data += f
                term[0] = True
            else:
                pos = r.choice([0, len(data), len(data) + 1, r.randrange(len(data) + 1)])
                ops.append("xs iprintf %d %s %d" % (pos, H(s), v)), exp.append(("w", "iprintf %d" % (pos > len(data))))
                if pos <= len(data):
                    data[pos:pos] = f
        elif op == "clear":
            ops.append("xs clear"), exp.append(("w", "clear"))
            data[:] = b""
            term[0] = True
        elif op == "setsize":
            n = r.randrange(len(data) + 1)
            ops.append("xs setsize %d" % n), exp.append(("pfx", "setsize 0 size=%d " % n))
            if n < len(data):
                term[0] = None
            data[:] = data[:n]
        elif op in ("dump", "clone"):
            ops.append("xs " + op), exp.append(("dump", op, bytes(data), True if op == "clone" else term[0]))
        elif op == "ud":
            uid[0] += 1
            ops.append("xs ud %d" % uid[0]), exp.append(("w", "ud free=" + ("u%d" % ud[0] if ud[0] else "-")))
            ud[0] = uid[0]
        elif op == "udget":
            ops.append("xs udget"), exp.append(("w", "udget %d" % (ud[0] or 0)))
        else:
            ops.append("xs uddetach"), exp.append(("w", "uddetach %d" % (ud[0] or 0)))
            ud[0] = None
    fin = r.choice(["destroy", "destroy", "keep"])
    ops.append("xs " + fin), exp.append(("w", ("destroy" if fin == "destroy" else "keep ptr") + " free=" + ("u%d" % ud[0] if ud[0] else "-") + " leak=0"))

    def oracle(out, exp=exp, ops=ops):
        for i, (e, line) in enumerate(zip(exp, out)):
            if e[0] == "w":
                ok = line.strip() == e[1]
            elif e[0] == "pfx":
                ok = line.startswith(e[1])
            else:
                m = re.fullmatch(r"(\w+) size=(\d+) asize=(\d+) (\S+) term=(\d)", line.strip())
                ok = bool(m) and m.group(1) == e[1] and int(m.group(2)) == len(e[2]) and int(m.group(3)) > len(e[2]) and m.group(4) == H(e[2]) \
                    and (e[3] is None or int(m.group(5)) == int(e[3]))
            if not ok:
                return "iwxstr differs from the reference byte string at op %d `%s`: got `%s`, reference %s" % (i, ops[i][:120], line[:200], str(e)[:200])
        return None
    return Case("xs" + "".join("-b%d" % t for t in sorted(boundary) if t in (1023, 1024, 1025)), ops, oracle)


# ---------------------------------------------------------------- memory pool

def py_split(hay, chars, ws):
    """reference: cut at every separator; what follows the last separator counts only if non-empty; optionally strip"""
    toks, cur = [], bytearray()
    for c in hay:
        if c in chars:
            toks.append(bytes(cur))
            cur = bytearray()
        else:
            cur.append(c)
    if cur:
        toks.append(bytes(cur))
    if ws:
        toks = [t.strip(b" \t\n\v\f\r") for t in toks]
    return toks


class PoCase(Case):
    """a pool case with the situations its history went through (for the evidence histogram)"""
    tags = ()


def case_po(r, big=False):
    ops, exp = [], []
    if r.random() < 0.15:
        ops.append("po newempty"), exp.append(("stat",))
    else:
        ops.append("po new %d" % r.choice([0, 1, 8, 16, 17, 64, 100, 1000])), exp.append(("stat",))
    # reference for ownership (written from the documented contract of iwpool_ref / iwpool_destroy, independent of the Lean model):
    # every pool has a reference count; iwpool_destroy drops one reference and only the drop of the last one frees the pool
    # (its user data goes to the free function exactly then); a freed parent lets go of its children by dropping ONE reference
    # on each: a child somebody else still references lives on without parent and keeps its user data until its last holder
    # destroys it.
    ud = [None]
    kids = {}          # handle -> [refs, user data id]   (attached while the main pool lives, orphans afterwards)
    uid = [0]
    nk = [0]
    refs = [1]
    tags = set()
    fu = lambda x: "u%d" % x if x else "-"

    def child_op(op, c, last_family=False):
        """one call through child handle c; returns (op line, expected line)"""
        k = kids[c]
        if op == "calloc2":
            return "po calloc2 %d %d" % (c, r.choice([1, 8, 30, 200])), ("pfx", "calloc2 ")
        if op == "cud":
            uid[0] += 1
            old, k[1] = k[1], uid[0]
            return "po cud %d %d" % (c, uid[0]), ("w", "cud free=" + fu(old))
        if op == "cref":
            k[0] += 1
            return "po cref %d" % c, ("w", "cref %d" % k[0])
        k[0] -= 1                                   # cdestroy
        if k[0] > 0:
            tags.add("cdestroy-keeps")
            return "po cdestroy %d" % c, ("w", "cdestroy 0 free=-")
        del kids[c]
        return "po cdestroy %d" % c, ("w", "cdestroy 1 free=" + fu(k[1]) + (" leak=0" if last_family and not kids else ""))

    for i in range(r.choice([8, 30, 80]) if not big else 600):
        op = r.choice(["alloc", "alloc", "calloc", "strdup", "strdup", "strndup", "printf", "split", "split", "psplit", "copyarr",
                       "child", "child", "calloc2", "cud", "cud", "cdestroy", "cdestroy", "cref", "ud", "udget", "uddetach", "ref", "destroy"])
        if op in ("alloc", "calloc"):
            n = r.choice([1, 7, 8, 9, 16, 24, 100, r.randrange(1, 300), 5000 if r.random() < 0.1 else 3])
            ops.append("po %s %d" % (op, n)), exp.append(("alloc", op, n, None))
        elif op in ("strdup", "strndup", "printf"):
            s = bytes(r.randrange(1, 256) for _ in range(r.choice([0, 1, 7, 8, 15, 16, 40, r.randrange(200)])))
            if op == "strdup":
                ops.append("po strdup " + H(s)), exp.append(("alloc", op, len(s) + 1, s))
            elif op == "strndup":
                k = r.randrange(len(s) + 1)
                ops.append("po strndup %s %d" % (H(s), k)), exp.append(("alloc", op, k + 1, s[:k]))
            else:
                v = r.choice([0, -5, 123456789012])
                f = s + b"|" + str(v).encode()
                ops.append("po printf %s %d" % (H(s), v)), exp.append(("alloc", op, len(f) + 1, f))
        elif op in ("split", "psplit"):
            chars = bytes(r.sample([44, 58, 59, 124, 32], r.choice([1, 1, 2])))
            alpha = list(chars) + [97, 98, 99, 32, 32, 9] + ([10] if r.random() < 0.2 else [])
            hay = bytes(r.choice(alpha) for _ in range(r.choice([0, 1, 1, 2, 3, 5, 8, 13, 30, 90])))
            if r.random() < 0.15:            # blank tokens, separators at both ends, white space only
                hay = r.choice([b" ", b"  ", bytes(chars[:1]), bytes(chars[:1]) * 2, b" " + bytes(chars[:1]) + b" ", b"a" + bytes(chars[:1]),
                                bytes(chars[:1]) + b"a", b" a ", b"\t" + bytes(chars[:1]) + b" \n", b"a " + bytes(chars[:1]) + b" "])
            wsf = r.randrange(2)
            ops.append("po %s %s %s %d" % (op, H(hay), H(chars), wsf))
            exp.append(("w", (op + " " + " ".join(H(t) for t in py_split(hay, chars, wsf))).strip()))
        elif op == "copyarr":
            v = [bytes(r.randrange(1, 256) for _ in range(r.choice([0, 1, 3, 8, 9, 20]))) for _ in range(r.choice([0, 1, 1, 2, 3, 7]))]
            ops.append(("po copyarr " + " ".join(H(x) for x in v)).strip())
            exp.append(("w", ("copyarr " + " ".join(H(x) for x in v) + " end") if v else "copyarr nil"))
        elif op == "child":
            if nk[0] >= 16:
                continue
            ops.append("po child %s" % r.choice(["e", "0", "16", "64"])), exp.append(("w", "child %d" % nk[0]))
            kids[nk[0]] = [1, None]
            nk[0] += 1
        elif op in ("calloc2", "cud", "cdestroy", "cref"):
            if not kids:
                continue
            c = r.choice(list(kids))
            if op == "cref" and kids[c][0] >= 4:
                op = "cdestroy"
            o, e = child_op(op, c)
            ops.append(o), exp.append(e)
            if op == "cdestroy" and r.random() < 0.1:       # a handle whose pool is gone (or still there: then it is one more call)
                if c in kids:
                    o, e = child_op("cdestroy", c)
                    ops.append(o), exp.append(e)
                else:
                    ops.append("po %s %d%s" % (("cdestroy", c, "") if r.random() < 0.5 else ("cud", c, " 99"))), exp.append(("pfx2", "nochild"))
        elif op == "ud":
            uid[0] += 1
            ops.append("po ud %d" % uid[0]), exp.append(("w", "ud free=" + fu(ud[0])))
            ud[0] = uid[0]
        elif op == "udget":
            ops.append("po udget"), exp.append(("w", "udget %d" % (ud[0] or 0)))
        elif op == "uddetach":
            ops.append("po uddetach"), exp.append(("w", "uddetach %d" % (ud[0] or 0)))
            ud[0] = None
        elif op == "ref":                                    # reference pairs in the middle of a history
            if refs[0] >= 3:
                continue
            refs[0] += 1
            ops.append("po ref"), exp.append(("w", "ref %d" % refs[0]))
        elif refs[0] > 1:                                    # "destroy" that only drops a reference
            refs[0] -= 1
            ops.append("po destroy"), exp.append(("w", "destroy 0 free=-"))
            tags.add("mid-unref")
    if r.random() < 0.2:
        refs[0] += 1
        ops.append("po ref"), exp.append(("w", "ref %d" % refs[0]))
    while refs[0] > 1:
        refs[0] -= 1
        ops.append("po destroy"), exp.append(("w", "destroy 0 free=-"))
    # the parent goes while 0..3 (more) children are referenced by somebody else
    for c in r.sample(list(kids), min(len(kids), r.choice([0, 0, 1, 1, 2, 3]))):
        for _ in range(r.choice([1, 1, 2])):
            o, e = child_op("cref", c)
            ops.append(o), exp.append(e)
    freed = [k[1] for k in kids.values() if k[0] == 1] + [ud[0]]
    for c in list(kids):
        kids[c][0] -= 1
        if kids[c][0] == 0:
            del kids[c]
    ops.append("po destroy")
    exp.append(("destroy", sorted(["u%d" % x for x in freed if x]), "orphans=%d" % len(kids) if kids else "leak=0"))
    norph = len(kids)
    if norph:
        tags.add("orph%d" % min(norph, 4))
    # the orphans are used and destroyed by their holders; the main pool is gone
    while kids:
        x = r.random()
        c = r.choice(list(kids))
        if x < 0.08:
            ops.append("po " + r.choice(["udget", "alloc 8", "ud 77", "ref", "destroy", "child 16"])), exp.append(("w", "no-pool"))
        elif x < 0.16 and nk[0] > len(kids):
            dead = [h for h in range(nk[0]) if h not in kids]
            ops.append("po %s %d" % (r.choice(["cdestroy", "cref"]), r.choice(dead))), exp.append(("pfx2", "nochild"))
        else:
            op = r.choice(["calloc2", "cud", "cud", "cref", "cdestroy", "cdestroy", "cdestroy"])
            if op == "cref" and kids[c][0] >= 3:
                op = "cdestroy"
            o, e = child_op(op, c, last_family=True)
            ops.append(o), exp.append(e)
            if op == "cdestroy" and c not in kids:
                tags.add("orphan-freed-ud" if "free=u" in e[1] else "orphan-freed")
    if norph and r.random() < 0.3:
        ops.append("po cdestroy 0"), exp.append(("w", "no-pool"))

    def oracle(out, exp=exp, ops=ops):
        regions = {}
        for i, (e, line) in enumerate(zip(exp, out)):
            w = line.split()
            ok = True
            if e[0] == "stat":
                ok = w[0] == "ok"
            elif e[0] == "w":
                ok = line.strip() == e[1]
            elif e[0] == "pfx":
                ok = line.startswith(e[1]) and "-1:" not in line
            elif e[0] == "pfx2":
                ok = len(w) == 2 and w[1] == e[1]
            elif e[0] == "alloc":
                u, o = map(int, w[1].split(":"))
                ok = w[0] == e[1] and u >= 0 and o % 8 == 0
                for (o2, n2) in regions.get(u, []):
                    if o < o2 + n2 and o2 < o + e[2]:
                        ok = False
                regions.setdefault(u, []).append((o, e[2]))
                if e[3] is not None:
                    ok = ok and w[2] == H(e[3])
                if e[1] == "calloc":
                    ok = ok and "zero=1" in line
                m = re.search(r"usiz=(\d+) asiz=(\d+)", line)
                ok = ok and int(m.group(1)) <= int(m.group(2)) and o + e[2] <= int(m.group(2))
            else:
                ok = w[:2] == ["destroy", "1"] and _free(line) == e[1] and w[-1] == e[2] and len(w) == 4
            if not ok:
                return "iwpool differs from the reference at op %d `%s`: got `%s`, reference %s" % (i, ops[i][:160], line[:200], str(e)[:200])
        if len(out) != len(exp):
            return "iwpool: %d result lines for %d calls" % (len(out), len(exp))
        return None
    c = PoCase("po-orph%d" % min(norph, 4) if norph else "po", ops, oracle)
    c.tags = sorted(tags)
    return c


GENS = [(case_hm, 6), (lambda r, big=False: case_list(r, "ul", big), 3), (lambda r, big=False: case_list(r, "pl", big), 3),
        (case_sa, 1.5), (case_av, 3), (case_rb, 1.5), (case_xs, 2), (case_po, 2)]


def gen_cases(r, n, big=False):
    tot = sum(w for _, w in GENS)
    out = []
    for _ in range(n):
        x = r.random() * tot
        for g, w in GENS:
            x -= w
            if x <= 0:
                out.append(g(r, big))
                break
    return out


def signature(case, prob):
    if prob[0] == "crash":
        return dict(kind="crash", op=case.kind.split("-")[0], site=prob[1]["site"], what=prob[1]["kind"])
    return dict(kind=prob[0], op=case.kind.split("-")[0], cls="")


HARNESS_EXCLUDE = ("iwhmap.c", "iwpool.c")


def explore(ctx, h, drv, n, label, big=False):
    r = C.Rng(ctx.seed, "c18/" + label)
    cases = gen_cases(r, n, big)
    for c in cases[:4]:
        ctx.sample(dict(kind=c.kind, ops=c.ops[:6], nops=len(c.ops)))
    for c in cases:
        ctx.hist("ops:" + c.kind.split("-")[0], len(c.ops))
        if c.kind.startswith(("rb", "xs", "po")):
            ctx.hist("kind:" + c.kind)
        for t in getattr(c, "tags", ()):
            ctx.hist("po:" + t)
    probs = differential(ctx, [h], [drv, "c18"] if drv else None, cases, timeout=900)
    for c in cases:
        for line in (c.impl or []):
            if line.startswith("raw "):
                m = re.search(r"mask=(\d+)", line)
                ctx.hist("hm-mask:" + m.group(1))
            elif line.startswith(("dump s=", "clone s=")):
                a = _san(line)[1]
                ctx.hist("list-anum:" + ("<=32" if a <= 32 else "<=128" if a <= 128 else ">128"))
    for c, p in probs:
        if p[0] == "diverge":
            ctx.corr_broken.append("model/implementation diverge in a %s case at op %d `%s`: impl `%s` model `%s`" % (
                c.kind, p[1], c.ops[p[1]][:100], p[2][:200], p[3][:200]))
            if len(ctx.corr_broken) <= 5:
                ctx.log("DIVERGE", c.kind, "op", p[1], c.ops[p[1]][:100], "| impl:", p[2][:160], "| model:", p[3][:160])
        else:
            cut = c.ops
            if p[0] == "crash" and c.impl is None:
                pass
            ctx.fail(signature(c, p), dict(case=c.kind, ops=cut, detail=p[1:]), str(p[1])[:400])
    return probs


def run(ctx):
    ctx.cov["rule"] = ("a case is one call sequence on one container from `new` to `destroy` (hash map kinds u32/u64/str/custom-hash with "
                       "keys aimed at few buckets by inverting the mixer / searching wyhash32, optional LRU bound, fill-churn-drain phases "
                       "that cross the 64/128/256 bucket and the 32-cell list thresholds; lists with edits at both ends; AVL with sorted and "
                       "random insertions; ring, xstr, pool); every op line is checked against a python reference; distinct = distinct op text")
    ctx.assumptions += ["malloc/realloc never fail (failure paths of the containers are not exercised)",
                        "iwxstr_set_size beyond the current size is not generated (the new bytes are uninitialised)",
                        "iwrb_create(usize, 0) is not generated (the first put overflows, documented quirk); ring length >= 1",
                        "strings handed to iwpool_split_string / printf contain no NUL byte",
                        "hash map keys: cmp_fn(a,b)==0 iff the keys are equal; string keys contain no NUL"]
    ctx.translate()
    ok, drv_ok = ctx.prove(MODULE, THEOREMS)
    impl = C.build_impl("asan")
    h = C.build_harness(impl, "h_c18", ["h_c18.c"], exclude=HARNESS_EXCLUDE)
    drv = C.drv_path() if drv_ok else None
    if ctx.tier == "quick":
        explore(ctx, h, drv, 3000, "main")
        explore(ctx, h, drv, 40, "big", big=True)
    else:
        for i in range(16):
            explore(ctx, h, drv, 4000, "main%d" % i)
        explore(ctx, h, drv, 800, "big", big=True)
    if (ctx.proof_broken or ctx.corr_broken) and not ctx.violations:
        ctx.log("obligation or correspondence broken: widening the search for a failing input")
        for i in range(3):
            explore(ctx, h, drv, 700, "search%d" % i)


def replay(ctx, obj):
    impl = C.build_impl("asan")
    h = C.build_harness(impl, "h_c18", ["h_c18.c"], exclude=HARNESS_EXCLUDE)
    rc, o, e = C.run_lines([h], obj["replay"]["ops"])
    print("\n".join(x[:300] for x in o[-40:]))
    print(e[-2000:])
    ctx.case("replay")
    ctx.case("replay2")
