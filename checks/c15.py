"""C15: JSON Patch gives the RFC 6902 result and a failed patch changes nothing."""
import copy, json
from vlib import common as C
from vlib.diff import Case, differential
from ._jwire import to_wire, from_wire, jeq, F64, Pairs, hx
from . import _binn as B
from . import _rfc as R
from . import _jgen as G

LEVEL = "proof"
# C functions this check's models mirror (source-text fingerprints are recorded in the evidence, see translate/funchash.py)
MODELLED_FUNCS = {'src/json/iwjson.c': ['_jbl_create_patch', '_jbl_target_apply_patch', '_jbl_node_find', '_jbn_remove_item', '_jbl_patch_node', '_jbl_patch', '_jbl_ptr_array_index', 'jbl_patch', 'jbl_patch_from_json', '_jbl_node_from_binn', '_jbl_from_node_impl']}
MANIFEST = dict(
    level="proof",
    text=("Lean 4 theorems over an executable model of iowow's JSON Patch (pointer decoding, look-up by cached array index, "
          "detach/insert, the nine operations, patch-text decoding, the decode-patch-encode-swap wrapper of the binary form): "
          "the cached indexes equal positions after every operation of any kind (klidx_inv); for every document with distinct "
          "member names and every sequence of add/remove/replace/move/copy/test, RFC 6902 accepts => the model returns exactly "
          "the RFC result, RFC 6902 rejects => the model reports an error (hypotheses exclude only the two listed dialect "
          "findings: path '/', '-' outside insertions); the sorted member comparison behind test = RFC JSON equality; a failed "
          "patch leaves the binary document unchanged for every patch document; the binary entry points are also modelled on "
          "the binn BYTES as the composition C14 reader -> tree patch -> C14 writer -> swap (jbl_bytes_*): for every holder "
          "whose bytes decode to a well-formed document and every RFC 6902 program, success => the new bytes decode to exactly "
          "the RFC result of the decoded old bytes and are well-formed again (so the statement iterates over a list of patch "
          "documents: jbl_bytes_rfc_seq_partial), a result the binary form cannot hold (key > 255 bytes, keys equal ignoring "
          "ASCII case) => JBL_ERROR_CREATION, any error on any holder => bytes unchanged; the model is tied to the code by a "
          "differential run of jbn_patch / jbn_patch_auto / jbl_patch / jbl_patch_from_json against the compiled Lean "
          "definitions on generated documents x patch programs - for the binary entry points also byte for byte (binn bytes "
          "in, the holder's buffer out, single calls and sequences of calls on one holder) - with an independent python RFC "
          "6902 implementation and an independent python binn decoder as oracle"),
    note=("trusted: Lean kernel, harness/generator, python oracle, gcc+ASan/UBSan; modelled not verified: the C control flow of "
          "the functions named; doubles compared by bit pattern (the code compares printed texts); documents have unique keys "
          "(ignoring ASCII case), no NUL bytes (results that violate the key conditions are covered by the byte-level theorems "
          "and stream: refused, bytes unchanged); hypotheses of the byte-level theorems: integers fit int64 and strings/keys are "
          "NUL free (leafOk: what the C types give), the encoded result is shorter than 2^31-9 bytes, the result is an object or "
          "array; a holder whose root was replaced by a scalar is compared as a value, not as bytes; the JSON text of the patch "
          "(printer/parser) is C13's"),
    technique="Lean 4 proof over executable model + differential correspondence (C harness vs compiled Lean driver) + python RFC 6902 oracle")
MODULE = "IwModel.Props.C15"
THEOREMS = ["IwModel.C15.parsed_wf", "IwModel.C15.klidx_inv", "IwModel.C15.klidx_inv_run", "IwModel.C15.klidx_inv_patch",
            "IwModel.C15.klidx_check", "IwModel.C15.apply_rfc_partial", "IwModel.C15.apply_rfc_structural_partial",
            "IwModel.C15.test_equality", "IwModel.C15.parsed_uk", "IwModel.C15.idx_agree_small",
            "IwModel.C15.binary_rfc_partial", "IwModel.C15.apply_rfc_err_partial", "IwModel.C15.binary_err_partial", "IwModel.C15.pointer_text_roundtrip", "IwModel.C15.patch_document_decoded", "IwModel.C15.jbl_patch_rfc_partial",
            "IwModel.C15.ext_increment", "IwModel.C15.ext_add_create_existing", "IwModel.C15.ext_add_create", "IwModel.C15.ext_swap",
            "IwModel.C15.binn_atomic", "IwModel.C15.binary_error_reported",
            "IwModel.C15.bytes_holder", "IwModel.C15.jbl_bytes_from_json", "IwModel.C15.jbl_bytes_atomic", "IwModel.C15.jbl_bytes_compose", "IwModel.C15.jbl_bytes_patch",
            "IwModel.C15.rfc_result_leafOk", "IwModel.C15.jbl_bytes_rfc_partial", "IwModel.C15.jbl_bytes_rfc_seq_partial",
            "IwModel.C15.holds_bytesB", "IwModel.C15.progBB_ok",
            "IwModel.C15.missing_target_reported", "IwModel.C15.slash_root_witness", "IwModel.C15.dash_last_witness"]

UNSPEC = {"addcreate-unspecified", "swap-overlap", "swap-unspecified", "remove-root", "malformed-op", "unknown-op"}
BIN = ("jbl", "json")


class Special(str):
    """NONE / scalarN: what the harness prints when there is no container document to dump"""


class PCase(Case):
    __slots__ = ("meta",)


def parse_out(line):
    w = line.split()
    rc, flag, body = w[0], w[-1], w[1:-1]
    if body == ["NONE"]:
        doc = Special("NONE")
    elif body == ["NOCONTAINER"]:
        doc = Special("NOCONTAINER")
    else:
        doc = from_wire(body)
    return rc, doc, flag


def make_oracle(mode, doc, ops):
    def oracle(out):
        rc, got, flag = parse_out(out[0])
        okk, exp, err = R.apply_patch(doc, ops)
        if err and err[1] in UNSPEC:
            return None
        if okk:
            if rc != "ok":
                return "[cls=rejected] applicable patch was rejected with %s; RFC 6902 result %s" % (rc, json.dumps(exp, default=repr)[:200])
            if got == "NOCONTAINER" and isinstance(got, Special) and not isinstance(exp, (dict, list)):
                return None
            if isinstance(got, Special) or not jeq(got, exp):
                return "[cls=wrong-result] result %s, RFC 6902 prescribes %s" % (json.dumps(got, default=repr)[:200], json.dumps(exp, default=repr)[:200])
            return None
        i, reason = err
        if rc == "ok":
            return "[cls=accepted-%s] operation %d (%s) must fail (%s) but the call reported success, result %s" % (
                reason, i, json.dumps(ops[i], default=repr)[:120], reason, json.dumps(got, default=repr)[:120])
        if mode in BIN and (flag != "same=1" or isinstance(got, Special) or not jeq(got, doc)):
            return "[cls=failed-patch-changed-document] rc=%s but the binary document changed (%s): %s" % (rc, flag, json.dumps(got, default=repr)[:200])
        return None
    return oracle


def line(mode, doc, patch):
    return "patch %s %s | %s" % (mode, to_wire(doc), to_wire(patch))


def case_patch(r, ext, kind):
    mode = r.choice(["auto", "node", "jbl", "json"])
    binary = mode in BIN
    doc = G.gen_doc(r, depth=r.choice([2, 3, 3, 4]), container=binary)
    nops = r.choice([1, 1, 2, 2, 3, 4, 5, 6, 8, 12])
    ops, fail_at = G.gen_patch(r, doc, nops, ext=ext, fail_rate=0.1)
    c = PCase(kind + ("-fail" if fail_at is not None else "-ok"), [line(mode, doc, ops)], make_oracle(mode, doc, ops))
    c.meta = (mode, doc, ops)
    return c


def case_same_array(r):
    """several operations on one array: the indexes the code caches must follow every insert/remove"""
    mode = r.choice(["auto", "node", "jbl", "json"])
    n = r.randrange(1, 7)
    arr = [r.choice([i, "e%d" % i, [i], {"k": i}]) for i in range(n)]
    doc = {"a": arr, "b": {"c": [1, 2]}} if r.random() < 0.7 else [0, arr, 2]
    base = ("a",) if isinstance(doc, dict) else ("1",)
    cur = copy.deepcopy(doc)
    ops = []
    for _ in range(r.randrange(2, 10)):
        a = R.resolve(cur, list(base))
        k = r.randrange(7)
        ln = len(a)
        if k == 0 or ln == 0:
            op = {"op": "add", "path": G.ptr(base + (r.choice(["-", str(r.randrange(ln + 1))]),)), "value": r.randrange(100, 200)}
        elif k == 1:
            op = {"op": "remove", "path": G.ptr(base + (str(r.randrange(ln)),))}
        elif k == 2:
            op = {"op": "replace", "path": G.ptr(base + (str(r.randrange(ln)),)), "value": r.randrange(200, 300)}
        elif k == 3:
            f = r.randrange(ln)
            op = {"op": "move", "from": G.ptr(base + (str(f),)), "path": G.ptr(base + (r.choice(["-", str(r.randrange(ln))]),))}
        elif k == 4:
            op = {"op": "copy", "from": G.ptr(base + (str(r.randrange(ln)),)), "path": G.ptr(base + (r.choice(["-", str(r.randrange(ln + 1))]),))}
        elif k == 5:
            i = r.randrange(ln)
            op = {"op": "test", "path": G.ptr(base + (str(i),)), "value": copy.deepcopy(a[i])}
        else:
            i = r.randrange(ln)
            op = {"op": "move", "from": G.ptr(base + (str(i),)), "path": "/" + r.choice(["moved", "q", "x"]) if isinstance(doc, dict) else "/-"}
        if r.random() < 0.06:
            # an index past the end that looks small once narrowed to 32 or 64 bits: the operation must fail
            big = str(r.choice([1 << 31, 1 << 32, 1 << 33, 1 << 63, 1 << 64]) * r.choice([1, 1, 2, 3]) + r.choice([0, 0, 1, ln, ln + 1]))
            op = r.choice([{"op": "add", "path": G.ptr(base + (big,)), "value": 7},
                           {"op": "copy", "from": G.ptr(base + (str(r.randrange(ln)),)) if ln else "", "path": G.ptr(base + (big,))},
                           {"op": "move", "from": G.ptr(base + (str(r.randrange(ln)),)) if ln else "/b", "path": G.ptr(base + (big,))},
                           {"op": "remove", "path": G.ptr(base + (big,))}, {"op": "replace", "path": G.ptr(base + (big,)), "value": 7}])
        ops.append(op)
        try:
            cur = R.apply_op(cur, copy.deepcopy(op))
        except R.PatchError:
            break
    c = PCase("same-array", [line(mode, doc, ops)], make_oracle(mode, doc, ops))
    c.meta = (mode, doc, ops)
    return c


def case_dialect(r):
    """places where iowow's pointer dialect is known to differ from RFC 6901 (listed findings)"""
    mode = r.choice(["auto", "node", "jbl", "json"])
    k = r.randrange(3)
    if k == 0:    # "/" = member "" of the root object
        doc = {"": r.randrange(10), "a": [1, 2]}
        op = r.choice([{"op": "remove", "path": "/"}, {"op": "replace", "path": "/", "value": {"z": 1}},
                       {"op": "test", "path": "/", "value": doc[""]}, {"op": "add", "path": "/", "value": [7]}])
        ops = [op]
    else:         # "-" = the element after the last one: only add may use it
        arr = [r.randrange(10) for _ in range(r.randrange(1, 4))]
        doc = {"a": arr, "b": {}}
        op = r.choice([{"op": "remove", "path": "/a/-"}, {"op": "replace", "path": "/a/-", "value": 5},
                       {"op": "test", "path": "/a/-", "value": arr[-1]}, {"op": "move", "from": "/a/-", "path": "/b/x"},
                       {"op": "copy", "from": "/a/-", "path": "/b/x"}])
        ops = [op]
    c = PCase("dialect", [line(mode, doc, ops)], make_oracle(mode, doc, ops))
    c.meta = (mode, doc, ops)
    return c


def case_malformed(r):
    """malformed patch documents and pointers: compared with the model only (RFC 6902 says nothing but 'error')"""
    mode = r.choice(["auto", "json"])
    doc = G.gen_doc(r, depth=2, container=True)
    ops, _ = G.gen_patch(r, doc, r.choice([1, 2, 3]), ext=True, fail_rate=0.0)
    ops = copy.deepcopy(ops)
    k = r.randrange(12)
    patch = ops
    tgt = r.choice(ops)
    if k == 0:      # abbreviated member names (the decoder compares only as many bytes as the member name has)
        for name in list(tgt):
            if r.random() < 0.6:
                short = name[:r.randrange(1, len(name) + 1)]
                if short not in tgt:
                    tgt[short] = tgt.pop(name)
    elif k == 1:    # abbreviated / unknown operation names
        tgt["op"] = r.choice([tgt["op"][:r.randrange(0, len(tgt["op"]) + 1)], "add_", "re", "rep", "xyz", "tests", "ADD"])
    elif k == 2:
        tgt.pop(r.choice(list(tgt)))
    elif k == 3:
        tgt[r.choice(["op", "path", "from"])] = r.choice([1, None, [], {}])
    elif k == 4:
        patch = ops + [r.choice([1, "x", None, []])]
    elif k == 5:
        tgt["path"] = r.choice(["a", "a/b", "/a/", "//", "/a//b", " /a"])
    elif k == 6 and "from" in tgt:
        tgt["from"] = r.choice(["a", "/a/", "x/"])
    elif k == 7:
        patch = r.choice([1, "x", None, True]) if mode == "auto" else r.choice([1, "x", None, {"a": 1}, {}])
    elif k == 8:
        patch = []
    elif k == 9:    # array index look-alikes
        aps = G.array_paths(doc)
        if aps:
            p = r.choice(aps)
            tgt.clear()
            tgt.update(r.choice([{"op": "add", "value": 1}, {"op": "remove"}, {"op": "test", "value": 1}, {"op": "replace", "value": 2}]))
            look = r.choice(["01", "00", "x", "", "-1", "+1", " 1", "1 ", "1x", "0x1", "2147483648", "99999999999"])
            if r.random() < 0.5:
                # indexes that only look small after narrowing to 32 or 64 bits
                look = str(r.choice([1 << 31, 1 << 32, 1 << 33, 1 << 63, 1 << 64]) * r.choice([1, 1, 2, 3]) + r.choice([0, 0, 1, 2, 3]))
                tgt.clear()
                tgt.update(r.choice([{"op": "add", "value": 1}, {"op": "add", "value": [1]}, {"op": "copy", "from": ""}, {"op": "remove"}, {"op": "replace", "value": 2}]))
            tgt["path"] = G.ptr(p + (look,))
    elif k == 10:   # unknown extra members are ignored
        tgt[r.choice(["xyz", "values", "opp", "pathx", "fromm"])] = r.choice([1, "/a"])
    else:
        tgt["value"] = None
    if mode == "auto" and isinstance(patch, dict):
        patch = []
    c = PCase("malformed", [line(mode, doc, patch)])
    c.meta = (mode, doc, patch)
    return c


# ---- byte-level stream: the document goes in as binn BYTES and the holder's bytes come out (bpatch / bseq) ----

def parse_bout(line):
    """`<rc>[,<rc>...] <hex>` or `<rc>... scalar <wire>` -> (rcs, bytes | None, scalar value | None)"""
    w = line.split()
    rcs = w[0].split(",")
    if len(w) >= 3 and w[1] == "scalar":
        return rcs, None, from_wire(w[2:])
    if len(w) != 2:
        raise ValueError("unexpected answer " + line[:80])
    return rcs, bytes.fromhex("" if w[1] == "-" else w[1]), None


def make_byte_oracle(doc, inbytes, progs):
    """RFC 6902 on decode(input bytes), program by program: an accepted program whose result the binary form can hold
    must succeed and the bytes that come out must decode to the RFC result; one it cannot hold (key > 255 bytes, keys
    equal ignoring ASCII case) must be refused with `creation`; a rejected program must report an error; whenever no
    call succeeded the bytes must be exactly the bytes that went in."""
    def oracle(out):
        try:
            rcs, got, scalar = parse_bout(out[0])
        except ValueError as e:
            return "[cls=bad-answer] %s" % e
        if len(rcs) != len(progs):
            return "[cls=bad-answer] %d return codes for %d patch documents" % (len(rcs), len(progs))
        cur, changed = doc, False
        for i, (ops, rc) in enumerate(zip(progs, rcs)):
            if not isinstance(cur, (dict, list)):
                return None                      # a scalar holder is outside the API's contract: nothing more to say
            okk, exp, err = R.apply_patch(cur, ops)
            if err and err[1] in UNSPEC:
                return None
            if okk:
                if B.fits(exp):
                    if rc != "ok":
                        return "[cls=rejected] call %d: applicable patch was rejected with %s; RFC 6902 result %s" % (i, rc, json.dumps(exp, default=repr)[:200])
                    cur, changed = exp, True
                else:
                    if rc == "ok":
                        return "[cls=accepted-unholdable] call %d reported success but the binary form cannot hold %s" % (i, json.dumps(exp, default=repr)[:200])
            else:
                if rc == "ok":
                    return "[cls=accepted-%s] call %d: operation %d (%s) must fail (%s) but the call reported success" % (
                        err[1], i, err[0], json.dumps(ops[err[0]], default=repr)[:120], err[1])
        if not changed:
            if got != inbytes:
                return "[cls=failed-patch-changed-bytes] no call succeeded (%s) but the holder's bytes changed: %s -> %s" % (
                    ",".join(rcs), inbytes.hex()[:120], "scalar" if got is None else got.hex()[:120])
            return None
        if not isinstance(cur, (dict, list)):
            return None if got is None and jeq(scalar, cur) else "[cls=wrong-result] holder %r, RFC 6902 prescribes the scalar %r" % (scalar if got is None else got.hex()[:80], cur)
        if got is None:
            return "[cls=wrong-result] holder is the scalar %r, RFC 6902 prescribes %s" % (scalar, json.dumps(cur, default=repr)[:200])
        try:
            val = B.dec(got)
        except (B.BadBinn, IndexError, ValueError) as e:
            return "[cls=bytes-malformed] the bytes that came out are not a well-formed document (%s): %s" % (e, got.hex()[:160])
        if not jeq(val, cur):
            return "[cls=wrong-result] the bytes decode to %s, RFC 6902 prescribes %s" % (json.dumps(val, default=repr)[:200], json.dumps(cur, default=repr)[:200])
        return None
    return oracle


def byte_case(kind, r, mode, doc, progs):
    inb = B.enc(doc, r if r.random() < 0.3 else None)       # sometimes wider integer / length fields than the writer's
    if len(progs) == 1:
        ln = "bpatch %s %s | %s" % (mode, hx(inb), to_wire(progs[0]))
    else:
        ln = "bseq %s %s | %s" % (mode, hx(inb), " | ".join(to_wire(p) for p in progs))
    c = PCase(kind, [ln], make_byte_oracle(doc, inb, progs))
    c.meta = ("b" + mode, doc, [o for p in progs for o in p])
    return c


def case_bytes(r):
    mode = r.choice(["jbl", "json"])
    doc = G.gen_doc(r, depth=r.choice([2, 3, 3, 4]), container=True)
    ops, fail_at = G.gen_patch(r, doc, r.choice([1, 1, 2, 2, 3, 4, 5, 6, 8]), ext=r.random() < 0.25, fail_rate=0.12)
    return byte_case("bytes" + ("-fail" if fail_at is not None else "-ok"), r, mode, doc, [ops])


def case_bytes_seq(r):
    """several patch documents applied to one holder one after the other; about a third of them fail"""
    mode = r.choice(["jbl", "json"])
    doc = G.gen_doc(r, depth=r.choice([2, 3]), container=True)
    cur, progs = doc, []
    for _ in range(r.randrange(2, 6)):
        if not isinstance(cur, (dict, list)):
            break
        ops, _ = G.gen_patch(r, cur, r.choice([1, 1, 2, 3, 4]), ext=False, fail_rate=r.choice([0.0, 0.0, 0.4]), allow_root=False)
        progs.append(ops)
        okk, exp, err = R.apply_patch(cur, ops)
        if okk and B.fits(exp):
            cur = exp
    if len(progs) < 2:
        progs = progs + [[{"op": "test", "path": "", "value": copy.deepcopy(cur)}]]
    return byte_case("bytes-seq", r, mode, doc, progs)


def case_bytes_nofit(r):
    """results the binary form cannot hold (a key over 255 bytes; two keys of one object equal ignoring ASCII case):
    RFC 6902 accepts, the writer refuses at the very end - the bytes must stay; and the look-alikes it can hold"""
    mode = r.choice(["jbl", "json"])
    doc = G.gen_doc(r, depth=r.choice([2, 3]), container=True)
    if not isinstance(doc, dict) or not doc or r.random() < 0.3:
        doc = {"a": doc, "foo": {"ab": 1, "q": [1, {"x": 2}]}, "é": 0}
    objs = [p for p in G.container_paths(doc) if isinstance(R.resolve(doc, list(p)), dict) and R.resolve(doc, list(p))]
    p = r.choice(objs)
    o = R.resolve(doc, list(p))
    k = r.choice(list(o))
    twin = r.choice([k.upper(), k.upper(), k.capitalize(), k + "X"])       # "É" is not an ASCII-case twin of "é": it fits
    ops = []
    c = r.randrange(8)
    if c == 0:
        ops.append({"op": "add", "path": G.ptr(p + (twin,)), "value": G.scalar(r)})
    elif c == 1:
        ops.append({"op": "copy", "from": G.ptr(p + (k,)), "path": G.ptr(p + (twin,))})
    elif c == 2:
        ops.append({"op": "add", "path": G.ptr(p + ("zz",)), "value": {"kk": 1, r.choice(["KK", "Kk", "kK", "kk2"]): [2]}})
    elif c == 3:
        ops.append({"op": "add", "path": G.ptr(p + ("L" * r.choice([254, 255, 256, 257, 300]),)), "value": 1})
    elif c == 4:
        ops.append({"op": "replace", "path": G.ptr(p + (k,)), "value": {"w" * r.choice([255, 256]): None}})
    elif c == 5:      # the offending member is gone again before the document is encoded: must succeed
        ops.append({"op": "add", "path": G.ptr(p + (twin,)), "value": 7})
        if r.random() < 0.7:
            ops.append({"op": "remove", "path": G.ptr(p + (twin,))})
        else:
            ops.append({"op": "test", "path": G.ptr(p + (twin,)), "value": 7})
    elif c == 6:
        ops.append({"op": "move", "from": G.ptr(p + (k,)), "path": G.ptr(p + (twin,))})      # the twin replaces k: holdable
    else:
        ops.append({"op": "add", "path": G.ptr(p + (twin,)), "value": 1})
        ops.append({"op": "remove", "path": G.ptr(p + (k,))})                                 # only the twin is left: holdable
    if r.random() < 0.3:
        more, _ = G.gen_patch(r, doc, r.choice([1, 2]), ext=False, fail_rate=0.0, allow_root=False)
        ops = more + ops
    return byte_case("bytes-nofit", r, mode, doc, [ops])


GENS = [(lambda r: case_patch(r, False, "rfc"), 6), (lambda r: case_patch(r, True, "ext"), 3), (case_same_array, 3),
        (case_dialect, 0.15), (case_malformed, 1.2), (case_bytes, 2.5), (case_bytes_seq, 0.8), (case_bytes_nofit, 0.5)]


def gen_cases(r, n):
    tot = sum(w for _, w in GENS)
    out = []
    for _ in range(n):
        x = r.random() * tot
        for g, w in GENS:
            x -= w
            if x <= 0:
                out.append(g(r))
                break
    return out


def signature(case, prob):
    mode, doc, ops = case.meta
    slash = "1" if isinstance(ops, list) and any(isinstance(o, dict) and "/" in (o.get("path"), o.get("from")) for o in ops) else "0"
    if prob[0] == "crash":
        return dict(kind="crash", site=prob[1]["site"], what=prob[1]["kind"], slash=slash)
    msg = prob[1] if prob[0] == "oracle" else ""
    cls = msg[5:msg.index("]")] if msg.startswith("[cls=") else ""
    return dict(kind=prob[0], case=case.kind.split("-")[0], cls=cls, slash=slash)


def tally(ctx, cases):
    for c in cases:
        mode, doc, ops = c.meta
        ctx.hist("mode:" + mode)
        if isinstance(ops, list):
            ctx.hist("ops:%s" % (len(ops) if len(ops) < 6 else "6+"))
            for o in ops:
                if isinstance(o, dict) and isinstance(o.get("op"), str):
                    ctx.hist("op:" + o["op"][:12])
                    for key in ("path", "from"):
                        p = o.get(key)
                        if isinstance(p, str):
                            if p.endswith("/-"):
                                ctx.hist("ptr:dash")
                            if "~" in p:
                                ctx.hist("ptr:escaped")
                            if p == "":
                                ctx.hist("ptr:root")
        if c.impl:
            for rc in c.impl[0].split()[0].split(",")[:8]:
                ctx.hist("rc:" + rc)
            if c.kind.startswith("bytes"):
                ctx.hist("bytes-out:" + ("scalar" if " scalar " in c.impl[0] else "unchanged" if c.impl[0].split()[-1] == c.ops[0].split()[2] else "new"))


CHUNK = 1000


def explore(ctx, h, drv, n, label):
    r = C.Rng(ctx.seed, "c15/" + label)
    cases = gen_cases(r, n)
    for c in cases[:4]:
        ctx.sample(dict(kind=c.kind, ops=[o[:600] for o in c.ops]))
    probs = []
    # one process per chunk and a short timeout: on a broken tree a case may hang (cyclic node lists) or exhaust memory
    for i in range(0, len(cases), CHUNK):
        part = cases[i:i + CHUNK]
        ps = differential(ctx, [h], [drv, "c15"] if drv else None, part, timeout=120)
        tally(ctx, part)
        probs += ps
        for c, p in ps:
            if p[0] == "diverge":
                ctx.corr_broken.append("model/implementation diverge on `%s`: impl `%s` model `%s`" % (c.ops[p[1]][:300], p[2][:200], p[3][:200]))
                if len(ctx.corr_broken) <= 5:
                    ctx.log("DIVERGE", c.ops[p[1]][:400], "| impl:", p[2][:300], "| model:", p[3][:300])
            else:
                ctx.fail(signature(c, p), dict(case=c.kind, ops=c.ops, impl=c.impl, detail=p[1:]), str(p[1])[:400])
        if len(ctx.violations) >= 8 or len(ctx.corr_broken) > 2000:
            ctx.log("enough failing inputs found; stopping the exploration early")
            break
    return probs


def selftest_note(ctx):
    import json, os
    f = os.path.join(C.ROOT, "mutants", "C15", "RESULTS.json")
    if os.path.exists(f):
        r = json.load(open(f))
        ok = [k for k, v in r.items() if v.get("caught")]
        ctx.notes.append("last sensitivity self-test (mutants/C15/*.diff on the fixed tree, quick tier): %d of %d mutants caught with a failing input (%d of them also pass the repo's own json tests)" % (
            len(ok), len(r), sum(1 for v in r.values() if v.get("caught") and v.get("repo_tests_pass"))))


def build(ctx):
    impl = C.build_impl("asan")
    return C.build_harness(impl, "h_c15", ["h_c15.c"])


def run(ctx):
    ctx.cov["rule"] = ("a case = one document x one patch program (1-12 operations) sent to one of the four entry points; programs are "
                       "generated against the evolving RFC 6902 reference state so that later operations address what earlier ones "
                       "produced (same array several times, `-`, escaped segments, overlapping from/path), with at most one "
                       "deliberately failing operation (missing target, failed test, index past the end, move into own child); "
                       "separate streams: several operations on one array, the three extensions, known dialect differences, "
                       "malformed patch documents (model comparison only); byte-level streams: the document is handed over as binn bytes "
                       "(python encoder, sometimes with wider integer/length fields than the writer's) and the holder's buffer is compared "
                       "byte for byte with the composed Lean model - single calls, 2-5 calls on one holder, and programs whose result the "
                       "binary form cannot hold (key of 255/256+ bytes, keys equal ignoring ASCII case, also removed again before the end); "
                       "distinct = distinct op line; every case applies at least one operation")
    ctx.assumptions += ["documents have unique member names (also ignoring ASCII case) and no NUL bytes in keys/strings (what the binary form can hold, C14)",
                        "doubles in documents are not integer-valued and are compared by bit pattern in model and oracle (the code compares their printed texts)",
                        "`increment` leaving the int64 range is refused (fix 9dac2a8; before, signed overflow was undefined behaviour)",
                        "`swap` whose from and path overlap, or whose from is the whole document, is not generated (the one-line description of the extension does not determine a result)",
                        "a binary document whose root was replaced by a scalar is only observed by its type (patch mode) or as a value (byte-level ops); jbl holders are containers by construction",
                        "byte-level ops: input buffers are well-formed documents (malformed buffers are C17's); the oracle decodes the output with its own binn reader and compares values, bytes are compared with the Lean model only"]
    selftest_note(ctx)
    ctx.translate()
    ok, drv_ok = ctx.prove(MODULE, THEOREMS)
    h = build(ctx)
    drv = C.drv_path() if drv_ok else None
    n = 60000 if ctx.tier == "quick" else 400000
    explore(ctx, h, drv, n, "main")
    if (ctx.proof_broken or ctx.corr_broken) and not ctx.violations:
        ctx.log("obligation or correspondence broken: widening the search for a failing input")
        for i in range(3):
            if len(ctx.violations) >= 8:
                break
            explore(ctx, h, drv, 5000, "search%d" % i)


def replay(ctx, obj):
    h = build(ctx)
    rc, o, e = C.run_lines([h], obj["replay"]["ops"])
    print("\n".join(x[:2000] for x in o))
    print(e[-2000:])
    ctx.case("replay")
    ctx.case("replay2")
