"""Python reference of the compact binary form (binn as iowow's JSON API writes and reads it): an encoder used to
hand documents to the byte-level entry points and a decoder used by the oracles on the bytes that come back.
Written from the format description (src/json/iwbinn.h), independent of the Lean model.

values: None, bool, int, F64, str (UTF-8) / bytes, list, dict."""
import struct
from ._jwire import F64, Pairs

T_NULL, T_TRUE, T_FALSE = 0x00, 0x01, 0x02
T_U8, T_I8, T_U16, T_I16, T_U32, T_I32, T_U64, T_I64 = 0x20, 0x21, 0x40, 0x41, 0x60, 0x61, 0x80, 0x81
T_F64, T_STR, T_LIST, T_OBJ = 0x82, 0xA0, 0xE0, 0xE2
MAX_KEY = 255


class Creation(Exception):
    """the writer refuses the document (JBL_ERROR_CREATION): key too long or already present ignoring ASCII case"""


def _kb(k):
    return k if isinstance(k, bytes) else k.encode("utf-8")


def _lower(b):
    return bytes(c + 32 if 65 <= c <= 90 else c for c in b)


def fits(v):
    """can the binary form hold the document: keys <= 255 bytes and unique ignoring ASCII case, at every level"""
    if isinstance(v, dict):
        seen = set()
        for k, x in v.items():
            kb = _kb(k)
            if len(kb) > MAX_KEY or _lower(kb) in seen or not fits(x):
                return False
            seen.add(_lower(kb))
        return True
    if isinstance(v, list):
        return all(fits(x) for x in v)
    return True


def _len_field(n, wide=False):
    return struct.pack(">I", n | 0x80000000) if n > 127 or wide else bytes([n])


def _int(v, r=None):
    """compress_int; with a random source sometimes a wider type than necessary (what another writer may produce)"""
    cands = []
    if v >= 0:
        if v <= 0xFF:
            cands.append(bytes([T_U8, v]))
        if v <= 0xFFFF:
            cands.append(bytes([T_U16]) + struct.pack(">H", v))
        if v <= 0xFFFFFFFF:
            cands.append(bytes([T_U32]) + struct.pack(">I", v))
        cands.append(bytes([T_I64]) + struct.pack(">q", v))
        if r is not None:
            cands.append(bytes([T_U64]) + struct.pack(">Q", v))
            if v <= 0x7F:
                cands.append(bytes([T_I8, v]))
    else:
        if v >= -0x80:
            cands.append(bytes([T_I8]) + struct.pack(">b", v))
        if v >= -0x8000:
            cands.append(bytes([T_I16]) + struct.pack(">h", v))
        if v >= -0x80000000:
            cands.append(bytes([T_I32]) + struct.pack(">i", v))
        cands.append(bytes([T_I64]) + struct.pack(">q", v))
    if r is not None and r.random() < 0.5:
        return r.choice(cands)
    return cands[0]


def enc(v, r=None):
    """bytes of the value as an item; r: random source for non-canonical (but valid) choices of widths"""
    if v is None:
        return bytes([T_NULL])
    if v is True:
        return bytes([T_TRUE])
    if v is False:
        return bytes([T_FALSE])
    if isinstance(v, int):
        return _int(v, r)
    if isinstance(v, F64):
        return bytes([T_F64]) + struct.pack(">Q", v.bits)
    if isinstance(v, (str, bytes)):
        b = _kb(v)
        return bytes([T_STR]) + _len_field(len(b), r is not None and r.random() < 0.15) + b + b"\0"
    if isinstance(v, list):
        body = b"".join(enc(x, r) for x in v)
        return _container(T_LIST, len(v), body)
    if isinstance(v, dict):
        body, seen = b"", set()
        for k, x in v.items():
            kb = _kb(k)
            item = enc(x, r)
            if len(kb) > MAX_KEY or _lower(kb) in seen:
                raise Creation(k)
            seen.add(_lower(kb))
            body += bytes([len(kb)]) + kb + item
        return _container(T_OBJ, len(v), body)
    raise TypeError(v)


def _container(ty, count, body):
    s = len(body) + 3
    if count > 127:
        s += 3
    if s > 127:
        szf = struct.pack(">I", (s + 3) | 0x80000000)
    else:
        szf = bytes([s])
    return bytes([ty]) + szf + _len_field(count) + body


class BadBinn(Exception):
    pass


def _read_len(b, p):
    if p >= len(b):
        raise BadBinn("truncated")
    if b[p] & 0x80:
        if p + 4 > len(b):
            raise BadBinn("truncated")
        return struct.unpack(">I", b[p:p + 4])[0] & 0x7FFFFFFF, p + 4
    return b[p], p + 1


def _txt(b):
    try:
        return b.decode("utf-8")
    except UnicodeDecodeError:
        return bytes(b)


def _item(b, p):
    if p >= len(b):
        raise BadBinn("truncated")
    t = b[p]
    fixed = {T_U8: (1, ">B"), T_I8: (1, ">b"), T_U16: (2, ">H"), T_I16: (2, ">h"), T_U32: (4, ">I"), T_I32: (4, ">i"),
             T_I64: (8, ">q")}
    if t == T_NULL:
        return None, p + 1
    if t == T_TRUE:
        return True, p + 1
    if t == T_FALSE:
        return False, p + 1
    if t in fixed:
        n, f = fixed[t]
        if p + 1 + n > len(b):
            raise BadBinn("truncated")
        return struct.unpack(f, b[p + 1:p + 1 + n])[0], p + 1 + n
    if t == T_U64:
        return struct.unpack(">q", b[p + 1:p + 9])[0], p + 9          # read into an int64_t
    if t == T_F64:
        return F64(struct.unpack(">Q", b[p + 1:p + 9])[0]), p + 9
    if t == T_STR:
        n, q = _read_len(b, p + 1)
        if q + n + 1 > len(b) or b[q + n] != 0:
            raise BadBinn("string")
        return _txt(b[q:q + n]), q + n + 1
    if t in (T_LIST, T_OBJ):
        size, q = _read_len(b, p + 1)
        count, q = _read_len(b, q)
        end = p + size
        if size < 3 or end > len(b):
            raise BadBinn("size")
        if t == T_LIST:
            out = []
            for _ in range(count):
                x, q = _item(b, q)
                out.append(x)
        else:
            out = {}
            for _ in range(count):
                kl = b[q]
                k = _txt(b[q + 1:q + 1 + kl])
                x, q = _item(b, q + 1 + kl)
                if k in out:
                    raise BadBinn("duplicate key")
                out[k] = x
        if q != end:
            raise BadBinn("size field %d, items end at %d" % (size, q - p))
        return out, end
    raise BadBinn("type 0x%02x" % t)


def dec(b):
    """the document a buffer holds; the buffer must be exactly one container"""
    b = bytes(b)
    v, p = _item(b, 0)
    if p != len(b):
        raise BadBinn("trailing bytes")
    return v
