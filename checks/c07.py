"""C07: concurrent API calls are atomic, race-free and cannot deadlock."""
import hashlib, os, time
import re
from vlib import common as C
from checks import _conc as K

LEVEL = "proof"
# C functions this check's models mirror (source-text fingerprints are recorded in the evidence, see translate/funchash.py)
MODELLED_FUNCS = {'src/kv/iwkv.c': ['_wnw', '_wnw_db', '_iwkv_worker_inc_nolk', '_db_worker_inc_nolk', 'iwkv_db', 'iwkv_cursor_open', 'iwkv_sync', 'iwkv_exclusive_lock'], 'src/kv/iwal.c': ['iwal_savepoint_exl', 'iwal_poke_checkpoint', '_cpt_worker_fn']}
MANIFEST = dict(
    level="proof",
    text=("Lean 4 theorems about an executable model of the store's locking protocol (declared lock order, call automata of every "
          "API call kind, exclusive hand-shake on the worker count, writer-preferring rwlocks): no reachable state of ordered programs "
          "is stuck, an exclusive section overlaps no other section, and every interleaving of lock-protected multi-step effects equals a "
          "sequential order of the calls. Tied to the code by recording every pthread lock call of the real library (link-time interposers) "
          "in multi-threaded runs and checking each recorded call against the call automata with the compiled Lean model; a python "
          "linearizability search over all results and the final dump, a watchdog and ThreadSanitizer form the independent oracle. "
          "PARTIAL: the proof covers the protocol model; schedules and data-race freedom of store memory are explored, not proved"),
    note=("trusted: Lean kernel, harness + pthread interposers, python linearizability search, gcc ASan/UBSan/TSan; modelled not verified: "
          "the lock calls each API function makes (checked on the recorded runs only); runtime gap: real scheduling, memory-level races "
          "(TSan sample), glibc rwlock fairness; cursor set/del are checked on thread-private databases only"),
    technique="Lean 4 proof over a lock-protocol model + recorded lock traces accepted by the compiled model + linearizability oracle + TSan")
MODULE = "IwModel.Props.C07"
THEOREMS = ["IwModel.C07.order_no_deadlock", "IwModel.C07.exclusive_excludes", "IwModel.C07.session_ordered",
            "IwModel.C07.accepted_calls_no_deadlock", "IwModel.C07.self_deadlock_witness",
            "IwModel.C07.atomic_effects_linearize", "IwModel.C07.effects_bracketed_by_writer_lock"]

EXCL_OPS = ("sync", "cp", "dbnew", "dbdel", "dbget", "bkp")


def key(r, nk):
    return "k%02d" % r.randrange(nk)


NOBIG = [False]


def gcopy(r):
    """a third of the reads go through iwkv_get_copy (value copied out of the mapping into the caller's buffer)"""
    return " c" if r.random() < 0.35 else ""


def vlen(r, big=0.08):
    x = r.random()
    if NOBIG[0]:
        big = 0
    if x < big:
        return r.choice([9000, 20000, 40000, 70000])
    if x < 0.3:
        return r.randrange(400, 3000)
    return r.randrange(5, 200)


def gen_thread(r, role, nk, L, wal, tid, st):
    """program of one thread; st = shared generator state (who does the backup, ...)"""
    ops = []
    cur = {}       # cursor slot -> db name
    priv = {}      # slot -> True
    db = lambda: str(r.choice([1, 1, 2]))

    def close_all():
        for c in list(cur):
            ops.append("cclose %d" % c)
            del cur[c]

    while len(ops) < L:
        x = r.random()
        if role == "writer":
            if x < 0.6:
                ops.append("put %s %s %d %d" % (db(), key(r, nk), vlen(r), r.choice([0, 0, 0, 1, 4 if x < 0.05 else 0])))
            elif x < 0.9:
                ops.append("del %s %s" % (db(), key(r, nk)))
            else:
                ops.append("get %s %s%s" % (db(), key(r, nk), gcopy(r)))
        elif role == "reader":
            if x < 0.8:
                ops.append("get %s %s%s" % (db(), key(r, nk), gcopy(r)))
            elif x < 0.9:
                ops.append("mget %s" % db())
            else:
                ops.append("state")
        elif role == "growth":
            if x < 0.7:
                ops.append("put %s %s %d 0" % (db(), "g%d_%02d" % (tid, r.randrange(40)), r.choice([20000, 50000, 90000])))
            else:
                ops.append("get %s %s%s" % (db(), key(r, nk), gcopy(r)))
        elif role == "scanner":
            if not cur or (len(cur) < 2 and x > 0.88):
                # (a second cursor while the first stays open: registration of a worker that already counts as one)
                c = r.randrange(2) if not cur else 1 - next(iter(cur))
                how = r.choice(["bf", "al", "ge", "eq"])
                d = db()
                if how in ("ge", "eq"):
                    ops.append("copen %d %s %s %s" % (c, d, how, key(r, nk)))
                else:
                    ops.append("copen %d %s %s" % (c, d, how))
                cur[c] = d
                # a failed open leaves the slot empty: later cursor ops of that slot print `skip`
            else:
                c = r.choice(sorted(cur))
                if x < 0.45:
                    ops.append("cto %d %s" % (c, r.choice(["nx", "nx", "pv"])))
                    ops.append("cget %d" % c)
                elif x < 0.6:
                    ops.append("ctok %d %s %s" % (c, r.choice(["ge", "eq"]), key(r, nk)))
                    ops.append("cget %d" % c)
                elif x < 0.75:
                    ops.append("cget %d" % c)
                elif x < 0.85:
                    ops.append("get %s %s%s" % (db(), key(r, nk), gcopy(r)))
                else:
                    close_all()
        elif role == "admin":
            if cur:
                close_all()
            if x < 0.2:
                ops.append("sync")
            elif x < 0.35:
                ops.append("cp")
            elif x < 0.5:
                ops.append("state")
            elif x < 0.6:
                ops.append("dbget %d 0" % r.choice([1, 2, 50, 50]))
            elif x < 0.75:
                ops.append("mset %s %d" % (db(), r.choice([10, 100, 300, 2000])))
            elif x < 0.85:
                ops.append("mget %s" % db())
            elif x < 0.95 and st.get("bkp_tid") == tid and not st.get("bkp"):
                st["bkp"] = True
                ops.append("bkp 0")
            else:
                ops.append("put %s %s %d 4" % (db(), key(r, nk), vlen(r, 0)))
        elif role == "private":
            s = 0
            if s not in priv:
                if cur:
                    close_all()
                ops.append("dbnew %d" % s)
                priv[s] = True
            elif x < 0.4:
                ops.append("put p%d %s %d %d" % (s, "q%02d" % r.randrange(6), vlen(r, 0.03), r.choice([0, 0, 1])))
            elif x < 0.5:
                ops.append("del p%d %s" % (s, "q%02d" % r.randrange(6)))
            elif x < 0.6:
                ops.append("get p%d %s%s" % (s, "q%02d" % r.randrange(6), gcopy(r)))
            elif x < 0.85:
                # a short cursor episode on the private database: move, read, then set or delete what was read
                c = 2
                ops.append("copen %d p%d %s" % (c, s, r.choice(["bf", "al"])))
                for _ in range(r.randrange(1, 4)):
                    ops.append("cto %d %s" % (c, r.choice(["nx", "pv"])))
                    ops.append("cget %d" % c)
                    y = r.random()
                    if y < 0.25:
                        ops.append("cset %d %d" % (c, vlen(r, 0)))
                    elif y < 0.4:
                        ops.append("cdel %d" % c)
                        break
                ops.append("cclose %d" % c)
            elif x < 0.93:
                ops.append("get %s %s%s" % (db(), key(r, nk), gcopy(r)))
            else:
                ops.append("dbdel %d" % s)
                del priv[s]
        else:  # mixed
            role2 = r.choice(["writer", "reader", "scanner", "admin"])
            if cur and role2 == "admin":
                close_all()
            sub = gen_thread(r, role2, nk, 2, wal, tid, st) if role2 != "scanner" else None
            if sub:
                ops.extend(sub)
            else:
                c = 1
                d = db()
                ops.append("copen %d %s %s" % (c, d, r.choice(["bf", "al"])))
                for _ in range(r.randrange(1, 4)):
                    ops.append("cto %d %s" % (c, r.choice(["nx", "pv"])))
                    ops.append("cget %d" % c)
                ops.append("cclose %d" % c)
    close_all()
    return ops


ROLES = ["writer", "writer", "reader", "scanner", "admin", "private", "mixed", "mixed", "growth"]


def gen_case(r, name, tier, directed=None):
    nth = r.choice([2, 2, 3, 4, 4, 6, 8])
    wal = 1 if r.random() < 0.6 else 0
    nk = r.choice([2, 4, 8, 20])
    L = r.choice([4, 8, 14, 24]) if tier == "quick" else r.choice([6, 14, 30, 60])
    yp = r.choice([0, 30, 150, 400])
    lines = ["case %s mode=free wal=%d nth=%d yield=%d dbs=2 timeout=25" % (name, wal, nth, yp)]
    roles = []
    if directed == "dbrace":
        # several threads ask for the same new database with different flags at the same moment
        nth = r.choice([2, 3, 4])
        lines[0] = "case %s mode=free wal=%d nth=%d yield=%d dbs=2 timeout=8" % (name, wal, nth, r.choice([200, 500]))
        for t in range(nth):
            fl = r.choice([0, 0, 32])          # 32 = IWDB_VNUM64_KEYS
            lines.append("%d dbget 50 %d" % (t, fl))
            lines.append("%d get 1 k00" % t)
            roles.append("dbrace")
        lines.append("run")
        lines.append("end")
        return name, lines, dict(nth=nth, wal=wal, roles=roles)
    if directed == "copyrace":
        # readers copy large values out of the mapping (iwkv_get_copy, iwkv_get) of database 1 while writers of database 2
        # make the file grow (remap): the readers' pointers into the mapping must stay pinned for the whole copy
        nth = r.choice([3, 4])
        lines[0] = "case %s mode=free wal=%d nth=%d yield=%d dbs=2 timeout=25" % (name, wal, nth, r.choice([300, 600]))
        nbig = r.choice([1, 3])
        for i in range(nbig):
            lines.append("8 put 1 big%d %d 0" % (i, r.choice([70000, 300000, 500000])))
        nrd = nth - r.choice([1, 1, 2]) if nth > 2 else 1
        n_ops = 10 if tier == "quick" else 25
        for t in range(nth):
            if t < nrd:
                roles.append("bigreader")
                for j in range(n_ops):
                    lines.append("%d get 1 big%d%s" % (t, r.randrange(nbig), " c" if r.random() < 0.7 else ""))
            else:
                roles.append("growth")
                for j in range(n_ops):
                    lines.append("%d put 2 g%d_%03d %d 0" % (t, t, j, r.choice([100000, 300000, 500000])))
        lines.append("run")
        lines.append("end")
        return name, lines, dict(nth=nth, wal=wal, roles=roles)
    # a backup runs in a quarter of the WAL cases; those avoid file growth (F25 is the business of C08)
    withbkp = bool(wal) and r.random() < 0.25
    NOBIG[0] = withbkp
    st = {}
    if withbkp:
        lines.append("8 put 1 zzz 300000 0")
        lines.append("8 del 1 zzz")
        st["bkp_tid"] = r.randrange(nth)
    pre = r.choice([0, 3, 30, 100])
    for i in range(pre):
        d = r.choice([1, 2])
        if r.random() < 0.5:
            lines.append("8 put %d %s %d 0" % (d, "a%03d" % r.randrange(200), vlen(r, 0.02)))
        else:
            lines.append("8 put %d %s %d 0" % (d, key(r, nk), vlen(r, 0.02)))
    for t in range(nth):
        role = r.choice(ROLES)
        if withbkp and role == "growth":
            role = "writer"
        if st.get("bkp_tid") == t:
            role = "admin"
        roles.append(role)
        for op in gen_thread(r, role, nk, L, wal, t, st):
            lines.append("%d %s" % (t, op))
    NOBIG[0] = False
    lines.append("run")
    lines.append("end")
    return name, lines, dict(nth=nth, wal=wal, roles=roles)


# ------------------------------------------------------------------ recorded call -> call kind of the model

def check_events(r, wal):
    """[(kind line, tokens, (tid, idx))] for every executed op of a run"""
    out = []
    privid = {}       # per thread: "p0" -> id
    curdb = {}
    for (tid, idx) in sorted(r.ops):
        o = r.ops[(tid, idx)]
        w = o["text"].split()
        res = o["out"].split()
        rc = res[0] if res else "?"
        toks = r.evs.get((tid, idx), [])
        pk = lambda n: privid.get((tid, n))
        name2id = lambda n: pk(n) if n.startswith("p") else int(n)
        k = w[0]
        kind = None
        if rc in ("skip", "nodb", "bad-op"):
            continue
        if k == "dbnew":
            if rc == "ok":
                privid[(tid, "p%d" % (int(w[1]) % 4))] = int(res[1].split("=")[1])
            kind = "excl"
        elif k == "dbdel":
            privid.pop((tid, "p%d" % (int(w[1]) % 4)), None)
            kind = "excl"
        elif k in ("put", "del", "mset"):
            d = name2id(w[1])
            sync = 1 if (k == "put" and len(w) > 4 and int(w[4]) & 4 and rc == "ok") else 0
            kind = "writer %d %d" % (d, sync) if d is not None else None
            if k == "mset" and len(w) > 2 and int(w[2]) == 0:
                kind = None
        elif k in ("get", "mget"):
            d = name2id(w[1])
            kind = "reader %d" % d if d is not None else None
        elif k == "copen":
            d = name2id(w[2])
            if d is not None:
                kind = ("copen %d" if rc == "ok" else "copenFail %d") % d
                if rc == "ok":
                    curdb[(tid, int(w[1]) % 4)] = d
        elif k in ("cto", "ctok", "cget", "cset", "cdel", "cclose"):
            d = curdb.get((tid, int(w[1]) % 4))
            if d is None:
                continue
            if k in ("cto", "ctok"):
                kind = "reader %d" % d
            elif k == "cget":
                kind = "reader %d" % d if toks else None      # position test failed before any lock: no events
            elif k in ("cset", "cdel"):
                kind = "writer %d 0" % d if toks else None
            else:
                kind = "cclose %d" % d
                curdb.pop((tid, int(w[1]) % 4), None)
        elif k == "sync":
            kind = "excl" if wal else "syncNoWal"
        elif k == "cp":
            kind = "exclLog" if wal else "syncNoWal"
        elif k == "dbget":
            kind = "dbget"
        elif k == "state":
            kind = "state"
        elif k == "bkp":
            kind = "backup"
        if kind:
            out.append((kind, toks, (tid, idx)))
    for b in r.bg:
        out.append(("cpt", b, ("bg", 0)))
    return out


def race_sig(rep):
    kind, a, b, _ = rep
    return dict(kind="race" if "data race" in kind else kind.replace(" ", "-"), site=min(a, b), other=max(a, b))


class Stats:
    def __init__(self):
        self.edges = set()
        self.waits = 0


def evaluate(ctx, r, meta, variant, drv, stats, accept_cache):
    """all checks on one finished run"""
    name = r.name
    replay = dict(case=name, variant=variant, lines=meta["lines"], out=r.lines[:400])
    if r.f25:
        ctx.fail(dict(kind="resize-not-performed", stage=(re.findall(r"stage-now=(\d+)", r.f25) or ["?"])[0]), dict(replay, marker=r.f25),
                 "file growth acknowledged by the log listener but never performed (%s)" % r.f25)
        return
    if r.hang:
        where = " ".join(sorted(set(w.split("[")[1].split(" ")[0] for w in r.hang.split() if "[" in w)))
        ctx.fail(dict(kind="hang", where=where or "?"), dict(replay, hang=r.hang), "a call never returned: " + r.hang[:300])
        return
    if not r.complete:
        kind, fn = K_san(r.stderr)
        ctx.fail(dict(kind="crash", site=fn, what=kind), dict(replay, stderr=r.stderr[-3000:]), "harness died: %s in %s" % (kind, fn))
        return
    if variant == "tsan":
        for rep in K.tsan_reports(r.stderr):
            ctx.hist("tsan-report")
            ctx.fail(race_sig(rep), dict(replay, report=rep[3]), "ThreadSanitizer: %s between %s and %s" % (rep[0], rep[1], rep[2]))
    if r.close != "0":
        ctx.fail(dict(kind="close-rc", rc=r.close), replay, "iwkv_close returned %s" % r.close)
    # the property itself: results and final contents are those of a sequential order
    for cls, msg in K.check_history(r, shared_ids={1, 2, 50}):
        ctx.fail(dict(kind="oracle", cls=cls), dict(replay, problem=msg), msg)
    # correspondence: every recorded call is a path of the model's call automaton
    todo = []
    for kind, toks, where in check_events(r, meta["wal"]):
        edges, probs, held = K.lock_edges(toks)
        stats.edges |= edges
        stats.waits += sum(1 for t in toks if t[0] == "c")
        for (a, b) in edges:
            if K.RANK.get(a, 99) >= K.RANK.get(b, -1):
                ctx.fail(dict(kind="lock-order", edge="%s->%s" % (a, b)), dict(replay, where=where, tokens=toks[:200]),
                         "lock %s acquired while holding %s: outside the declared order" % (b, a))
        line = kind + " : " + " ".join(toks)
        ctx.hist("call:" + kind.split()[0])
        if line not in accept_cache:
            accept_cache[line] = None
            todo.append((line, where))
    return todo


def K_san(stderr):
    from vlib.diff import san_site
    return san_site(stderr)


def run_batch(ctx, h, drv, variant, cases, stats, accept_cache):
    texts = [(n, ls) for n, ls, m in cases]
    metas = {n: dict(m, lines=ls) for n, ls, m in cases}
    res = K.run_cases(h, texts, variant=variant, timeout=900)
    pending = []
    for n, ls, m in cases:
        r = res.get(n)
        ctx.case(hashlib.sha256("\n".join(ls[1:]).encode()).hexdigest()[:16])
        for role in m["roles"]:
            ctx.hist("role:" + role)
        ctx.hist("threads:%d" % m["nth"])
        ctx.hist("variant:" + variant)
        if r is None:
            ctx.corr_broken.append("no output for case %s" % n)
            continue
        todo = evaluate(ctx, r, metas[n], variant, drv, stats, accept_cache)
        if todo:
            pending.extend((line, where, n) for line, where in todo)
        if r.complete:
            for (tid, idx), o in r.ops.items():
                ctx.hist("op:" + o["text"].split()[0])
    if drv and pending:
        rc, o, e = C.run_lines([drv, "c07"], [p[0] for p in pending], timeout=600)
        if len(o) != len(pending):
            ctx.corr_broken.append("model driver c07 answered %d of %d lines: %s" % (len(o), len(pending), e[-300:]))
        for (line, where, n), ans in zip(pending, o):
            accept_cache[line] = ans
            ctx.cov["traces_validated_against_impl"] += 1
            if ans != "ok":
                ctx.hist("model-reject")
                ctx.corr_broken.append("recorded call is not a path of the model (%s): case %s op %s `%s`" % (ans, n, where, line[:300]))
                if len(ctx.corr_broken) <= 6:
                    ctx.log("MODEL-REJECT", ans, n, where, line[:400])


def explore(ctx, hs, drv, n_asan, n_tsan, label, stats):
    r = C.Rng(ctx.seed, "c07/" + label)
    cache = {}
    for variant, n in (("asan", n_asan), ("tsan", n_tsan)):
        if not n or variant not in hs:
            continue
        cases = []
        for i in range(n):
            x = r.random()
            directed = "dbrace" if x < 0.06 else "copyrace" if x < 0.10 else None
            cases.append(gen_case(r, "%s-%s-%d" % (label, variant, i), ctx.tier, directed))
        for c in cases[:2]:
            ctx.sample(dict(case=c[0], threads=c[2]["nth"], wal=c[2]["wal"], roles=c[2]["roles"], lines=c[1][:14]))
        for i in range(0, len(cases), 25):
            if len(ctx.violations) >= 3 and time.time() - ctx.t0 > 300:
                ctx.notes.append("exploration cut short after %d of %d %s cases: violations already reported and 5 minutes used" % (i, len(cases), variant))
                break      # hangs are expensive (every one costs a watchdog period): do not grind through the rest
            run_batch(ctx, hs[variant], drv, variant, cases[i:i + 25], stats, cache)


def run(ctx):
    ctx.cov["rule"] = ("a case = 2..8 threads with random short programs by role (writer/reader/scanner/admin/private/growth/mixed) over a "
                       "small contended key set of two shared databases plus thread-private databases, WAL on or off, yields injected at lock "
                       "calls; distinct = distinct program text; every case is non-trivial (at least two threads run against one store)")
    ctx.assumptions += [
        "a thread does not call an exclusive operation (sync, checkpoint, create/destroy database, backup) while it holds an open cursor (documented self-deadlock)",
        "a database handle is not used by other threads while it is being destroyed (the API frees it)",
        "cursor set/delete are exercised on thread-private databases only (their target key is not observable through the API under concurrency)"]
    ctx.translate()
    ok, drv_ok = ctx.prove(MODULE, THEOREMS)
    hs = {"asan": K.build("asan"), "tsan": K.build("tsan")}
    drv = C.drv_path() if drv_ok else None
    stats = Stats()
    if ctx.tier == "quick":
        explore(ctx, hs, drv, 500, 200, "main", stats)
    else:
        explore(ctx, hs, drv, 3000, 1200, "main", stats)
    if (ctx.proof_broken or ctx.corr_broken) and not ctx.violations:
        ctx.log("obligation or correspondence broken: widening the search for a failing input")
        for i in range(3):
            explore(ctx, hs, drv, 150, 60, "search%d" % i, stats)
    ctx.cov["lock_edges_observed"] = sorted("%s->%s" % e for e in stats.edges)
    ctx.cov["condition_waits_observed"] = stats.waits
    for e in ("K->S", "S->D", "D->A", "A->F", "F->G", "D->F", "S->G"):
        if e not in ctx.cov["lock_edges_observed"]:
            ctx.notes.append("coverage gap: lock edge %s never observed in this run" % e)


def replay(ctx, obj):
    rp = obj["replay"]
    h = K.build(rp.get("variant", "asan"))
    res = K.run_cases(h, [(rp["case"], rp["lines"])], variant=rp.get("variant", "asan"), timeout=300)
    r = res.get(rp["case"])
    if r is not None:
        print("\n".join(r.lines[:200]))
        print(r.stderr[-3000:])
    ctx.case("replay")
    ctx.case("replay2")
