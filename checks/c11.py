"""C11: allocator bookkeeping is conserved, coalesced and survives reopen."""
from vlib import common as C
from checks import fsmlib as F

LEVEL = "proof"
MANIFEST = dict(
    level="proof",
    text=("Lean 4 theorems over the executable allocator model of iwfsmfile.c: the invariant `index = maximal zero runs of the bitmap` "
          "(plus cache validity and reserved header/bitmap blocks) holds initially and is preserved by allocate / release, hence adjacent free "
          "regions are always merged and the index is determined by the bitmap; the byte-wise bitmap loader yields exactly the maximal zero runs. "
          "The model is tied to the code by a differential run of the real IWFS_FSM "
          "(histories with sync / close / reopen / clear, trim on and off, releases at every alignment against 64-bit words) against the compiled "
          "Lean model; an independent oracle compares index, bitmap runs, the complement of the live regions and the file size after close"),
    note=("trusted: Lean kernel, translator, harness/generator, gcc+ASan/UBSan; modelled not verified: the C control flow of the functions named; "
          "the word-wise scans and iwbits leaves are tied by differential tests against the compiled definitions and a naive oracle, their equality with the naive scans is not yet a theorem; "
          "page size 4096; little-endian branch of the scans"),
    technique="Lean 4 proof over executable model + differential correspondence (C harness vs compiled Lean driver) + bitmap/index/live-set oracle")
MODULE = "IwModel.Props.C11"
THEOREMS = ["IwModel.C11." + n for n in (
    "inv_open", "inv_step", "inv_reachable", "index_eq_runs", "coalesced", "index_determined_by_bitmap",
    "reopen_same", "load_exact", "free_all")]

# F1 witness (DESIGN.md section 7, probe p2): eight 4-block regions, free 1,3,5, consume the free tail exactly,
# free 0,4,6, then ask for 8 and 16 blocks
F1_WITNESS = (["open 6 64 0 1 0 0 0 0"] + ["alloc 256 0 9"] * 8 + ["dealloc #1", "dealloc #2", "dealloc #3", "check",
              "alloc %d 0 11" % (32640 * 64), "check", "dealloc #0", "check", "dealloc #1", "check", "dealloc #1", "check",
              "alloc 512 0 11", "alloc 1024 0 11", "check"])


def corpus():
    out = []
    for mm in (1, 0):
        ops = list(F1_WITNESS)
        ops[0] = "open 6 64 0 %d 0 0 0 1" % mm
        cfg = F.Cfg(6, 64, 0, mm, 0, 0, 0, 1)
        out.append(F.history_case("corpus-f1", cfg, ops))
    return out


def cases_main(r, n, tier):
    out = []
    for _ in range(n):
        k = r.random()
        if k < 0.55:
            cfg = F.rand_cfg(r)
            ops = F.gen_history(r, cfg, r.randrange(30, 120 if tier == "quick" else 300), reopen=True)
            out.append(F.history_case("reopen-history-" + cfg.tag(), cfg, ops))
        elif k < 0.75:
            cfg = F.rand_cfg(r)
            cfg = F.Cfg(6, cfg.hdr, cfg.bmlen, cfg.mmapall, cfg.strict, cfg.lsnr, cfg.notrim, cfg.pat)
            out.append(F.history_case("word-align", cfg, F.gen_wordalign(r, cfg)))
        elif k < 0.87:
            out.append(F.case_scan(r))
        elif k < 0.95:
            out.append(F.case_load(r))
        else:
            out.append(F.case_leaf(r))
    return out


def cases_wordalign_all(r):
    """thorough tier: every (start mod 64, end mod 64) pair of a released sub-range"""
    out = []
    for s in range(0, 64):
        for e in range(0, 64):
            cfg = F.Cfg(6, 64, 0, r.randrange(2), r.randrange(2), 0, 0, 0)
            lo = s + 64 * r.randrange(0, 2)
            hi = e + 64 * r.randrange(2, 4)
            out.append(F.history_case("word-align", cfg, F.gen_wordalign(r, cfg, lo, max(lo + 1, min(256, hi)))))
    return out


def run(ctx):
    ctx.cov["rule"] = ("cases: (a) histories as in C10 interleaved with sync / close+reopen / clear (trim on and off), each followed by a state comparison; "
                       "(b) a 256-block region on a 64-block boundary from which sub-ranges are released at chosen offsets against the 64-bit words of the bitmap "
                       "(thorough: all 64x64 start/end residues); (c) unit cases for the word-wise scans, iwbits leaves and the byte-wise loader against a naive oracle; "
                       "(d) the F1 witness history. distinct = distinct op text")
    ctx.assumptions += ["page size (iwp_alloc_unit) is 4096", "little-endian host (the IW_BIGENDIAN branches are not compiled)",
                        "non-strict mode: callers release only ranges they own"]
    ctx.translate()
    ok, drv_ok = ctx.prove(MODULE, THEOREMS)
    h = F.build(ctx)
    drv = C.drv_path() if drv_ok else None
    F.explore(ctx, h, drv, corpus(), "corpus", "c11c")
    n = 120 if ctx.tier == "quick" else 1200
    F.explore(ctx, h, drv, cases_main(C.Rng(ctx.seed, "c11/main"), n, ctx.tier), "main", "c11")
    if ctx.tier == "thorough":
        F.explore(ctx, h, drv, cases_wordalign_all(C.Rng(ctx.seed, "c11/wa")), "wordalign", "c11w")
    if ctx.proof_broken or ctx.corr_broken:
        ctx.log("obligation or correspondence broken: widening the search for a failing input")
        for i in range(3):
            F.explore(ctx, h, drv, cases_main(C.Rng(ctx.seed, "c11/search%d" % i), 200, "thorough"), "search%d" % i, "c11s")


def replay(ctx, obj):
    F.replay(ctx, obj)
