"""C11: allocator bookkeeping is conserved, coalesced and survives reopen."""
from vlib import common as C
from checks import fsmlib as F

LEVEL = "proof"
# C functions this check's models mirror (source-text fingerprints are recorded in the evidence, see translate/funchash.py)
MODELLED_FUNCS = {'src/fs/iwfsmfile.c': ['_fsm_load_fsm_lw', '_fsm_trim_tail_lw', '_fsm_find_next_set_bit', '_fsm_find_prev_set_bit', '_fsm_set_bit_status_lw', '_fsm_init_lw', '_fsm_clear', '_fsm_close', '_fsm_put_fbk', '_fsm_del_fbk', '_fsm_blk_deallocate_lw']}
MANIFEST = dict(
    level="proof",
    text=("Lean 4 theorems over the executable allocator model of iwfsmfile.c: the invariant `index = maximal zero runs of the bitmap` "
          "(plus cache validity, reserved header/bitmap blocks, geometry) holds after open and is preserved by every call - allocate with all flags "
          "incl. bitmap growth/relocation, release, reallocate, sync, close+reopen with/without trim, clear - hence over every history; adjacent free "
          "regions are always merged, the index is a function of the bitmap, reopen without trim gives the same index, freeing everything leaves "
          "exactly the gaps around header and bitmap; the word-wise bit scans (incl. iwbits_find_first_sbit64 / iwbits_reverse_64) equal the naive "
          "scans for all offsets and word contents; the byte-wise loader equals the bit-wise one. The model is tied to the code by a differential run "
          "of the real IWFS_FSM (histories with sync / close / reopen / clear, trim on and off, releases at every alignment against 64-bit words, "
          "unit cases for scans and loader) against the compiled Lean model; an independent oracle compares index, bitmap runs, the complement of "
          "the live regions and the file size after close"),
    note=("trusted: Lean kernel, translator, harness/generator, gcc+ASan/UBSan; modelled not verified: the C control flow of the functions named; "
          "non-strict mode: theorems assume releases name allocated ranges (open finding FSM6 of C10); file size after close and persistence of the "
          "statistics are tied and checked by the oracle, not theorems; page size 4096; little-endian branch of the scans; "
          "tree modelled = /repo + fix commits 92a58a8 c298771 178a684 2507f48 9fd915e dd41311 (+474d361 of exf12)"),
    technique="Lean 4 proof over executable model + differential correspondence (C harness vs compiled Lean driver) + bitmap/index/live-set oracle")
MODULE = "IwModel.Props.C11"
THEOREMS = ["IwModel.C11." + n for n in (
    "inv_open", "inv_step", "inv_reachable", "index_eq_runs", "coalesced", "index_determined_by_bitmap",
    "reopen_same", "load_exact", "free_all", "bitscan_next_spec", "bitscan_prev_spec", "ffs_spec", "rev64_spec",
    "load_spec", "load_spec_runs")]

# F1 witness (DESIGN.md section 7, probe p2): eight 4-block regions, free 1,3,5, consume the free tail exactly,
# free 0,4,6, then ask for 8 and 16 blocks
F1_WITNESS = (["open 6 64 0 1 0 0 0 0"] + ["alloc 256 0 9"] * 8 + ["dealloc #1", "dealloc #2", "dealloc #3", "check",
              "alloc %d 0 11" % (32640 * 64), "check", "dealloc #0", "check", "dealloc #1", "check", "dealloc #1", "check",
              "alloc 512 0 11", "alloc 1024 0 11", "check"])


def corpus():
    out = []
    for mm in (1, 0):
        ops = list(F1_WITNESS)
        ops[0] = "open 6 64 0 %d 0 0 0 1" % mm
        cfg = F.Cfg(6, 64, 0, mm, 0, 0, 0, 1)
        out.append(F.history_case("corpus-f1", cfg, ops))
    return out


def cases_main(r, n, tier):
    out = []
    for _ in range(n):
        k = r.random()
        if k < 0.55:
            cfg = F.rand_cfg(r)
            ops = F.gen_history(r, cfg, r.randrange(30, 120 if tier == "quick" else 300), reopen=True)
            out.append(F.history_case("reopen-history-" + cfg.tag(), cfg, ops))
        elif k < 0.75:
            cfg = F.rand_cfg(r)
            cfg = F.Cfg(6, cfg.hdr, cfg.bmlen, cfg.mmapall, cfg.strict, cfg.lsnr, cfg.notrim, cfg.pat)
            out.append(F.history_case("word-align", cfg, F.gen_wordalign(r, cfg)))
        elif k < 0.87:
            out.append(F.case_scan(r))
        elif k < 0.95:
            out.append(F.case_load(r))
        else:
            out.append(F.case_leaf(r))
    return out


def cases_wordalign_all(r):
    """thorough tier: every (start mod 64, end mod 64) pair of a released sub-range"""
    out = []
    for s in range(0, 64):
        for e in range(0, 64):
            cfg = F.Cfg(6, 64, 0, r.randrange(2), r.randrange(2), 0, 0, 0)
            lo = s + 64 * r.randrange(0, 2)
            hi = e + 64 * r.randrange(2, 4)
            out.append(F.history_case("word-align", cfg, F.gen_wordalign(r, cfg, lo, max(lo + 1, min(256, hi)))))
    return out


def run(ctx):
    ctx.cov["rule"] = ("cases: (a) histories as in C10 interleaved with sync / close+reopen / clear (trim on and off), each followed by a state comparison; "
                       "(b) a 256-block region on a 64-block boundary from which sub-ranges are released at chosen offsets against the 64-bit words of the bitmap "
                       "(thorough: all 64x64 start/end residues); (c) unit cases for the word-wise scans, iwbits leaves and the byte-wise loader against a naive oracle; "
                       "(d) the F1 witness history. distinct = distinct op text")
    ctx.assumptions += ["page size (iwp_alloc_unit) is 4096", "little-endian host (the IW_BIGENDIAN branches are not compiled)",
                        "non-strict mode: callers release only ranges they own"]
    ctx.translate()
    ok, drv_ok = ctx.prove(MODULE, THEOREMS)
    h = F.build(ctx)
    drv = C.drv_path() if drv_ok else None
    F.explore(ctx, h, drv, corpus(), "corpus", "c11c")
    n = 900 if ctx.tier == "quick" else 4000
    F.explore(ctx, h, drv, cases_main(C.Rng(ctx.seed, "c11/main"), n, ctx.tier), "main", "c11")
    if ctx.tier == "thorough":
        F.explore(ctx, h, drv, cases_wordalign_all(C.Rng(ctx.seed, "c11/wa")), "wordalign", "c11w")
    if (ctx.proof_broken or ctx.corr_broken) and not ctx.violations:
        ctx.log("obligation or correspondence broken: widening the search for a failing input")
        for i in range(3):
            F.explore(ctx, h, drv, cases_main(C.Rng(ctx.seed, "c11/search%d" % i), 200, "thorough"), "search%d" % i, "c11s")


def replay(ctx, obj):
    F.replay(ctx, obj)
