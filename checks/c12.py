"""C12: reads through the extensible file return the bytes last written; sizes follow the policy."""
import os
from vlib import common as C
from vlib.diff import Case, differential

LEVEL = "proof"
# C functions this check's models mirror (source-text fingerprints are recorded in the evidence, see translate/funchash.py)
MODELLED_FUNCS = {'src/fs/iwexfile.c': ['_exfile_write', '_exfile_read', '_exfile_copy', '_exfile_ensure_size_lw', '_exfile_truncate_lw', '_exfile_initmmap_slot_lw', '_exfile_add_mmap', '_exfile_remove_mmap', 'iw_exfile_szpolicy_fibo', 'iw_exfile_szpolicy_mul', '_exfile_close'],
                  'src/fs/iwfile.c': ['_iwfs_write', '_iwfs_copy', '_iwfs_sync']}
MANIFEST = dict(
    level="proof",
    text=("Lean 4 theorems over an executable model of iwexfile.c (request splitting between mapped windows and the file, "
          "remap of every window on a size change, the three resize policies, maxoff, copy, open/close): the pieces of a request "
          "partition it for every window layout; with shared windows every read equals the slice of one flat byte array and every "
          "write/truncate updates that array as pwrite/ftruncate would, for all call sequences; sizes stay page aligned, within maxoff and "
          "equal to the physical size unless a copy went beyond it (characterised exactly, as is the size the next open sees); ensure_size reaches every "
          "request maxoff admits and the growth sequences of all policies are monotone, aligned and bounded by maxoff; with any number of private "
          "windows every history refines a two-layer reference (file array + per-window copy-on-write pages), a write is always read back, "
          "and a later read differs from the flat array exactly under the stated remap/remove/file-copy condition. Data listener (iwdlsnr.h): the model "
          "returns, per call, the listener calls the code makes (onresize / onwrite per piece / oncopy, passive listener or one that resizes itself "
          "as the WAL does); replaying them on a copy of the old file gives exactly the new file and size for every call and history with shared "
          "windows (listener completeness), every event fits the size the listener was told, with private windows the replay is the flat "
          "expectation and agrees with a read exactly where the call does not diverge; a store through acquire_mmap is not reported (stated). "
          "The model is tied to the code by a differential run of the real IWFS_EXT (ASan/UBSan build) against the compiled Lean model, with a "
          "flat shadow array as oracle and, for the listener, a recording IWDLSNR in the harness whose calls are compared line by line with the "
          "model's and replayed by an independent python oracle against the file (page hashes through read and through a pread of its own)"),
    note=("trusted: Lean kernel, translator, harness/generator, gcc+ASan/UBSan, Linux coherence of MAP_SHARED mappings with pread/pwrite and "
          "page-granular copy-on-write of MAP_PRIVATE; modelled not verified: the C control flow of iwexfile.c/iwfile.c/iwp_copy_bytes; "
          "listener callbacks that fail are not modelled (the recording listener always returns 0), onopen is never called by the code, "
          "the WAL's checkpoint/rollforward (remap shared, apply, remap private) is not modelled; single thread, offsets < 2^62; "
          "models the tree with the F29 fix and the fix of the window-relative onwrite offset (C12-LSNOFF)"),
    technique="Lean 4 proof over executable model + differential correspondence (C harness vs compiled Lean driver) + flat shadow oracle")
MODULE = "IwModel.Props.C12"
THEOREMS = [
    "IwModel.C12.segments_partition", "IwModel.C12.file_pieces_avoid_windows", "IwModel.C12.shared_refines_flat", "IwModel.C12.size_inv",
    "IwModel.C12.read_after_write", "IwModel.C12.read_unaffected_by_write", "IwModel.C12.read_fresh_is_zero",
    "IwModel.C12.copy_is_memmove", "IwModel.C12.ensure_follows_policy", "IwModel.C12.reopen_size_partial",
    "IwModel.C12.private_read_after_write_partial", "IwModel.C12.private_remap_loses_write",
    "IwModel.C12.private_remove_loses_write", "IwModel.C12.private_copy_bypasses_window", "IwModel.C12.copy_beyond_grows_disk",
    # private windows, any number: two-layer reference, exact divergence (C12-PRIV)
    "IwModel.C12.private_inv", "IwModel.C12.private_refines_two_layer", "IwModel.C12.read_is_view",
    "IwModel.C12.private_read_after_write", "IwModel.C12.private_diverges_iff", "IwModel.C12.shared_never_diverges",
    # size on disk / next open at full strength (C12-COPYEXT exactly)
    "IwModel.C12.disk_size_step", "IwModel.C12.copy_extends_disk_iff", "IwModel.C12.reopen_size", "IwModel.C12.reopen_same_size_iff",
    # resize policies
    "IwModel.C12.ensure_reaches_request", "IwModel.C12.ensure_beyond_maxoff_fails", "IwModel.C12.policy_fits",
    "IwModel.C12.resize_sequence", "IwModel.C12.fibo_sequence_reaches",
    # data listener (dlsnr round)
    "IwModel.C12.listener_model_agrees", "IwModel.C12.listener_complete", "IwModel.C12.listener_complete_step",
    "IwModel.C12.listener_events_fit", "IwModel.C12.unreported_store_invisible", "IwModel.C12.listener_holds_flat_array",
    "IwModel.C12.listener_vs_read",
]

PS = 4096
OFFMAX = (1 << 63) - 1


def rup(x, ps=PS):
    return (x + ps - 1) // ps * ps


def pat(seed, n):
    return bytes((seed + i) % 251 for i in range(n))


def fnv32(b):
    h = 2166136261
    for x in b:
        h = ((h ^ x) * 16777619) & 0xffffffff
    return h


# ---------------------------------------------------------------- the oracle: one flat zero-initialised byte array

class Flat:
    """Reference for the property, written from the header's wording: an unbounded zero-initialised byte
    array `mem`, a logical size, the size on disk, and the size rules (page aligned, <= maxoff, policy).
    It knows nothing about windows or request splitting.  `step(op, out)` checks one result line of the
    implementation against it (returns a message or None) and advances; with out=None it predicts."""

    def __init__(self):
        self.mem = bytearray()
        self.phys = 0
        self.open = False
        self.fsize = 0
        self.maxoff = 0
        self.pol = ("def", 0, 0)
        self.prev = 0
        self.unchecked = False     # set after an operation whose effect the flat reference leaves unspecified

    # -- array helpers
    def _get(self, a, b):
        b = max(a, b)
        s = bytes(self.mem[a:b])
        return s + bytes(b - a - len(s))

    def _put(self, a, data):
        if len(self.mem) < a + len(data):
            self.mem.extend(bytes(a + len(data) - len(self.mem)))
        self.mem[a:a + len(data)] = data

    def _setsize(self, s):
        """ftruncate to s: everything beyond is gone (reads as zero when the file grows again)"""
        del self.mem[s:]
        self.phys = s
        self.fsize = s

    def _grow_target(self, need):
        """size the policy asks for when `need` bytes must fit; None = policy result unusable"""
        kind, n, d = self.pol
        cur = self.fsize
        if kind == "fibo":
            res = rup(max(cur + self.prev, need))
            self.prev = cur        # the context is advanced whenever the policy is consulted
        elif kind == "mul" and d != 0 and n >= d:
            res = rup(need // d * n)
        else:
            res = rup(need)
        if res < need:
            return None
        if self.maxoff and res > self.maxoff:
            res = self.maxoff
        return res

    def _ensure(self, need):
        """returns expected rc of growing so that `need` fits (and performs it)"""
        if self.fsize >= need:
            return "ok"
        if self.maxoff and need > self.maxoff:
            # the policy is still consulted by ensure_size before maxoff is looked at
            t = self._grow_target(need)
            return "policy" if t is None else "maxoff"
        t = self._grow_target(need)
        if t is None:
            return "policy"
        self._setsize(t)
        return "ok"

    def _sizes_ok(self, fs):
        if fs % PS:
            return "[size-law] file size %d is not page aligned" % fs
        if self.maxoff and fs > self.maxoff and fs > self.size_at_open:
            return "[size-law] file size %d exceeds maxoff %d" % (fs, self.maxoff)
        if fs != self.fsize:
            return "[size-law] file size %d, the size rules give %d" % (fs, self.fsize)
        return None

    def step(self, op, out=None):
        w = op.split()
        if out is not None and " |" in out:
            out = out[:out.index(" |")]        # calls received by the data listener: judged by LsnOracle
        o = out.split() if out is not None else None
        k = w[0]
        if k == "lsn":
            return None
        if k == "open":
            kind, n, d, maxoff, initial, trunc = w[1], int(w[2]), int(w[3]), int(w[4]), int(w[5]), int(w[6])
            if trunc:
                self.mem = bytearray()
                self.phys = 0
            self.pol = (kind, n, d)
            self.prev = 0
            self.maxoff = maxoff // PS * PS if maxoff >= PS else 0
            self.fsize = self.phys
            self.size_at_open = self.phys
            target = rup(initial) if self.phys < initial else rup(self.phys)
            exp = "ok"
            if target != self.phys:
                if target > self.phys and self.maxoff and target > self.maxoff:
                    exp = "maxoff"
                else:
                    self._setsize(target)
            self.open = exp == "ok"
            if o is None:
                return None
            if o[1] != exp:
                return "[rc] %s: expected %s, got %s" % (op, exp, o[1])
            if self.open and int(o[2]) != self.fsize:
                return "[size-law] open: next open sees size %s, expected %d" % (o[2], self.fsize)
            return None
        if not self.open:
            return None if o is None or o[0] == "closed" else "[rc] %s on a closed file gave %s" % (op, out)
        if k not in ("close", "w", "r", "cp", "tr", "es", "am", "rm", "sm", "pm", "mw", "mwr", "ra", "sy", "st", "rx", "fx"):
            return None if o is None or o[0] == "bad-op" else "[rc] %s answered %s" % (op, out)
        if o is not None and o[0] != k:
            return "[rc] %s answered %s" % (op, out)
        if k == "close":
            self.open = False
            if o is not None and not self.unchecked and int(o[2]) != self.fsize:
                return "[disk-size] after close the file has %s bytes on disk, the logical size was %d (the next open sees a different size)" % (o[2], self.fsize)
            if o is not None:
                self.phys = int(o[2]) if self.unchecked else self.phys
            return None
        if k == "w":
            off, ln, seed = int(w[1]), int(w[2]), int(w[3])
            old = self.fsize
            if off < 0:
                exp = "oob"
            elif self.maxoff and off + ln > self.maxoff:
                exp = "maxoff"
            else:
                exp = self._ensure(off + ln)
            if exp == "ok":
                self._put(off, pat(seed, ln))
                if ln:
                    self.phys = max(self.phys, off + ln)
            if o is None:
                return None
            if o[1] != exp:
                return "[rc] %s: expected %s, got %s" % (op, exp, o[1])
            if int(o[2]) != (ln if exp == "ok" else 0):
                return "[rc] %s: %s bytes reported written" % (op, o[2])
            return self._sizes_ok(int(o[3]))
        if k == "r":
            off, ln = int(w[1]), int(w[2])
            if o is None:
                return None
            if off < 0:
                return None if o[1] == "oob" else "[rc] %s: expected oob, got %s" % (op, o[1])
            if o[1] != "ok":
                return "[rc] %s: got %s" % (op, o[1])
            if self.unchecked:
                return None
            exp = self._get(off, min(off + ln, self.fsize)) if off < self.fsize else b""
            if int(o[2]) != len(exp):
                return "[read-mismatch] %s returned %s bytes, %d lie below the file size %d" % (op, o[2], len(exp), self.fsize)
            hx = exp[:24].hex() or "-"
            if o[3] != "%08x" % fnv32(exp) or o[4] != hx:
                # locate the first difference as far as the output shows it
                return "[read-mismatch] %s does not return the bytes last written: got fnv %s head %s, expected fnv %08x head %s" % (
                    op, o[3], o[4], fnv32(exp), hx)
            return None
        if k == "cp":
            off, siz, noff = int(w[1]), int(w[2]), int(w[3])
            if o is None:
                if off + siz <= self.phys and not (noff > off and noff < off + siz):
                    self._put(noff, self._get(off, off + siz))
                    if siz:
                        self.phys = max(self.phys, noff + siz)
                return None
            r = self._sizes_ok(int(o[2]))
            if r:
                return r
            if o[1] == "ok":
                if off + siz > self.phys:
                    self.unchecked = True      # source beyond the end of the file on disk: unspecified
                    return None
                self._put(noff, self._get(off, off + siz))
                if siz:
                    self.phys = max(self.phys, noff + siz)
                return None
            if o[1] == "overflow" and noff > off and noff < off + siz:
                return None                    # refusal of a forward-overlapping copy changes nothing
            return "[rc] %s: got %s" % (op, o[1])
        if k == "tr":
            s = rup(int(w[1]))
            exp = "ok"
            if s > self.fsize and self.maxoff and s > self.maxoff:
                exp = "maxoff"
            elif s != self.fsize:
                self._setsize(s)
            if o is None:
                return None
            if o[1] != exp:
                return "[rc] %s: expected %s, got %s" % (op, exp, o[1])
            return self._sizes_ok(int(o[2]))
        if k == "es":
            exp = self._ensure(int(w[1]))
            if o is None:
                return None
            if o[1] != exp:
                return "[rc] %s: expected %s, got %s" % (op, exp, o[1])
            return self._sizes_ok(int(o[2]))
        if k in ("mw", "mwr"):
            if o is None:
                return None
            if o[1] == "ok":
                self._put(int(w[1]) + int(w[2]), pat(int(w[4]), int(w[3])))
            return None
        if k == "st":
            if o is None:
                return None
            r = self._sizes_ok(int(o[1]))
            if r:
                return r
            if not self.unchecked and int(o[2]) != self.fsize:
                return "[disk-size] the file has %s bytes on disk, the logical size is %d (the next open sees a different size)" % (o[2], self.fsize)
            return None
        return None   # am rm sm pm ra sy: no effect on the flat array


class LsnOracle:
    """What a data listener (src/fs/iwdlsnr.h) can rebuild from the calls it receives, written from the header's wording and
    from what the WAL does with them (memmove of the payload / memset / memmove inside the file / truncate with zero fill).
    It reads only the implementation's lines: the recorded calls behind " |", the sizes the API reports, and the page hashes
    of `rx` (through IWFS_EXT.read) and `fx` (a pread of the harness's own).  Knows nothing about windows or pieces."""

    def __init__(self):
        self.mode = 0
        self.sh = bytearray()      # the listener's copy
        self.size = 0              # the size the listener knows (the file as it found it, then every onresize)
        self.open = False
        self.private = False       # a private window exists: the file on disk lags behind on purpose
        self.loose = False         # after a store nobody reported / a copy with an unspecified result

    def _in(self, a, n):
        return a >= 0 and n >= 0 and a + n <= self.size

    def _apply(self, op, evs, k):
        prev = None
        for e in evs:
            t = e.split(":")
            if t[0] == "W":
                off, ln = int(t[1]), int(t[2])
                data = b"" if t[3] == "-" else bytes.fromhex(t[3])
                if len(data) != ln:
                    return "[lsn-args] %s: onwrite(%d, len %d) came with %d bytes" % (op, off, ln, len(data))
                if not self._in(off, ln):
                    return "[lsn-args] %s: onwrite(%d, %d) lies outside the %d bytes the listener was told the file has" % (op, off, ln, self.size)
                self.sh[off:off + ln] = data
            elif t[0] == "S":
                off, val, ln = int(t[1]), int(t[2]), int(t[3])
                if not self._in(off, ln):
                    return "[lsn-args] %s: onset(%d, %d) lies outside the %d bytes the listener was told the file has" % (op, off, ln, self.size)
                self.sh[off:off + ln] = bytes([val]) * ln
            elif t[0] == "C":
                off, ln, noff = int(t[1]), int(t[2]), int(t[3])
                if not (self._in(off, ln) and self._in(noff, ln)):
                    return "[lsn-args] %s: oncopy(%d, %d, %d) lies outside the %d bytes the listener was told the file has" % (op, off, ln, noff, self.size)
                self.sh[noff:noff + ln] = bytes(self.sh[off:off + ln])
            elif t[0] == "R":
                o, n = int(t[1]), int(t[2])
                if o != self.size:
                    return "[lsn-args] %s: onresize(%d, %d): the old size the listener knows is %d" % (op, o, n, self.size)
                if o == n:
                    return "[lsn-args] %s: onresize(%d, %d) without a change" % (op, o, n)
                del self.sh[n:]
                self.sh.extend(bytes(n - len(self.sh)))
                self.size = n
            elif t[0] == "r":
                if self.mode != 2 or prev is None or prev[0] != "R" or prev[1:] != e[1:]:
                    return "[lsn-args] %s: nested onresize %s without the resize it belongs to" % (op, e)
            elif t[0] == "Y":
                if k != "sy":
                    return "[lsn-args] %s: onsynced outside sync" % op
            elif t[0] == "X":
                if k != "close":
                    return "[lsn-args] %s: onclosing outside close" % op
            elif t[0] == "O":
                pass
            else:
                return "[lsn-args] %s: unreadable listener call %r" % (op, e[:60])
            if self.mode == 2 and prev is not None and prev[0] == "R" and t[0] != "r":
                return "[lsn-args] %s: the listener's own truncate_unsafe after %s did not come back to it" % (op, prev)
            prev = e
        if self.mode == 2 and prev is not None and prev[0] == "R":
            return "[lsn-args] %s: the listener's own truncate_unsafe after %s did not come back to it" % (op, prev)
        return None

    def _pages(self, data):
        return ["%08x" % fnv32(data[i:i + PS]) for i in range(0, len(data), PS)][:400]

    def step(self, op, line):
        w = op.split()
        k = w[0]
        if k == "lsn":
            self.mode = int(w[1]) if w[1] in ("0", "1", "2") else 0
            return None
        if self.mode == 0:
            if " |" in line:
                return "[lsn-args] %s: listener calls without a listener: %s" % (op, line[:80])
            return None
        if " |" not in line:
            return "[lsn-args] %s: no listener section in %r" % (op, line[:80])
        head, tail = line.split(" |", 1)
        o = head.split()
        evs = tail.split()
        if "overflow" in evs:
            return "[lsn-args] %s: more than 200 listener calls in one operation" % op
        if k == "open":
            if int(w[6]):
                self.sh = bytearray()
            self.size = len(self.sh)          # the listener finds the file as the last close left it
            self.private = False
            self.open = o[1] == "ok"
        elif not self.open:
            return None if not evs else "[lsn-args] %s on a closed file told the listener %s" % (op, tail[:60])
        before = bytes(self.sh) if k == "cp" else None
        msg = self._apply(op, evs, k)
        if msg:
            return msg
        if k == "close":
            self.open = False
            if "X" not in evs:
                return "[lsn-args] close: onclosing was not called"
        if k == "sy" and o[1] == "ok" and "Y" not in evs:
            return "[lsn-args] sync: onsynced was not called"
        if k == "am" and o[1] == "ok" and int(w[3]) & 1:
            self.private = True
        if o[0] != k:
            return None
        # the size the API reports is the size the listener was told
        fs = int(o[2]) if k in ("open", "cp", "tr", "es") else int(o[3]) if k == "w" else int(o[1]) if k in ("st", "rx") else None
        if fs is not None and (k != "open" or o[1] == "ok") and fs != self.size:
            return "[lsn-size] %s: the file has %d bytes, the listener was told %d" % (op, fs, self.size)
        if k == "w" and o[1] == "ok":
            off, ln = int(w[1]), int(w[2])
            if bytes(self.sh[off:off + ln]) != pat(int(w[3]), ln):
                return "[lsn-content] %s: the listener's copy does not hold the bytes written (a piece of the write was not reported, or with wrong arguments)" % op
        if k == "mwr" and o[1] == "ok":
            off, ln = int(w[1]) + int(w[2]), int(w[3])
            if bytes(self.sh[off:off + ln]) != pat(int(w[4]), ln):
                return "[lsn-content] %s: the caller's own onwrite did not reach the listener" % op
        if k == "mw" and o[1] == "ok":
            # not reported by the file layer (the caller's duty): the listener cannot know; keep our copy usable
            off, ln = int(w[1]) + int(w[2]), int(w[3])
            self.sh[off:off + ln] = pat(int(w[4]), ln)
        if k == "cp" and o[1] == "ok" and not self.loose:
            off, siz, noff = int(w[1]), int(w[2]), int(w[3])
            if off + siz <= len(before) and noff + siz <= len(before):
                if bytes(self.sh[noff:noff + siz]) != before[off:off + siz]:
                    return "[lsn-content] %s: the listener's copy of the destination differs from the source bytes (copy not reported, or with wrong arguments)" % op
            else:
                self.loose = True
        if k == "rx" and not self.loose:
            exp = self._pages(bytes(self.sh[:self.size]))
            got = o[2:]
            if got != exp:
                bad = next((i for i in range(max(len(got), len(exp))) if i >= len(got) or i >= len(exp) or got[i] != exp[i]), 0)
                return "[lsn-content] replaying the listener's calls does not give the file that read returns: page %d differs (%d pages read, listener has %d)" % (bad, len(got), len(exp))
        if k == "fx" and not self.loose and not self.private:
            exp = self._pages(bytes(self.sh))
            got = o[2:]
            if int(o[1]) != len(self.sh) or got != exp:
                bad = next((i for i in range(max(len(got), len(exp))) if i >= len(got) or i >= len(exp) or got[i] != exp[i]), 0)
                return "[lsn-content] replaying the listener's calls does not give the file on disk: %s bytes on disk, listener has %d; page %d differs" % (o[1], len(self.sh), bad)
        return None


def make_oracle(ops):
    def oracle(out, ops=ops):
        fl = Flat()
        ls = LsnOracle()
        for op, line in zip(ops, out):
            msg = fl.step(op, line) or ls.step(op, line)
            if msg:
                return msg
        return None
    return oracle


# ---------------------------------------------------------------- generators

class Gen:
    """Builds one case while predicting sizes with the flat reference, so that offsets can be aimed at
    window edges and the end of the file."""

    def __init__(self, r, ctx, kind):
        self.r, self.ctx, self.kind = r, ctx, kind
        self.ops = []
        self.fl = Flat()
        self.win = []        # [off, maxlen, priv, dirty]
        self.lsn = 0         # listener mode of the case (0 = none)

    CAP = 40 * PS      # predicted file sizes are kept below this (the model works on byte lists)

    def sizes_after(self, op):
        """predicted logical size after `op` (sizes only, on a copy without the bytes)"""
        probe = Flat.__new__(Flat)
        probe.__dict__.update(self.fl.__dict__)
        probe.mem = bytearray()
        probe.step(op)
        return probe.fsize

    def emit(self, op):
        if op.split()[0] in ("w", "es", "tr", "open") and self.sizes_after(op) > self.CAP:
            return False
        self.ops.append(op)
        self.fl.step(op)
        return True

    def wlen(self, w, fsize=None):
        fs = self.fl.fsize if fsize is None else fsize
        return 0 if w[0] >= fs else min(w[1], fs - w[0])

    def points(self):
        fs = self.fl.fsize
        pts = [0, fs, fs, max(0, fs - PS), fs + PS, self.r.randrange(0, fs + 1)]
        for w in self.win:
            pts += [w[0], w[0] + w[1], w[0] + self.wlen(w)]
        return [p for p in pts if p <= fs + 12 * PS]

    def near(self, lo=0):
        p = self.r.choice(self.points()) + self.r.choice([0, 0, 0, -1, 1, -2, 2, -7, 13, self.r.randrange(-300, 300), self.r.randrange(-PS, PS)])
        return max(lo, p)

    def open(self, trunc=1, maxoff=None, initial=None):
        r = self.r
        pol = r.choice(["def 0 0", "def 0 0", "fibo 0 0", "fibo 0 0", "mul 3 2", "mul 2 1", "mul 5 4", "mul %d %d" % (r.randrange(1, 9), r.randrange(0, 5))])
        if maxoff is None:
            maxoff = r.choice([0, 0, 0, r.randrange(6, 40) * PS + r.choice([0, 1, PS - 1]), r.randrange(0, PS)])
        if initial is None:
            initial = r.choice([0, 0, 1, PS, r.randrange(0, 6 * PS)])
        self.emit("open %s %d %d %d" % (pol, maxoff, initial, trunc))
        self.win = []
        self.ctx.hist("policy:" + pol.split()[0])
        self.ctx.hist("maxoff:" + ("set" if self.fl.maxoff else "none"))

    def classify(self, tag, off, ln):
        if ln <= 0:
            return
        inm = sum(max(0, min(off + ln, w[0] + self.wlen(w)) - max(off, w[0])) for w in self.win)
        self.ctx.hist("%s:%s" % (tag, "mmap" if inm == ln else "file" if inm == 0 else "straddle"))

    def add_window(self, priv=0):
        r = self.r
        fs = self.fl.fsize
        off = r.choice([0, 0, PS * r.randrange(0, fs // PS + 3), PS * r.randrange(0, 8)])
        ml = r.choice([1, PS, 2 * PS, 3 * PS - 5, PS * r.randrange(1, 8), 1 << 40, fs or PS])
        self.emit("am %d %d %d" % (off, ml, priv | r.choice([0, 0, 2])))
        ml2 = rup(ml)
        if not any(off < w[0] + w[1] and w[0] < off + ml2 for w in self.win):
            self.win.append([off, ml2, priv, False])
            self.win.sort()

    def dirty_private(self, a, b):
        """private windows whose pages intersect [a, b)"""
        return [w for w in self.win if w[2] and a < w[0] + self.wlen(w) and w[0] < b and b > a]

    def size_change_safe(self, newsize):
        """no written private window changes its length"""
        return all(self.wlen(w) == self.wlen(w, newsize) for w in self.win if w[2] and w[3])

    def op_write(self, grow=True):
        r = self.r
        fs = self.fl.fsize
        off = self.near()
        ln = r.choice([0, 1, 2, 100, r.randrange(0, 600), r.randrange(0, 3 * PS), max(0, self.near() - off), max(0, self.near() - off), 2 * PS + 17])
        if not grow:
            off = min(off, fs)
            ln = min(ln, fs - off)
        if off + ln > 300 * PS:
            return
        if self.kind == "private-safe" and off + ln > fs:
            # growth must not re-map a private window that was written
            if not self.size_change_safe(self.sizes_after("es %d" % (off + ln))):
                return
        self.classify("w", off, min(ln, max(0, max(fs, 0) - off)) if off + ln <= fs else ln)
        if self.emit("w %d %d %d" % (off, ln, r.randrange(1, 251))):
            for w in self.dirty_private(off, off + ln):      # after the growth this write may have caused
                w[3] = True

    def op_read(self):
        off = self.near()
        ln = self.r.choice([0, 1, 5, 100, self.r.randrange(0, 600), self.r.randrange(0, 3 * PS), max(0, self.near() - off), max(0, self.near() - off), 5 * PS])
        self.classify("r", off, max(0, min(off + ln, self.fl.fsize) - off))
        self.emit("r %d %d" % (off, ln))

    def op_copy(self):
        r = self.r
        fs = self.fl.fsize
        if fs == 0:
            return
        siz = r.choice([0, 1, 100, r.randrange(0, 600), r.randrange(0, 3 * PS), PS, 2 * PS + 1])
        siz = min(siz, fs)
        off = min(self.near(), fs - siz)
        noff = min(self.near(), fs - siz)
        first = self.win[0] if self.win else None
        inwin = bool(first and first[0] == 0 and self.wlen(first) >= max(off, noff) + siz)
        if self.kind == "private-safe" and not inwin and (self.dirty_private(off, off + siz) or self.dirty_private(noff, noff + siz)
                                                        or any(w[2] for w in self.win if noff < w[0] + self.wlen(w) and w[0] < noff + siz)):
            return
        if inwin and first[2] and siz:
            first[3] = True
        self.ctx.hist("cp:" + ("memmove" if inwin else "forward-overlap" if off < noff < off + siz else "file"))
        self.emit("cp %d %d %d" % (off, siz, noff))

    def op_resize(self):
        r = self.r
        fs = self.fl.fsize
        size = max(0, r.choice([fs, fs + PS, fs - PS, fs - 1, fs + 1, self.near(), self.near(), r.randrange(0, fs + 4 * PS), 0]))
        which = r.choice(["tr", "es", "es"])
        if self.kind == "private-safe":
            if not self.size_change_safe(self.sizes_after("%s %d" % (which, size))):
                return
        self.ctx.hist("resize:" + which + (":grow" if size > fs else ":shrink" if rup(size) < fs and which == "tr" else ":same"))
        self.emit("%s %d" % (which, size))

    def op_mw(self):
        ws = [w for w in self.win if self.wlen(w)]
        if not ws:
            self.emit("mw %d 0 1 1" % (self.r.randrange(0, 4) * PS))
            return
        w = self.r.choice(ws)
        ln = self.wlen(w)
        rel = self.r.choice([0, ln - 1, ln - 10, self.r.randrange(0, ln)])
        rel = max(0, rel)
        n = self.r.choice([1, 10, self.r.randrange(0, 500), ln - rel, ln - rel + 1])
        if w[2] and rel + n <= ln and n:
            w[3] = True
        verb = "mwr" if self.lsn and self.r.random() < 0.85 else "mw"
        if self.lsn:
            self.ctx.hist("lsn:store-" + ("reported" if verb == "mwr" else "unreported"))
        self.emit("%s %d %d %d %d" % (verb, w[0], rel, n, self.r.randrange(1, 251)))

    def op_misc(self):
        r = self.r
        offs = [w[0] for w in self.win] + [r.randrange(0, 6) * PS]
        k = r.choice(["pm", "pm", "sm", "st", "ra", "sy"])
        self.emit(k + (" %d" % r.choice(offs) if k in ("pm", "sm") else ""))

    def op_remove(self):
        if not self.win or self.r.random() < 0.2:
            off = self.r.randrange(0, 6) * PS
            w = next((w for w in self.win if w[0] == off), None)
        else:
            w = self.r.choice(self.win)
            off = w[0]
        if w is not None:
            if self.kind == "private-safe" and w[2] and w[3]:
                return
            self.win.remove(w)
        self.emit("rm %d" % off)

    def body(self, n, priv_p=0.0, grow=True):
        r = self.r
        for _ in range(n):
            x = r.random()
            if x < 0.30:
                self.op_write(grow=grow or r.random() < 0.5)
            elif x < 0.58:
                self.op_read()
            elif x < 0.68:
                self.op_copy()
            elif x < 0.76:
                self.op_resize()
            elif x < 0.83:
                self.add_window(1 if r.random() < priv_p else 0)
            elif x < 0.87:
                self.op_remove()
            elif x < 0.93:
                self.op_mw()
            else:
                self.op_misc()

    def layout(self, priv_p=0.0):
        r = self.r
        lay = r.choice(["none", "partial", "partial", "whole", "whole-later"])
        self.ctx.hist("layout:" + lay + ("+private" if priv_p else ""))
        if lay == "partial":
            for _ in range(r.randrange(1, 4)):
                self.add_window(1 if r.random() < priv_p else 0)
        elif lay == "whole":
            self.emit("am 0 %d %d" % (r.choice([1 << 40, OFFMAX, 64 * PS]), 1 if r.random() < priv_p else 0))
            self.win.append([0, 1 << 62, 1 if self.ops[-1].endswith(" 1") else 0, False])
        return lay

    def final_reads(self):
        fs = self.fl.fsize
        if self.lsn:
            self.emit("rx")
            self.emit("fx")
        self.emit("st")
        self.emit("r 0 %d" % (fs + 10))
        for w in self.win:
            self.emit("pm %d" % w[0])


def case_shared(r, ctx, nops):
    g = Gen(r, ctx, "shared")
    g.open()
    lay = g.layout()
    if r.random() < 0.5:
        g.emit("w 0 %d %d" % (r.randrange(1, 5 * PS), r.randrange(1, 251)))
    g.body(nops)
    if lay == "whole-later":
        g.emit("am 0 %d 0" % (1 << 40))
        g.body(nops // 3)
    g.final_reads()
    g.emit("close")
    if r.random() < 0.4:            # the next open sees the same size and bytes
        g.open(trunc=0)
        g.layout()
        g.body(nops // 4)
        g.final_reads()
        g.emit("close")
    return Case("shared", g.ops, make_oracle(g.ops))


def case_listener(r, ctx, nops):
    """one life of a file with a recording data listener attached: every result line carries the calls the listener received;
    the oracle replays them on its own copy and compares with the file (rx / fx) - see LsnOracle"""
    priv = r.random() < 0.3
    g = Gen(r, ctx, "private-safe" if priv else "shared")
    g.lsn = r.choice([1, 1, 2])
    ctx.hist("lsn:mode%d%s" % (g.lsn, "+private" if priv else ""))
    g.emit("lsn %d" % g.lsn)
    g.open(maxoff=0 if priv else None)
    if priv:
        g.emit("tr %d" % (r.randrange(2, 10) * PS))
        g.emit("w 0 %d %d" % (r.randrange(1, g.fl.fsize), r.randrange(1, 251)))
        lay = g.layout(priv_p=0.7)
    else:
        lay = g.layout()
        if r.random() < 0.5:
            g.emit("w 0 %d %d" % (r.randrange(1, 5 * PS), r.randrange(1, 251)))
    half = nops // 2
    g.body(half, priv_p=0.6 if priv else 0.0, grow=(not priv) or r.random() < 0.5)
    g.emit("rx")
    if r.random() < 0.5:
        g.emit("sy")
    if lay == "whole-later" and not priv:
        g.emit("am 0 %d 0" % (1 << 40))
    g.body(nops - half, priv_p=0.6 if priv else 0.0, grow=(not priv) or r.random() < 0.5)
    g.final_reads()
    g.emit("close")
    if not priv and r.random() < 0.4:            # the next life starts from the file the listener's copy describes
        g.open(trunc=0)
        g.layout()
        g.body(nops // 4)
        g.final_reads()
        g.emit("close")
    g.emit("lsn 0")
    return Case("listener", g.ops, make_oracle(g.ops))


def case_private_safe(r, ctx, nops):
    g = Gen(r, ctx, "private-safe")
    g.open(maxoff=0)
    g.emit("tr %d" % (r.randrange(2, 10) * PS))
    g.emit("w 0 %d %d" % (r.randrange(1, g.fl.fsize), r.randrange(1, 251)))
    g.layout(priv_p=0.7)
    g.body(nops, priv_p=0.6, grow=r.random() < 0.5)
    g.final_reads()
    g.emit("close")
    return Case("private-safe", g.ops, make_oracle(g.ops))


def case_private_remap(r, ctx, nops):
    """the stated exception: a private window that was written is re-mapped (size change), removed, or by-passed
    by a copy that goes through the file"""
    g = Gen(r, ctx, "private-remap")
    g.open(maxoff=0)
    pages = r.randrange(2, 6)
    g.emit("tr %d" % (pages * PS))
    g.emit("w 0 %d %d" % (pages * PS, r.randrange(1, 251)))
    woff = r.randrange(0, pages) * PS
    g.emit("am %d %d 1" % (woff, r.choice([1 << 40, (pages + 2) * PS])))
    g.emit("w %d %d %d" % (woff + r.randrange(0, 100), r.randrange(1, PS), r.randrange(1, 251)))
    how = r.choice(["grow", "shrink", "remove", "copy", "copy-onto"])
    ctx.hist("private-remap:" + how)
    if how == "grow":
        g.emit("es %d" % (pages * PS + 1))
    elif how == "shrink":
        g.emit("tr %d" % (woff + PS))
        g.emit("tr %d" % (pages * PS))
    elif how == "remove":
        g.emit("rm %d" % woff)
    elif how == "copy-onto":
        # a copy through the file onto a page the private window has already copied: the overlay keeps its old bytes
        # (private_diverges_iff, destination byte held in an overlay); needs a file path: window not at 0 or source outside it
        src = r.choice([p for p in range(pages) if p * PS != woff] or [0]) * PS
        g.emit("cp %d %d %d" % (src + r.randrange(0, 50), r.randrange(200, PS - 100), woff + r.randrange(0, 100)))
        g.emit("r %d %d" % (woff, PS))
    else:
        g.emit("tr %d" % ((pages + 2) * PS))
        g.emit("cp %d %d %d" % (woff, PS, (pages + 1) * PS))
        g.emit("r %d %d" % ((pages + 1) * PS, PS))
    g.emit("r 0 %d" % (pages * PS))
    g.emit("close")
    return Case("private-remap", g.ops, make_oracle(g.ops))


def case_copy_beyond(r, ctx, nops):
    """a copy whose destination ends beyond the logical size"""
    g = Gen(r, ctx, "copy-beyond")
    g.open(maxoff=0)
    pages = r.randrange(1, 5)
    g.emit("w 0 %d %d" % (pages * PS - r.randrange(0, 50), r.randrange(1, 251)))
    if r.random() < 0.5:
        g.emit("am %d %d 0" % (r.randrange(0, 2) * PS, r.choice([PS, 1 << 40])))
    fs = g.fl.fsize
    siz = r.randrange(1, fs)
    where = r.choice(["inside", "inside", "straddle-eof", "behind-source", "at-eof"])
    ctx.hist("copy-beyond:" + where)
    if where == "inside":
        g.emit("cp %d %d %d" % (r.randrange(0, fs - siz + 1), siz, fs - r.randrange(0, siz)))
    elif where == "behind-source":
        # source inside, destination behind the whole source range and (partly) beyond the size: disk = noff + siz (copy_extends_disk_iff)
        off = r.randrange(0, fs - siz + 1)
        g.emit("cp %d %d %d" % (off, siz, max(off + siz, fs - r.randrange(0, siz)) + r.choice([0, 1, PS, 3 * PS + 5])))
    elif where == "straddle-eof":
        # source starts inside the file and ends beyond it, destination behind the source: the chunk loop reads short once and
        # then reads the bytes it appended itself (fileCopy_length); the flat reference leaves the bytes unspecified, sizes are compared
        off = fs - r.randrange(1, min(siz, fs) + 1)
        big = r.choice([siz, siz, PS + r.randrange(1, 2 * PS), 2 * PS + 1])
        g.emit("cp %d %d %d" % (off, big, off + big + r.choice([0, 1, 100, PS])))
    else:
        g.emit("cp %d %d %d" % (fs + r.choice([0, 1, PS]), siz, fs + 2 * PS + siz))    # source at/behind the end: nothing is copied
    g.emit("r 0 %d" % (fs + 2 * PS))      # before `st`: a read that crosses the logical size must stop there
    g.emit("r %d %d" % (fs - r.randrange(0, 50), 2 * PS))
    g.emit("st")
    if r.random() < 0.5:
        g.emit("es %d" % (fs + r.randrange(1, 3 * PS)))
        g.emit("r 0 %d" % (fs + 4 * PS))
    g.emit("close")
    # the next open: disk size rounded up to a page (reopen_size); under a maxoff the rounding may be refused
    g.open(trunc=0, maxoff=r.choice([0, 0, fs, fs + PS, fs + 2 * PS + 1]), initial=0)
    g.emit("r 0 %d" % (fs + 4 * PS))
    g.emit("st")
    g.emit("close")
    return Case("copy-beyond", g.ops, make_oracle(g.ops))


def case_maxoff_clamp(r, ctx, nops):
    """growth requests at and just below maxoff under the growing policies: the proposal of the policy passes maxoff while the
    request does not, so ensure_size must cut the proposal down to maxoff (ensure_reaches_request); requests beyond maxoff fail"""
    g = Gen(r, ctx, "maxoff-clamp")
    mpages = r.randrange(4, 30)
    maxoff = mpages * PS + r.choice([0, 0, 1, PS - 1])
    pol = r.choice(["fibo 0 0", "fibo 0 0", "mul 2 1", "mul 3 2", "mul 5 4", "mul 7 2", "def 0 0"])
    g.emit("open %s %d %d 1" % (pol, maxoff, r.choice([0, PS, r.randrange(0, 3 * PS)])))
    ctx.hist("policy:" + pol.split()[0])
    ctx.hist("maxoff:set")
    if r.random() < 0.5:
        g.add_window(0)
    M = mpages * PS
    for _ in range(r.randrange(3, 9)):
        fs = g.fl.fsize
        need = r.choice([fs + 1, fs + PS, fs + r.randrange(1, 3 * PS), (fs + M) // 2 + 1, M - r.randrange(0, PS), M - PS + 1, M, M,
                         M + 1, M + PS])
        kind, n, d = g.fl.pol
        prop = rup(max(fs + g.fl.prev, need)) if kind == "fibo" else rup(need // d * n) if kind == "mul" and d and n >= d else rup(need)
        if need > fs:
            ctx.hist("clamp:" + ("beyond-maxoff" if need > M else "cut-to-maxoff" if prop > M and prop >= need else
                                 "policy-short" if prop < need else "below"))
        if r.random() < 0.5:
            g.emit("es %d" % need)
        else:
            ln = r.choice([1, 17, min(need, 300)])
            g.emit("w %d %d %d" % (need - ln, ln, r.randrange(1, 251)))
            g.emit("r %d %d" % (max(0, need - ln - 3), ln + 10))
    g.final_reads()
    g.emit("close")
    if r.random() < 0.3:
        g.open(trunc=0, maxoff=r.choice([maxoff, maxoff - PS, 0]))
        g.body(6)
        g.final_reads()
        g.emit("close")
    return Case("maxoff-clamp", g.ops, make_oracle(g.ops))


def case_odd(r, ctx, nops):
    """malformed / out-of-contract stream: model and implementation are compared, the flat reference
    only as far as it specifies the outcome"""
    g = Gen(r, ctx, "odd")
    g.open()
    g.layout()
    for _ in range(nops // 2):
        x = r.random()
        fs = g.fl.fsize
        if x < 0.15:
            g.emit("r %d %d" % (-r.randrange(1, 5000), r.randrange(0, 100)))
        elif x < 0.3:
            g.emit("w %d %d 3" % (-r.randrange(1, 5000), r.randrange(0, 100)))
        elif x < 0.4:
            g.emit("r %d %d" % (r.choice([fs, fs + 1, fs + PS, 1 << 40, 1 << 61]), r.choice([0, 1, 1 << 20])))
        elif x < 0.5:
            g.emit("am %d %d %d" % (r.choice([1, PS - 1, PS + 1, 0, PS]), r.choice([0, 0, 1, PS]), r.choice([0, 2])))   # shared only: private windows have their own streams
        elif x < 0.6:
            siz = r.randrange(0, min(3 * PS, fs + 1))      # source may end past the file; the destination stays inside (see copy-beyond)
            g.emit("cp %d %d %d" % (r.randrange(0, fs + PS), siz, r.randrange(0, fs - siz + 1)))
        elif x < 0.7:
            g.emit(r.choice(["rm", "sm", "pm"]) + " %d" % r.choice([1, PS - 1, 7 * PS, 0]))
        elif x < 0.8 and g.fl.maxoff:
            g.emit(r.choice(["w %d 1 1", "es %d", "tr %d"]) % r.choice([g.fl.maxoff, g.fl.maxoff + 1, 1 << 40, g.fl.maxoff - 1]))
        elif x < 0.85:
            g.emit("bogus 1 2")
        else:
            g.body(1)
    g.final_reads()
    g.emit("close")
    g.emit("r 0 1")
    return Case("odd", g.ops, make_oracle(g.ops))


GENS = [(case_shared, 10), (case_private_safe, 4), (case_odd, 2), (case_private_remap, 0.6), (case_copy_beyond, 0.9),
        (case_maxoff_clamp, 1.2), (case_listener, 5)]


def gen_cases(r, ctx, n, nops):
    tot = sum(w for _, w in GENS)
    out = []
    for _ in range(n):
        x = r.random() * tot
        for g, w in GENS:
            x -= w
            if x <= 0:
                out.append(g(r, ctx, nops))
                break
    return out


def signature(case, prob):
    if prob[0] == "crash":
        return dict(kind="crash", op=case.kind, site=prob[1]["site"], what=prob[1]["kind"])
    msg = prob[1] if prob[0] == "oracle" else ""
    cls = msg[1:msg.index("]")] if msg.startswith("[") else ""
    return dict(kind=prob[0], op=case.kind, cls=cls)


def shrink(h, case, cls=""):
    """drop op lines while the oracle still fails on the implementation (with the same class of failure)"""
    def fails(ops):
        try:
            os.remove(C.scratch() + "/c12s.dat")      # a re-open (trunc 0) must not find the file of an earlier attempt
        except OSError:
            pass
        rc, o, e = C.run_lines([h, C.scratch() + "/c12s.dat"], ops, timeout=30)
        if len(o) < len(ops):
            return True
        msg = make_oracle(ops)(o)
        return bool(msg) and (not cls or msg.startswith("[" + cls + "]"))
    nh = next((i for i, x in enumerate(case.ops) if x.startswith("open ")), 0) + 1
    head, rest = case.ops[:nh], case.ops[nh:]
    if not fails(case.ops):
        return case.ops
    rest = C.ddmin(rest, lambda sub: fails(head + sub), budget=120)
    return head + rest


def explore(ctx, h, drv, n, nops, label):
    r = C.Rng(ctx.seed, "c12/" + label)
    cases = gen_cases(r, ctx, n, nops)
    for c in cases[:4]:
        ctx.sample(dict(kind=c.kind, ops=c.ops[:12]))
    probs = differential(ctx, [h, C.scratch() + "/c12.dat"], [drv, "c12"] if drv else None, cases, timeout=900)
    ctx.cov["evaluations"] += sum(len(c.ops) for c in cases) - len(cases)   # count operations, not only cases
    for c, p in probs:
        if p[0] == "diverge":
            ctx.corr_broken.append("model/implementation diverge on `%s` (op %d of a %s case): impl `%s` model `%s`" % (
                c.ops[p[1]], p[1], c.kind, p[2][:120], p[3][:120]))
            if len(ctx.corr_broken) <= 5:
                ctx.log("DIVERGE", c.kind, "op", p[1], c.ops[p[1]], "| impl:", p[2][:100], "| model:", p[3][:100])
        else:
            sig = signature(c, p)
            ops = c.ops
            if not ctx._match(sig) and p[0] == "oracle" and len(ctx.violations) < 3:
                ops = shrink(h, c, sig.get("cls", ""))
            ctx.fail(sig, dict(case=c.kind, ops=ops, detail=p[1:]), str(p[1])[:400])
    return probs


def build(ctx):
    impl = C.build_impl("asan")
    return C.build_harness(impl, "h_c12", ["h_c12.c"])


def run(ctx):
    ctx.cov["rule"] = ("a case is one life of a file: open (policy default/fibonacci/multiplier, maxoff, initial size), a window layout "
                       "(none / 1-3 partial windows / whole file, shared or private), 30-120 operations (write, read, copy, truncate, "
                       "ensure_size, add/remove window, store through an acquired mapping (reported to the listener by the caller or not), probe/sync; "
                       "in the listener stream every line carries the recorded listener calls and rx/fx page hashes are taken mid-way and at the end) whose offsets and lengths are aimed "
                       "at window starts/ends, the end of the file and page edges +-{0,1,2,7,13,..}, final full read, close, often a re-open; "
                       "evaluations = operation lines run on implementation and model; distinct = distinct case text")
    ctx.assumptions += ["single thread (use_locks on); the data listener of the `listener` stream records and returns 0 (mode 1), or "
                        "additionally answers handled=true and resizes with truncate_unsafe (mode 2); all other streams run without a listener",
                        "file sizes stay below 1.3 MB, offsets below 2^62",
                        "Linux: MAP_SHARED windows are coherent with pread/pwrite; MAP_PRIVATE pages are copied page-wise on first store",
                        "tree modelled: /repo + fix of F29 (_exfile_copy window test) + fix of C12-LSNOFF (onwrite offset of a window piece)"]
    ctx.translate()
    ok, drv_ok = ctx.prove(MODULE, THEOREMS)
    h = build(ctx)
    drv = C.drv_path() if drv_ok else None
    n, nops = (450, 60) if ctx.tier == "quick" else (3000, 120)
    explore(ctx, h, drv, n, nops, "main")
    if (ctx.proof_broken or ctx.corr_broken) and not ctx.violations:
        ctx.log("obligation or correspondence broken: widening the search for a failing input")
        for i in range(3):
            explore(ctx, h, None, 400, 80, "search%d" % i)
    return


def replay(ctx, obj):
    h = build(ctx)
    ops = obj["replay"]["ops"]
    rc, o, e = C.run_lines([h, C.scratch() + "/c12.dat"], ops, timeout=60)
    rc2, m, e2 = C.run_lines([C.drv_path(), "c12"], ops, timeout=60)
    for i, op in enumerate(ops):
        a = o[i] if i < len(o) else "<no output>"
        b = m[i] if i < len(m) else "<no output>"
        print("%-30s impl: %s%s" % (op, a[:90], "" if a == b else "   | model: " + b[:90]))
    print(e[-2500:])
    msg = make_oracle(ops)(o) if len(o) >= len(ops) else "implementation stopped after %d of %d operations" % (len(o), len(ops))
    print("oracle:", msg)
    ctx.case("replay")
    ctx.case("replay2")
    if msg:
        ctx.fail(dict(kind="oracle" if len(o) >= len(ops) else "crash", op=obj["replay"].get("case", "replay"),
                      cls=msg[1:msg.index("]")] if msg.startswith("[") else ""), dict(case="replay", ops=ops), msg)
