"""C06: on-disk structure stays well-formed and every file block is accounted for."""
import os, re
from vlib import common as C
from vlib.diff import Case, differential
from checks import kvgen as G, c01

LEVEL = "proof"
MODULE = "IwModel.Props.C06"
THEOREMS = ["IwModel.C06." + t for t in (
    "checkSlots_sound", "checkDb_sound_levels", "checkDb_sound_links", "checkDb_sound_order", "checkDb_sound_nodes",
    "checkLedger_sound", "audit_sound", "writer_node_slots_ok",
    # writer of one data block (Model/KvBlk.lean): the slot clause by induction over the operations
    "blkinv_spec", "blkinv_create", "blkinv_sync", "blkinv_addkv", "blkinv_rmkv", "blkinv_updatev", "blkinv_compact",
    "blkinv_history", "blkinv_history_from", "addkv_content", "rmkv_content", "updatev_content", "updatev_failure_keeps_block", "addkv_failure_keeps_block", "updatev_old_loses_record",
    "blkinv_checkSlots", "blkinv_checkSlots_node", "history_checkSlots")]
# C functions this check's models mirror (source-text fingerprints are recorded in the evidence, see translate/funchash.py)
MODELLED_FUNCS = {'src/kv/iwkv.c': ['_sblk_sync_mm', '_sblk_at2', '_kvblk_sync_mm', '_kvblk_at_mm', '_kvblk_addkv', '_kvblk_rmkv', '_kvblk_updatev', '_kvblk_compact_mm', '_sblk_create_v1', '_sblk_create_v2', '_sblk_destroy', '_db_save', '_db_destroy_lw', '_lx_split_addkv', '_lx_del_sblk_lw']}
MANIFEST = dict(
    level="proof",
    text=("An independent reader of the file format written in Lean (allocator header, bitmap, database chain, node records, data blocks) "
          "with an executable well-formedness audit that states the property clause by clause; soundness theorems say what a clean "
          "audit means: links of every level equal the level-0 chain filtered by level and counters equal the node counts "
          "(checkDb_sound_levels), back and tail links (checkDb_sound_links), all keys well-formed and strictly descending along the "
          "chain (checkDb_sound_order), nodes non-empty with the true cached prefix (checkDb_sound_nodes), slots inside the data area, "
          "pairwise disjoint, referenced once (checkSlots_sound), no block owned twice and bitmap = owned set exactly "
          "(checkLedger_sound). The audit is run by the compiled Lean code on real file images taken during and after generated "
          "histories (database destroy/re-create, metadata resizing, growth/shrink, both WAL modes), the parsed contents are compared "
          "with a python reference, and every parsed structure is re-encoded by the Lean writer and compared byte for byte with the file. "
          "Slot clause by induction: a Lean model of the writer of one data block (create / addkv with compaction and power-of-two growth / "
          "rmkv with the shrink rule / updatev in place, into the gap, or remove+add / compact / sync, mirrored branch by branch) with the "
          "invariant BlkInv (32 slots, 0 < len <= off <= 2^szpow - header - index, used slots pairwise disjoint, maxoff, zidx, slot length = "
          "record size) proved for every operation and every history (blkinv_*), the records changing exactly like an association list "
          "(*_content), and BlkInv implying a clean checkSlots (blkinv_checkSlots); the model block is compared with the block in the file "
          "(size power, index size, 32 slot pairs, records, live bytes) after EVERY operation of generated single-node histories"),
    note=("trusted: Lean kernel/compiler, harness, generators, python reference; the invariant is *decided* on explored histories by the "
          "proved-sound Lean audit; an inductive proof over a writer model exists for the slot table of ONE data block only (KvBlk model: "
          "allocator effects abstracted to the new block size; node record, node splits, chains and the ledger are not in that model); "
          "images in WAL mode are taken after close only"),
    technique="Lean 4 executable format reader + audit with soundness theorems, evaluated on real file images; byte-exact re-encoding; differential content check")

IMG = re.compile(r"^image (\S+)")


def gen_history(r, nops, wal):
    ops = ["open %d 1 0" % wal]
    ndb = r.choice([1, 2, 3])
    dbs = {}
    nextid = [1]

    def newdb():
        i = nextid[0]
        nextid[0] += 1
        fl = r.choice(G.FLAG_COMBOS)
        ops.append("db %d %d" % (i, fl))
        dbs[i] = (fl, G.make_pool(r, fl, r.choice([12, 40, 120, 300])))
    for _ in range(ndb):
        newdb()
    metas = {}
    k_img = 0
    for step in range(nops):
        if not dbs:
            newdb()
        i = r.choice(list(dbs))
        fl, pool = dbs[i]
        k, c = r.choice(pool)
        x = r.random()
        if x < 0.55:
            ops.append("put %d %s %d %s 0 %d" % (i, G.H(k), c, G.H(G.gen_value(r, True)), G.gen_level(r)))
        elif x < 0.80:
            ops.append("del %d %s %d" % (i, G.H(k), c))
        elif x < 0.86:
            m = bytes(r.randrange(256) for _ in range(r.choice([1, 100, 128, 129, 600, 3000])))
            metas[i] = len(m)
            ops.append("mset %d %s" % (i, G.H(m)))
        elif x < 0.88 and len(dbs) > 1:
            ops.append("dbdestroy %d" % i)
            del dbs[i]
        elif x < 0.90 and nextid[0] < 40:
            newdb()
        elif x < 0.95 and not wal:
            k_img += 1
            ops.append("image @IMG%d" % k_img)
        else:
            # delete waves: empty whole nodes
            for (kk, cc) in r.sample(pool, min(len(pool), r.choice([5, 30, 200]))):
                ops.append("del %d %s %d" % (i, G.H(kk), cc))
    if not wal:
        ops.append("image @IMGlast")
    ops += ["close", "image @IMGclosed"]
    return ops


def make_case(r, nops, tag, idx):
    wal = r.randrange(2)
    ops = gen_history(r, nops, wal)
    d = os.path.join(C.scratch(), "img")
    os.makedirs(d, exist_ok=True)
    ops = [l.replace("@IMG", os.path.join(d, "%s-%d-" % (tag, idx))) for l in ops]
    return Case("history", ops, None, key=hash(tuple(ops)))


def expected_summaries(ops):
    """reference contents at every image op: {path: [(id, flags, dumpline, meta)]}"""
    ref = G.Ref()
    out = {}
    for l in ops:
        m = IMG.match(l)
        if m:
            out[m.group(1)] = [(i, d.flags, ref.apply("dump %d" % i), d.meta) for i, d in sorted(ref.dbs.items())]
        else:
            ref.apply(l)
    return out


def audit_images(ctx, drv, cases):
    paths, owner = [], {}
    for c in cases:
        if c.impl is None:
            continue
        exp = expected_summaries(c.ops)
        for l, o in zip(c.ops, c.raw):
            m = IMG.match(l)
            if m and o.split()[1] not in ("0", "-1"):
                paths.append(m.group(1))
                owner[m.group(1)] = (c, exp[m.group(1)])
    if not paths:
        return
    rc, out, e = C.run_lines([drv, "fmt"], [l for p in paths for l in ("audit %s 4000" % p, "reenc %s" % p)], timeout=900)
    if rc != 0 or len(out) != 2 * len(paths):
        ctx.corr_broken.append("format reader failed: rc=%s %s" % (rc, e[-300:]))
        return
    for p, line, renc in zip(paths, out[0::2], out[1::2]):
        c, exp = owner[p]
        # byte-exact tie of the Lean encoders (Model/FormatEnc.lean) to the bytes the C writers produced
        if renc.startswith("reenc ok"):
            ctx.hist("reenc:ok")
            for w in renc.split()[2:]:
                k, v = w.split("=")
                ctx.hist("reenc:" + k, int(v))
        elif renc.startswith("reenc BAD"):
            ctx.hist("reenc:BAD")
            ctx.corr_broken.append("Lean encoders differ from the file bytes (%s): %s" % (os.path.basename(p), renc[:300]))
        else:
            ctx.hist("reenc:unreadable")
        ctx.cov["traces_validated_against_impl"] += 1
        ctx.hist("image:" + ("closed" if p.endswith("closed") else "live"))
        ctx.case(("img", p))
        head = line.split(" | ")[0]
        if not head.startswith("audit ok"):
            cls = re.sub(r"\d+", "N", head)[:80]
            ctx.fail(dict(kind="audit", cls=cls), dict(ops=c.ops[:c.ops.index("image " + p) + 1], audit=head), "file image not well-formed: " + head[:300])
            continue
        got = {}
        for part in line.split(" | ")[1:]:
            w = part.split(" ", 4)
            got[int(w[1])] = (int(w[2]), w[3][2:], w[4] if len(w) > 4 else "dump")
        for (i, fl, dump, meta) in exp:
            g = got.get(i)
            want_meta = G.H(meta)
            # (the reader prints at most a prefix of long metadata)
            meta_ok = (not meta) or want_meta == "-" or g is None or g[1].startswith(want_meta) or (len(g[1]) >= 512 and want_meta.startswith(g[1]))
            if g is None or g[0] != fl or g[2].strip() != (dump or "").strip() or not meta_ok:
                ctx.fail(dict(kind="content"), dict(ops=c.ops[:c.ops.index("image " + p) + 1], db=i, file=str(g)[:300], reference=str((fl, dump))[:300]),
                         "file image of db %d differs from the reference contents: file %s / reference %s" % (i, str(g)[:150], str((fl, dump))[:150]))
                break
        if set(got) != {i for i, _, _, _ in exp}:
            ctx.fail(dict(kind="dbset"), dict(ops=c.ops, got=sorted(got), want=[i for i, _, _, _ in exp]), "databases in file %s, reference %s" % (sorted(got), [i for i, _, _, _ in exp]))
        try:
            os.unlink(p)
        except OSError:
            pass


# ---------------------------------------------------------------------------------------------------
# Link stream (explicit-link model, lean/IwModel/Model/KvLinks.lean; theorems linkinv_* of Props/C06.lean)
#
# After every put/delete of a non-WAL history the harness prints the node boundaries (`nodes`) and copies the
# file (`image`).  The level sequence before/after an operation tells which structural step the code took (a node
# of level l created at position p / the node at position p destroyed); `drv links` replays these steps on the
# explicit-link model and compares it with the links it reads from the real file (Lean format reader): per level
# the sequence of positions reached by following n[i] from the head, the levels, the back links, the tail link and
# the per-level counters - exact equality.
THEOREMS += ["IwModel.C06." + t for t in (
    "links_slevels", "linkinv_empty", "find_bounds_chute", "linkinv_insert", "linkinv_remove", "linkinv_history",
    "linkinv_iff_threading", "links_refine_nodes", "linkinv_audit_clean", "history_image_audits_clean")]

MANIFEST["text"] += ("; the link clause is also proved inductively on an explicit-link model of one database (head links, tail link, counters; "
                     "per node lvl, n[0..lvl], p0) that executes _lx_find_bounds and the link surgery of _lx_split_addkv / _lx_del_sblk_lw: "
                     "LinkInv holds for a new database and is kept by every insertion (any position, any level) and every removal, hence by every "
                     "history (linkinv_*), the model agrees with the node model of C01 on the level sequence (links_refine_nodes) and an image with "
                     "its link fields passes levelErrs/linkErrs/tailOk (linkinv_audit_clean); after every put/delete of generated histories the "
                     "model is compared, position by position and level by level, with the links read from the real file")
MANIFEST["note"] += ("; link model: block numbers abstract (comparison by position in the level-0 chain), key comparison is an oracle fixed by the "
                     "position the node model routes to; non-WAL images only")
LINK_LEVELS = [0, 0, 1, 1, 2, 2, 3, 4, 5, 6]

# writer of one node record (Model/KvNode.lean): the node clause ("non-empty, internally sorted, true prefix of its lowest key") by
# induction over the operations of a one-node database
THEOREMS += ["IwModel.C06." + t for t in (
    "nodeinv_spec", "nodeinv_empty", "nodeinv_put", "nodeinv_del", "nodeinv_cursor_set", "nodeinv_cursor_del", "nodeinv_history",
    "node_lookup_agrees", "node_find_pi", "node_find_pi_found_iff", "nodeinv_audit", "history_node_audit")]
MODELLED_FUNCS['src/kv/iwkv.c'] += ['_sblk_find_pi_mm', '_sblk_insert_pi_mm', '_sblk_addkv2', '_sblk_addkv', '_sblk_updatekv', '_sblk_rmkv',
                                   '_lx_sblk_cmp_key', '_lx_addkv', '_lx_del_lw']
MANIFEST["text"] += ("; the node clause is proved inductively on a writer model of ONE node record (IwModel.KvNode: flags/SBLK_FULL_LKEY, lkl, "
                     "pnum, pi[], cached first key lk[], data block = the KvBlk model; _sblk_find_pi_mm binary search, _sblk_insert_pi_mm, "
                     "_sblk_addkv, _sblk_addkv2, _sblk_updatekv, _sblk_rmkv with the cache refresh rules, _lx_sblk_cmp_key, routing of put / del / "
                     "cursor set / cursor del for a database within one node): NodeInv (pi = permutation of the used slots, keys strictly "
                     "descending, pnum = number of records, lkl = min(len,115), cached bytes = prefix, FULL_LKEY iff len <= 115) is kept by every "
                     "operation and history (nodeinv_*), the binary search returns the position / insertion point (node_find_pi), the lookup through "
                     "the cached prefix has the sign of the full comparison (node_lookup_agrees, from the C19 comparator theorems), and a NodeInv "
                     "node passes the node part of the audit (nodeinv_audit, through blkinv_checkSlots for the block); after EVERY operation of "
                     "generated one-node histories (plain and compound byte keys, keys longer than 115 bytes sharing their first 115 bytes) the "
                     "model node is compared with the node record the Lean reader finds in the file: pnum, pi[0..pnum), lkl, cached bytes, "
                     "FULL_LKEY bit, plus the data block")
MANIFEST["note"] += ("; node model: one node only (no split, no second node), byte-string comparator only (integer / real key modes not in the "
                     "node model), node address / level / links / page slot abstract (link model), stale pi[] entries beyond pnum and stale lk[] bytes "
                     "beyond lkl not compared")


# writer of the chain of node records (Model/KvChain.lean): the node clause for ANY number of nodes - `_lx_addkv` routing,
# `_lx_split_addkv` (new node in front / behind, split at the pivot), removal of an emptied node
THEOREMS += ["IwModel.C06." + t for t in (
    "chaininv_empty", "split_keeps_nodeinv", "chaininv_put", "chaininv_del", "chaininv_history",
    "chain_history_nodeinv", "chain_history_order", "chain_history_audit")]
MODELLED_FUNCS['src/kv/iwkv.c'] += ['_lx_roll_forward', '_lx_put_lw']
MANIFEST["text"] += ("; and on a writer model of the whole level-0 CHAIN of node records (IwModel.KvChain: `_lx_addkv` routing - overwrite, add to the "
                     "node found, add to its upper neighbour, new node in front of / behind a full node - and `_lx_split_addkv`: block of the new node "
                     "sized by sz, records pi[17..32) moved with raw keys and no sync in between, their slots reset with zidx = pi[17], new record to "
                     "the upper or lower half, caches of both halves; node removal on the last delete): every node satisfies NodeInv after every "
                     "operation of every history with any number of keys (chain_history_nodeinv, core: split_keeps_nodeinv), the nodes are non-empty, "
                     "hold <= 32 records and are in strictly descending key order across nodes (chain_history_order), every node passes the node "
                     "part of the audit (chain_history_audit); after EVERY operation of generated histories with 40-400+ keys (splits at every "
                     "insert position, repeated splits of one key range, nodes emptied at head / middle / tail, keys longer than 115 bytes sharing "
                     "their prefix across the split point, compound keys) every node of the chain in the file is compared with the model node at "
                     "the same chain position: pnum, pi[0..pnum), lkl, cached bytes, FULL_LKEY bit, data block")
MANIFEST["note"] += ("; chain model: lookup walks level 0 only (levels / links / addresses / page slots: link model), byte-string comparator only; "
                     "refinement of the chain contents to the ordered-map spec (values) is not proved on the byte-level model (C01 proves it on the "
                     "abstract node model; the stream compares contents with the reference map), the audit theorem is per node (cross-node key "
                     "order is proved as chain_history_order, not yet through keyErrs)")


def gen_link_history(r, nbulk, nwaves, cursors=False):
    """one or two plain-key databases; every put/del is followed by `nodes` and `image`.  With `cursors`, some waves
    are a cursor walking back from the end that deletes record after record (`cur 0 del`, whole nodes go through
    `_lx_del_sblk_lw` with the cursor's long-lived lookup context) while puts above the maximum create nodes in front"""
    ops = ["open 0 1 0"]
    ndb = r.choice([1, 1, 2])
    present = {}
    for i in range(1, ndb + 1):
        ops.append("db %d 0" % i)
        present[i] = set()
    k_img = [0]
    key = lambda k: G.H(k.to_bytes(4, "big"))

    def after(i):
        k_img[0] += 1
        ops.append("nodes %d" % i)
        ops.append("image @IMG%d" % k_img[0])

    def put(i, k):
        ops.append("put %d %s 0 %s 0 %d" % (i, key(k), G.H(bytes(r.randrange(256) for _ in range(r.choice([0, 1, 3, 9])))), r.choice(LINK_LEVELS)))
        present[i].add(k)
        after(i)

    def dele(i, k):
        ops.append("del %d %s 0" % (i, key(k)))
        present[i].discard(k)
        after(i)
    univ = list(range(1000, 1000 + 4 * nbulk))
    for i in present:
        ks = r.sample(univ, nbulk // ndb)
        mode = r.choice(["random", "random", "asc", "desc"])
        if mode == "asc":
            ks.sort()
        elif mode == "desc":
            ks.sort(reverse=True)
        for k in ks:
            put(i, k)
    for _ in range(nwaves):
        i = r.choice(list(present))
        s = sorted(present[i])
        kind = r.choice(["top", "bottom", "range", "range", "all", "refill", "refill"])
        if cursors and r.random() < 0.6:
            kind = "cwalk"
        n = r.choice([20, 40, 70])
        if kind == "cwalk":
            ops.append("cur 0 open %d al" % i)
            top = (s[-1] if s else 2000) + 1
            nsteps = r.choice([80, 120, 160])
            for step in range(nsteps):
                if not s:
                    break
                ops.append("cur 0 to prev")
                ops.append("cur 0 del")
                present[i].discard(s.pop(0))
                after(i)
                # meanwhile other calls change the head links: a burst of ascending keys fills the first node and
                # creates a node in front of it
                for _ in range(36 if step == nsteps // 2 else 1 if step % 7 == 0 else 0):
                    put(i, top)
                    top += 1
            ops.append("cur 0 close")
        elif kind == "top":                      # greatest keys first: the first nodes of the chain go
            for k in reversed(s[-n:]):
                dele(i, k)
        elif kind == "bottom":                 # smallest keys: the last nodes go
            for k in s[:n]:
                dele(i, k)
        elif kind == "range" and s:
            a = r.randrange(len(s))
            part = s[a:a + n]
            if r.random() < 0.5:
                r.shuffle(part)
            for k in part:
                dele(i, k)
        elif kind == "all":                    # empty the database (at most 160 keys per wave), then start again
            part = s[:160] if r.random() < 0.5 else s[-160:]
            if r.random() < 0.5:
                r.shuffle(part)
            for k in part:
                dele(i, k)
        else:
            how = r.choice(["random", "above", "below"])
            if how == "above":                 # ascending keys above the maximum: every new node goes in front
                base = (s[-1] if s else 0) + 1
                ks = [base + j for j in range(n)]
            elif how == "below" and s and s[0] > n:   # descending keys below the minimum: new nodes at the end
                ks = [s[0] - 1 - j for j in range(n)]
            else:
                ks = r.sample(univ, n)
            for k in ks:
                put(i, k)
    ops.append("close")
    return ops


def link_step(prev, cur):
    """the structural step between two level sequences: ('ins', pos, lvl) | ('rm', pos) | None (unchanged) | 'bad'"""
    if cur == prev:
        return None
    i = 0
    while i < len(prev) and i < len(cur) and prev[i] == cur[i]:
        i += 1
    if len(cur) == len(prev) + 1 and prev[i:] == cur[i + 1:]:
        return ("ins", i, cur[i])
    if len(cur) + 1 == len(prev) and prev[i + 1:] == cur[i:]:
        return ("rm", i)
    return "bad"


def stale_cursor_dels(ops, raw):
    """indices of `cur c del` ops that remove a node although the same cursor already removed one since it was
    opened or positioned by key (finding C06-CURDBLK: its lookup context still holds the database block it read then)"""
    out, removed, prev = set(), {}, {}
    for j, l in enumerate(ops):
        w = l.split()
        if w[0] == "cur" and w[2] in ("open", "tokey"):
            removed[w[1]] = 0
        elif w[0] == "cur" and w[2] == "del" and j + 1 < len(ops) and ops[j + 1].startswith("nodes "):
            try:
                cur = len(raw[j + 1].split()) - 1
            except AttributeError:
                continue
            i = ops[j + 1].split()[1]
            if i in prev and cur < prev[i]:
                if removed.get(w[1], 0) > 0:
                    out.add(j)
                removed[w[1]] = removed.get(w[1], 0) + 1
        if w[0] == "nodes" and isinstance(raw[j], str):
            prev[w[1]] = len(raw[j].split()) - 1
    return out


def link_stream(ctx, h, drv, n, nbulk, nwaves, label, cursors=False):
    r = C.Rng(ctx.seed, "c06/links/" + label)
    d = os.path.join(C.scratch(), "img")
    os.makedirs(d, exist_ok=True)
    cases = []
    for idx in range(n):
        ops = [l.replace("@IMG", os.path.join(d, "lk%s-%d-" % (label, idx))) for l in gen_link_history(r, nbulk, nwaves, cursors)]
        cases.append(Case("links", ops, None, key=hash(tuple(ops))))
    ctx.sample(dict(kind="links", n_ops=len(cases[0].ops), first_ops=[l[:80] for l in cases[0].ops[:8]]))
    canon = lambda l: "image" if l.startswith("image ") else l
    probs = differential(ctx, [h, C.scratch() + "/kv6-lk%s.db" % label], [drv, "kv"] if drv else None, cases, timeout=900, canon=canon)
    # divergences are held back until the audit has judged the case: what follows a file corruption that an open
    # finding explains (C06-CURDBLK) is not a second, independent correspondence failure
    pending, excused = [], {}

    def flush():
        for c, idx, msg in pending:
            if id(c) in excused and idx >= excused[id(c)]:
                continue
            ctx.corr_broken.append(msg)
        del pending[:]
    for c, p in probs:
        if p[0] == "diverge":
            pending.append((c, p[1] - 1, "links: model/implementation diverge at op %d `%s`: impl `%s` model `%s`" % (p[1], c.ops[p[1]][:100], p[2][:160], p[3][:160])))
        else:
            ctx.fail(dict(c01.signature(c, p), stream="links-cur" if cursors else "links"), dict(ops=c.ops, detail=p[1:]), str(p[1])[:400])
    if not drv:
        flush()
        return
    # replay on the explicit-link model
    lines, owner = [], []          # owner[k] = (case, op index) for the k-th line sent
    pre_suspects = []
    for c in cases:
        if c.impl is None:
            continue
        lines.append("reset")
        owner.append((c, -1))
        levels = {}
        for j, (l, o) in enumerate(zip(c.ops, c.raw)):
            w = l.split()
            if w[0] == "nodes":
                i = int(w[1])
                try:
                    cur = [int(x.split("/")[1]) for x in o.split()[1:]]
                except (IndexError, ValueError):
                    ctx.corr_broken.append("links: unreadable nodes line `%s`" % o[:100])
                    break
                prev = levels.get(i, [])
                st = link_step(prev, cur)
                levels[i] = cur
                if st == "bad":
                    pending.append((c, j - 1, "links: one operation changed the level sequence by more than one node: %s -> %s (op `%s`)" % (prev[:40], cur[:40], c.ops[j - 1][:80])))
                    if j + 1 < len(c.ops) and c.ops[j + 1].startswith("image "):
                        pre_suspects.append((c, j + 1, c.ops[j + 1].split()[1]))     # let the audit judge this image
                    break
                if st and c.ops[j - 1].startswith("cur "):
                    ctx.hist("links:cursor_rm")
                if st and st[0] == "ins":
                    ctx.hist("links:ins_" + ("only" if not prev else "front" if st[1] == 0 else "end" if st[1] == len(prev) else "mid"))
                    if prev and st[2] > max(prev):
                        ctx.hist("links:ins_newtop")
                    lines.append("ins %d %d %d" % (i, st[1], st[2]))
                    owner.append((c, j))
                elif st:
                    ctx.hist("links:rm_" + ("only" if len(prev) == 1 else "first" if st[1] == 0 else "last" if st[1] == len(prev) - 1 else "mid"))
                    if len(prev) > 1 and prev[st[1]] > max(prev[:st[1]] + prev[st[1] + 1:]):
                        ctx.hist("links:rm_top")
                    lines.append("rm %d %d" % (i, st[1]))
                    owner.append((c, j))
            elif w[0] == "image" and o.split()[1] not in ("0", "-1"):
                i = int(c.ops[j - 1].split()[1])
                lines.append("cmp %d %s" % (i, w[1]))
                owner.append((c, j))
    rc, out, e = C.run_lines([drv, "links"], lines, timeout=900)
    if rc != 0 or len(out) != len(lines):
        ctx.corr_broken.append("links: model driver failed: rc=%s got %d of %d lines %s" % (rc, len(out), len(lines), e[-300:]))
        flush()
        return
    bad_cases = set(id(c) for c, _, _ in pre_suspects)
    suspects = list(pre_suspects)
    for l, o, (c, j) in zip(lines, out, owner):
        if not l.startswith("cmp "):
            continue
        p = l.split()[2]
        if o.startswith("cmp ok"):
            ctx.hist("links:cmp_ok")
            ctx.cov["traces_validated_against_impl"] += 1
            ctx.case(("lk", p))
        else:
            ctx.hist("links:cmp_BAD")
            if id(c) not in bad_cases:
                bad_cases.add(id(c))
                pending.append((c, j - 2, "links: file differs from the explicit-link model after op %d `%s`: %s" % (j - 2, c.ops[j - 2][:80], o[:300])))
                suspects.append((c, j, p))
                continue
        try:
            os.unlink(p)
        except OSError:
            pass
    # a divergence means the model is wrong or the file's links are: let the audit decide on the image
    if suspects:
        rc, out, e = C.run_lines([drv, "fmt"], ["audit %s 0" % p for _, _, p in suspects], timeout=300)
        for (c, j, p), line in zip(suspects, out if rc == 0 else []):
            head = line.split(" | ")[0]
            if not head.startswith("audit ok"):
                cls = re.sub(r"\d+", "N", head)[:80]
                trig = "cursor-del-after-cursor-node-del" if (j - 2) in stale_cursor_dels(c.ops, c.raw) else "-"
                if not ctx.fail(dict(kind="audit", cls=cls, stream="links", trigger=trig), dict(ops=c.ops[:j + 1], audit=head),
                                "file image not well-formed (link stream): " + head[:300]):
                    excused[id(c)] = j - 2          # explained by an open finding
            try:
                os.unlink(p)
            except OSError:
                pass
    flush()


def explore(ctx, h, drv, n, nops, label):
    r = C.Rng(ctx.seed, "c06/" + label)
    cases = [make_case(r, nops, label, i) for i in range(n)]
    for c in cases[:2]:
        ctx.sample(dict(kind="history", n_ops=len(c.ops), first_ops=[l[:80] for l in c.ops[:8]]))
    canon = lambda l: "image" if l.startswith("image ") else l
    probs = differential(ctx, [h, C.scratch() + "/kv6-%s.db" % label], [drv, "kv"] if drv else None, cases, timeout=900, canon=canon)
    for c, p in probs:
        if p[0] == "diverge":
            ctx.corr_broken.append("model/implementation diverge at op %d `%s`: impl `%s` model `%s`" % (p[1], c.ops[p[1]][:100], p[2][:160], p[3][:160]))
        else:
            ctx.fail(c01.signature(c, p), dict(ops=c.ops, detail=p[1:]), str(p[1])[:400])
    if drv:
        audit_images(ctx, drv, cases)


# ---------------------------------------------------------------- node pages: sixteen 256-byte nodes share one 4K page
#
# A node page goes back to the free-space map when its last node is destroyed (_sblk_destroy / _sblk_is_only_one_on_page_v2).
# Which slot survives matters, so the histories are built from the placement the implementation reports: a first run fills
# a database and prints page and slot of every node (`nodes2`); the case then repeats the same puts (same seed, same levels:
# same placement) and deletes every record except those of chosen nodes - the only node left on a page sits in slot 16, in
# slot 1, in a random slot, or two nodes stay - with an image (audited by the Lean reader: bitmap == occupied blocks) after
# every batch of deletes, after a refill that reuses the freed pages, and after close.

def gen_page_history(r, h, label, idx):
    n = r.choice([560, 800, 1100])
    keys = r.sample(range(1000, 1000 + 3 * n), n)
    mode = r.choice(["asc", "desc", "random"])
    if mode == "asc":
        keys.sort()
    elif mode == "desc":
        keys.sort(reverse=True)
    key = lambda k: G.H(k.to_bytes(4, "big"))
    fill = ["open 0 1 0", "db 1 0"]
    for k in keys:
        fill.append("put 1 %s 0 %s 0 %d" % (key(k), G.H(bytes(r.randrange(256) for _ in range(r.choice([0, 1, 3, 9])))), r.choice(LINK_LEVELS)))
    rc, out, e = C.run_lines([h, C.scratch() + "/kv6p-%s.db" % label], fill + ["nodes2 1", "close"], timeout=300)
    if rc != 0 or len(out) < len(fill) + 1 or not out[len(fill)].startswith("nodes2 "):
        return None, "placement run failed rc=%s %s" % (rc, e[-200:])
    place = [tuple(int(x) for x in w.split(":")) for w in out[len(fill)].split()[1:]]      # chain order = descending keys
    desc = sorted(keys, reverse=True)
    if sum(p[2] for p in place) != len(desc):
        return None, "placement run: %d records in the nodes, %d put" % (sum(p[2] for p in place), len(desc))
    nodes, at = [], 0
    for (page, slot, pnum) in place:
        nodes.append((page, slot, desc[at:at + pnum]))
        at += pnum
    pages = {}
    for nd in nodes:
        pages.setdefault(nd[0], []).append(nd)
    shape = r.choice(["last", "last", "first", "rand", "two", "lastfirst"])
    keep = set()
    for page, nds in pages.items():
        slots = {nd[1]: nd for nd in nds}
        if shape == "last":
            want = [max(slots)]
        elif shape == "first":
            want = [min(slots)]
        elif shape == "rand":
            want = [r.choice(sorted(slots))]
        elif shape == "two":
            want = r.sample(sorted(slots), min(2, len(slots)))
        else:
            want = [max(slots)] if r.random() < 0.5 else [min(slots)]
        if r.random() < 0.15:
            want = []                                       # the whole page goes
        for sl in want:
            ks = slots[sl][2]
            keep.update(ks if r.random() < 0.3 else r.sample(ks, 1))
    ops = list(fill)
    dels = [k for k in keys if k not in keep]
    how = r.choice(["asc", "desc", "random", "bynode"])
    if how == "asc":
        dels.sort()
    elif how == "desc":
        dels.sort(reverse=True)
    elif how == "random":
        r.shuffle(dels)
    else:                                                   # node after node, nodes in random order
        order = list(range(len(nodes)))
        r.shuffle(order)
        dels = [k for i in order for k in nodes[i][2] if k not in keep]
    k_img = 0
    step = r.choice([40, 120, 400])
    for i, k in enumerate(dels):
        ops.append("del 1 %s 0" % key(k))
        if (i + 1) % step == 0:
            k_img += 1
            ops.append("image @IMG%d" % k_img)
    ops.append("image @IMGdrained")
    # refill: new nodes and data blocks land on what the drain gave back
    top = max(keys) + 1
    for j in range(r.choice([40, 200])):
        ops.append("put 1 %s 0 %s 0 %d" % (key(top + j), G.H(_val(r, r.choice([3, 40, 300]))), r.choice(LINK_LEVELS)))
    ops += ["image @IMGrefilled", "close", "image @IMGclosed"]
    d = os.path.join(C.scratch(), "img")
    os.makedirs(d, exist_ok=True)
    ops = [l.replace("@IMG", os.path.join(d, "%s-%d-" % (label, idx))) for l in ops]
    info = dict(shape=shape, pages=len(pages), full_pages=sum(1 for v in pages.values() if len(v) == 16), nodes=len(nodes), kept=len(keep), order=how)
    return Case("pages", ops, None, key=hash(tuple(ops))), info


def explore_pages(ctx, h, drv, n, label):
    r = C.Rng(ctx.seed, "c06/pages/" + label)
    cases = []
    for i in range(n):
        c, info = gen_page_history(r, h, label, i)
        if c is None:
            ctx.corr_broken.append("node page stream: " + info)
            return
        cases.append(c)
        ctx.hist("pages:shape:" + info["shape"])
        ctx.hist("pages:full_pages", info["full_pages"])
        ctx.hist("pages:nodes", info["nodes"])
        if i < 2:
            ctx.sample(dict(kind="pages", **info))
    canon = lambda l: "image" if l.startswith("image ") else l
    probs = differential(ctx, [h, C.scratch() + "/kv6p-%s.db" % label], [drv, "kv"] if drv else None, cases, timeout=900, canon=canon)
    for c, p in probs:
        if p[0] == "diverge":
            ctx.corr_broken.append("model/implementation diverge at op %d `%s`: impl `%s` model `%s`" % (p[1], c.ops[p[1]][:100], p[2][:160], p[3][:160]))
        else:
            ctx.fail(c01.signature(c, p), dict(ops=c.ops, detail=p[1:]), str(p[1])[:400])
    if drv:
        audit_images(ctx, drv, cases)


# ---------------------------------------------------------------- single data block: writer model `IwModel.KvBlk`

VSIZES = [0, 0, 1, 2, 3, 5, 8, 12, 20, 40, 60, 90, 110, 120, 124, 125, 126, 127, 128, 129, 130, 200, 300, 500, 900, 1500, 3000]


def _val(r, n):
    seed = r.randrange(256)
    return bytes((seed + i * 13) & 0xFF for i in range(n))


def gen_block_history(r, nops, profile):
    """one database, at most 32 distinct keys (=> one node, one data block), an image after EVERY op"""
    nk = r.choice([3, 8, 16, 24, 32, 32])
    keys = set()
    klen = r.choice([1, 4, 12, 40, 125])
    while len(keys) < nk:
        L = max(1, klen + r.choice([-1, 0, 0, 1, 2, 3]))
        if r.random() < 0.05:
            L = r.choice([127, 128, 200])              # key length needing a 2-byte vnum
        keys.add(bytes(r.randrange(256) for _ in range(L)))
    keys = sorted(keys)
    live = {}
    ops = ["open 0 1 0", "db 1 0"]
    nimg = [0]

    def img():
        nimg[0] += 1
        ops.append("image @IMG%d" % nimg[0])

    def put(k, n):
        ops.append("put 1 %s 0 %s 0 0" % (G.H(k), G.H(_val(r, n))))
        live[k] = n
        img()

    def cset(k, n):
        ops.append("cur 0 open 1 eq %s 0" % G.H(k))
        ops.append("cur 0 set %s 0" % G.H(_val(r, n)))
        ops.append("cur 0 close")
        if k in live:
            live[k] = n
        img()

    def dele(k):
        ops.append("del 1 %s 0" % G.H(k))
        live.pop(k, None)
        img()

    def size():
        x = r.random()
        if profile == "small" or x < 0.6:
            return r.choice(VSIZES[:14]) if profile == "small" else r.choice(VSIZES)
        if x < 0.9:
            return r.randrange(0, 400)
        if x < 0.97:
            return r.randrange(400, 6000)
        return r.choice([16200, 16383, 16384, 20000])

    if profile == "sweep":
        # shrink rule at its boundary: A and B fill a block that grew to 2^10 / 2^11; A is deleted; B is sized so that the compacted
        # size `dsz` sweeps over 2^9 +-3 (`nlen >= 2 * dsz`, `(1 << (npow - 1)) >= dsz`)
        ka, kb = keys[0], keys[1]
        for na in (100, 1300):
            for dv in range(-3, 4):
                put(ka, na)
                put(kb, max(0, 512 - 69 - (1 if len(kb) < 128 else 2) - len(kb) + dv))
                dele(ka)
                dele(kb)
    while nimg[0] < nops:
        x = r.random()
        k = r.choice(keys)
        if profile == "compact" and x < 0.12:
            # forced compaction: many small records, delete most of them, then one large put
            for kk in keys:
                if kk not in live and nimg[0] < nops + 40:
                    put(kk, r.choice([0, 1, 3, 10, 30]))
            victims = r.sample(sorted(live), max(1, (len(live) * r.choice([1, 2, 3])) // 4))
            for kk in victims:
                dele(kk)
            put(r.choice(keys), r.choice([150, 250, 300, 380, 440, 900]))
        elif profile == "updates" and x < 0.10 and len(live) + 2 <= len(keys):
            # exact gap: A and B placed one after the other, A deleted, B grown by A's record size -1/0/+1
            ka, kb = r.sample([kk for kk in keys if kk not in live], 2)
            na, nb = r.choice([0, 5, 30, 100, 126]), r.choice([0, 7, 60, 120])
            put(ka, na)
            put(kb, nb)
            dele(ka)
            reca = (1 if len(ka) < 128 else 2) + len(ka) + na
            (cset if r.random() < 0.5 else put)(kb, max(0, nb + reca + r.choice([-1, 0, 0, 1])))
        elif profile == "updates" and x < 0.5 and live:
            k = r.choice(sorted(live))
            n = live[k]
            d = r.choice([-40, -3, -1, 0, 1, 2, 5, 17, 60, 128, 400])
            (cset if r.random() < 0.4 else put)(k, max(0, n + d))
        elif x < 0.50:
            put(k, size())
        elif x < 0.62 and live:
            cset(r.choice(sorted(live)), size())
        elif x < 0.64:
            cset(k, size())
        elif x < 0.90:
            dele(r.choice(sorted(live)) if live and r.random() < 0.8 else k)
        else:
            for kk in r.sample(sorted(live), len(live) // r.choice([1, 2, 3])) if live else []:
                dele(kk)
    ops += ["dump 1", "close", "image @IMGclosed"]
    return ops


def gen_exactfit_history(r, h, label):
    """a data block driven to 0-3 free bytes (the filler's length is found by asking the implementation for the block geometry
    after the same prefix: `blk`), then values grown in place across the 127/128 boundary of the record-length varint: the
    index grows by a byte exactly when there is no room for it"""
    nk = r.choice([4, 6, 9])
    klen = r.choice([2, 4, 12])
    keys = set()
    while len(keys) < nk + 1:
        keys.add(bytes(r.randrange(1, 256) for _ in range(klen)))
    keys = sorted(keys)
    kf = keys.pop(r.randrange(len(keys)))
    sizes = {k: r.choice([100, 120, 124, 125, 126, 127, 127, 130, 200]) - 1 - klen for k in keys}
    boundary = r.random() < 0.6
    if boundary:      # record length 128..130: two-byte length varint; shrunk below 128 and grown back, the index entry grows by a byte
        sizes = {k: 128 - 1 - klen + r.choice([0, 0, 1, 2]) for k in keys}
    ops = ["open 0 1 0", "db 1 0"]
    nimg = [0]

    def put(k, n, via=None):
        if via == "cset":
            ops.extend(["cur 0 open 1 eq %s 0" % G.H(k), "cur 0 set %s 0" % G.H(_val(r, n)), "cur 0 close"])
        else:
            ops.append("put 1 %s 0 %s 0 0" % (G.H(k), G.H(_val(r, n))))
        nimg[0] += 1
        ops.append("image @IMG%d" % nimg[0])
    for k in keys:
        put(k, sizes[k])
    shrunk = r.sample(keys, min(len(keys) - 1, r.choice([1, 2, 3]) if not boundary else r.choice([3, 4, 5])))
    for k in shrunk:
        put(k, max(0, sizes[k] - r.choice([1, 20, 27, 30])) if not boundary else 127 - 1 - klen - r.choice([0, 0, 1, 20]))

    def probe(extra):
        lines = [l for l in ops if not l.startswith("image ")] + extra + ["blk 1", "close"]
        rc, out, e = C.run_lines([h, C.scratch() + "/kv6x-%s.db" % label], lines, timeout=60)
        w = out[-2].split() if len(out) >= 2 else []
        return [int(x) for x in w[1:]] if len(w) == 6 and w[0] == "blk" else None
    st0 = probe([])
    if st0 is None:
        return None
    target = r.choice([0, 0, 1, 2, 3])
    guess = st0[3] - (1 + klen) - 2 - target
    best = None
    for _ in range(8):
        if guess < 0:
            break
        st = probe(["put 1 %s 0 %s 0 0" % (G.H(kf), G.H(_val(r, guess)))])
        if st is None:
            return None
        if st[0] != st0[0]:
            guess -= max(1, (1 << st0[0]) // 64)       # the block grew: the filler was too long
            continue
        if best is None or abs(st[3] - target) < abs(best[1] - target):
            best = (guess, st[3])
        if st[3] == target:
            break
        guess += st[3] - target
    if best is None:
        return None
    if best[1] != target:                          # fine scan around the best guess
        for gq in range(max(0, best[0] - 10), best[0] + 11):
            st = probe(["put 1 %s 0 %s 0 0" % (G.H(kf), G.H(_val(r, gq)))])
            if st is not None and st[0] == st0[0] and abs(st[3] - target) < abs(best[1] - target):
                best = (gq, st[3])
                if st[3] == target:
                    break
    put(kf, best[0])
    order = list(shrunk)
    r.shuffle(order)
    for k in order:
        put(k, sizes[k] + (r.choice([0, 0, 1]) if not boundary else 0), via=r.choice([None, "cset"]))
    for k in r.sample(keys, min(len(keys), 3)):
        put(k, sizes[k] + r.choice([1, 2, 3]), via=r.choice([None, "cset"]))
    ops += ["dump 1", "close", "image @IMGclosed"]
    return ops, dict(target=target, free=best[1], szpow=st0[0])


def block_oracle(ops):
    """API-level oracle of the block stream: every answer and the final dump equal the python reference map"""
    ref = G.Ref()
    want = [ref.apply(l) for l in ops]

    def oracle(lines):
        for i, (w, g) in enumerate(zip(want, lines)):
            if w is not None and w != g:
                return "op %d `%s`: implementation `%s`, reference `%s`" % (i, ops[i][:60], g[:120], w[:120])
        return None
    return oracle


BLK_STEP = re.compile(r"^(put|del|cur \d+ set) ")


def explore_block(ctx, h, drv, n, nops, label):
    r = C.Rng(ctx.seed, "c06blk/" + label)
    d = os.path.join(C.scratch(), "imgb")
    os.makedirs(d, exist_ok=True)
    cases = []
    for i in range(n):
        prof = ["mixed", "small", "compact", "updates", "mixed", "small", "compact", "updates", "sweep"][i % 9]
        ops = [l.replace("@IMG", os.path.join(d, "%s-%d-" % (label, i))) for l in gen_block_history(r, nops, prof)]
        cases.append(Case("block-" + prof, ops, block_oracle(ops), key=hash(tuple(ops))))
    for i in range(max(4, n // 4)):              # exact-fit blocks (placement found by asking the implementation)
        g = gen_exactfit_history(r, h, label)
        if g is None:
            ctx.hist("block:exactfit-unreached")
            continue
        ops = [l.replace("@IMG", os.path.join(d, "%s-x%d-" % (label, i))) for l in g[0]]
        ctx.hist("block:exactfit-free-%d" % g[1]["free"])
        cases.append(Case("block-exactfit", ops, block_oracle(ops), key=hash(tuple(ops))))
    ctx.sample(dict(kind="block-history", n_ops=len(cases[0].ops), first_ops=[l[:80] for l in cases[0].ops[:6]]))
    canon = lambda l: "image" if l.startswith("image ") and not l.startswith("image 0") and not l.startswith("image -1") else ("dump" if l.startswith("dump ") else l)
    # in chunks: the images of a chunk are removed before the next one is produced
    crashed = False
    for a in range(0, len(cases), 8):
        if crashed:          # the implementation crashes or hangs on these histories: reported with a replay, do not burn the budget
            break
        chunk = cases[a:a + 8]
        probs = differential(ctx, [h, C.scratch() + "/kv6b-%s.db" % label], [drv, "kvblk"], chunk, timeout=60, canon=canon)
        crashed = crashed or any(p[0] == "crash" for _, p in probs)
        for c, p in probs:
            if p[0] == "diverge" and (p[3].startswith("image BAD") or p[3].startswith("image UNREADABLE")):
                # the independent Lean reader / audit rejects the file: the property itself fails on this history
                ctx.hist("block:audit-bad")
                cls = re.sub(r"\d+", "N", p[3])[:70]
                ctx.fail(dict(kind="audit", cls=cls), dict(ops=[l for l in c.ops[:p[1]] if not l.startswith("image ")] + [c.ops[p[1]]], audit=p[3][:300]),
                         "file image not well-formed after op %d: %s" % (p[1], p[3][:300]))
            elif p[0] == "diverge":
                ctx.hist("block:diverge")
                ctx.corr_broken.append("data-block writer model / implementation diverge at op %d `%s`: impl `%s` model `%s` (history prefix: %s)" % (
                    p[1], c.ops[p[1]][:80], p[2][:100], p[3][:300], [l[:60] for l in c.ops[max(0, p[1] - 4):p[1]]]))
            else:
                ctx.fail(c01.signature(c, p), dict(ops=c.ops, detail=p[1:]), str(p[1])[:400])
        rc, tr, _ = C.run_lines([drv, "kvblk-trace"], [l for c in chunk for l in c.ops], timeout=300)
        for l in tr:
            for w in l.split()[2:]:
                if ":" in w:
                    ctx.hist("block:" + w)
        for c in chunk:
            if c.model is not None:
                ctx.hist("block:images", sum(1 for l in c.model if l == "image"))
                ctx.hist("block:steps", sum(1 for l in c.ops if BLK_STEP.match(l)))
            for l in c.ops:
                if l.startswith("image "):
                    try:
                        os.unlink(l.split()[1])
                    except OSError:
                        pass


# ---------------------------------------------------------------- single node record: writer model `IwModel.KvNode`
#
# One database, at most 32 distinct keys (one node, never a split), an image after EVERY operation.  `drv kvnode` replays the ops
# on the node writer model and compares, at every image, the node record the Lean format reader finds in the file with the model:
# pnum, pi[0..pnum), lkl, the lkl cached key bytes, the SBLK_FULL_LKEY bit - and the data block like the block stream.
# Key families aim at the cached first key (115 bytes): short keys, keys of 113..118 bytes, keys longer than 115 bytes that share
# their first 115 bytes, prefixes of one long string, compound keys whose vnum prefix eats into the cache.  Every history starts
# with directed steps: delete the first key when the next one is longer / shorter than the cache / shares the cached bytes,
# overwrite the first key with a value that makes the record move, insert in front of the first key.

NODE_PROFILES = ["short", "edge", "longshared", "prefixes", "mixed", "compound", "longshared", "mixed", "compound-long"]
NODE_STEP = re.compile(r"^(put|del|cur \d+ set|cur \d+ del) ")


def node_universe(r, profile):
    """at most 32 keys (body, compound part)"""
    base = bytes(r.randrange(1, 255) for _ in range(220))
    nk = r.choice([5, 9, 16, 24, 32, 32])
    keys = set()
    comp = profile.startswith("compound")

    def rnd(n):
        return bytes(r.randrange(256) for _ in range(n))
    fam = profile
    guard = 0
    while len(keys) < nk and guard < 4000:
        guard += 1
        f = fam if fam not in ("mixed", "compound", "compound-long") else r.choice(["short", "edge", "longshared", "prefixes"] if fam != "compound-long" else ["edge", "longshared", "prefixes"])
        if f == "short":
            k = rnd(r.choice([1, 2, 3, 8, 20, 40]))
        elif f == "edge":                       # around the cache size, common start, differences near the end
            L = r.choice([110, 113, 114, 115, 115, 116, 117, 118, 127, 128])
            k = bytearray(base[:L])
            for _ in range(r.choice([0, 1, 1, 2])):
                k[r.choice([L - 1, L - 1, max(0, L - 2), min(L - 1, 114), min(L - 1, 113), r.randrange(L)])] = r.randrange(256)
            k = bytes(k)
        elif f == "longshared":                 # longer than the cache, the first 115 bytes are the same
            k = base[:115] + rnd(r.choice([1, 1, 2, 5, 30, 80]))
        else:                                   # prefixes of one string: the shorter key is a prefix of the longer one
            k = base[:r.choice([1, 2, 50, 100, 112, 113, 114, 115, 116, 117, 118, 119, 130, 200])]
        c = 0
        if comp:
            c = r.choice([0, 1, 127, 128, 300, 16383, 16384, 20000, 1 << 21, 1 << 35, (1 << 62) + 5])
        keys.add((k, c))
    keys = sorted(keys)
    if comp and len(keys) < 32:
        # same body, different compound parts: ties on the body are broken by the compound part
        for (k, c) in list(keys)[:4]:
            if len(keys) < 32:
                keys.append((k, c + 1))
        keys = sorted(set(keys))
    return keys[:32]


def gen_node_history(r, nops, profile):
    comp = profile.startswith("compound")
    keys = node_universe(r, profile)
    order = lambda e: (e[0], e[1]) if comp else (e[0],)
    if not comp:
        keys = [(k, 0) for k in sorted(set(k for k, _ in keys))]
    live = {}
    ops = ["open 0 1 0", "db 1 %d" % (G.COMPOUND if comp else 0)]
    nimg = [0]

    def img():
        nimg[0] += 1
        ops.append("image @IMG%d" % nimg[0])

    def vsize():
        x = r.random()
        return r.choice([0, 1, 2, 5, 9]) if x < 0.6 else r.choice([20, 40, 90, 130, 300]) if x < 0.95 else r.choice([600, 1500])

    def put(e, n=None):
        n = vsize() if n is None else n
        ops.append("put 1 %s %d %s 0 0" % (G.H(e[0]), e[1], G.H(_val(r, n))))
        live[e] = n
        img()

    def cset(e, n=None):
        n = vsize() if n is None else n
        ops.append("cur 0 open 1 eq %s %d" % (G.H(e[0]), e[1]))
        ops.append("cur 0 set %s 0" % G.H(_val(r, n)))
        ops.append("cur 0 close")
        if e in live:
            live[e] = n
        img()

    def dele(e):
        ops.append("del 1 %s %d" % (G.H(e[0]), e[1]))
        live.pop(e, None)
        img()

    def cdel(e):
        ops.append("cur 0 open 1 eq %s %d" % (G.H(e[0]), e[1]))
        ops.append("cur 0 del")
        ops.append("cur 0 close")
        live.pop(e, None)
        img()

    def first():
        return max(live, key=order) if live else None

    def stored_len(e):
        return len(e[0]) + (len(_vnum(e[1])) if comp else 0)

    # directed: the first key goes, the next one is long / short / shares the cached bytes
    longs = [e for e in keys if stored_len(e) > 115]
    shorts = [e for e in keys if stored_len(e) <= 115]
    for _ in range(3):
        pair = None
        kind = r.choice(["short>long", "long>short", "long>long", "any"])
        if kind == "short>long" and longs and shorts:
            pair = (r.choice(shorts), r.choice(longs))
        elif kind == "long>short" and longs and shorts:
            pair = (r.choice(longs), r.choice(shorts))
        elif kind == "long>long" and len(longs) > 1:
            pair = tuple(r.sample(longs, 2))
        elif len(keys) > 1:
            pair = tuple(r.sample(keys, 2))
        if not pair:
            continue
        a, b = sorted(pair, key=order)
        for e in sorted(live, key=order):
            if order(e) >= order(a):
                dele(e)                                           # nothing above the pair
        put(a)                                                    # (the smaller one first ...
        put(b)                                                    #  ... so that the greater one is inserted in front of the first key)
        (cset if r.random() < 0.5 else put)(b, r.choice([300, 700]))      # overwrite of the first key, the record moves
        (cdel if r.random() < 0.4 else dele)(b)                   # the first key goes, `a` becomes the first key
        put(b, 3)
        dele(a)                                                   # a delete behind the first key leaves the cache alone
    while nimg[0] < nops:
        x = r.random()
        e = r.choice(keys)
        f = first()
        if x < 0.36:
            put(e)
        elif x < 0.44 and f is not None:                          # insert in front of the first key
            above = [k for k in keys if order(k) > order(f)]
            put(r.choice(above) if above else e)
        elif x < 0.52 and f is not None:                          # overwrite of the first key
            (cset if r.random() < 0.5 else put)(f)
        elif x < 0.58 and live:
            cset(r.choice(sorted(live)))
        elif x < 0.60:
            cset(e)
        elif x < 0.72 and f is not None:                          # the first key goes
            (cdel if r.random() < 0.4 else dele)(f)
        elif x < 0.90:
            (cdel if r.random() < 0.3 else dele)(r.choice(sorted(live)) if live and r.random() < 0.85 else e)
        elif x < 0.95 and live:
            for kk in sorted(live, key=order, reverse=True)[:r.choice([2, 5, 40])]:      # drain from the front
                dele(kk)
        else:
            for kk in [k for k in keys if k not in live]:          # fill up to the whole universe (32 keys: a full node)
                put(kk)
    ops += ["dump 1", "close", "image @IMGclosed"]
    return ops


def _vnum(n):
    out = bytearray()
    while True:
        if n < 128:
            out.append(n)
            return bytes(out)
        out.append(~(n & 0x7f) & 0xff)          # only the length matters here
        n >>= 7


def explore_node(ctx, h, drv, n, nops, label):
    r = C.Rng(ctx.seed, "c06node/" + label)
    d = os.path.join(C.scratch(), "imgn")
    os.makedirs(d, exist_ok=True)
    cases = []
    for i in range(n):
        prof = NODE_PROFILES[i % len(NODE_PROFILES)]
        ops = [l.replace("@IMG", os.path.join(d, "%s-%d-" % (label, i))) for l in gen_node_history(r, nops, prof)]
        cases.append(Case("node-" + prof, ops, block_oracle(ops), key=hash(tuple(ops))))
    ctx.sample(dict(kind="node-history", n_ops=len(cases[0].ops), first_ops=[l[:80] for l in cases[0].ops[:6]]))
    canon = lambda l: "image" if l.startswith("image ") and not l.startswith("image 0") and not l.startswith("image -1") else ("dump" if l.startswith("dump ") else l)
    crashed = False
    for a in range(0, len(cases), 8):
        if crashed:
            break
        chunk = cases[a:a + 8]
        probs = differential(ctx, [h, C.scratch() + "/kv6n-%s.db" % label], [drv, "kvnode"], chunk, timeout=60, canon=canon)
        crashed = crashed or any(p[0] == "crash" for _, p in probs)
        for c, p in probs:
            if p[0] == "diverge" and (p[3].startswith("image BAD") or p[3].startswith("image UNREADABLE")):
                ctx.hist("node:audit-bad")
                cls = re.sub(r"\d+", "N", p[3])[:70]
                ctx.fail(dict(kind="audit", cls=cls, stream="node"), dict(ops=[l for l in c.ops[:p[1]] if not l.startswith("image ")] + [c.ops[p[1]]], audit=p[3][:300]),
                         "file image not well-formed after op %d: %s" % (p[1], p[3][:300]))
            elif p[0] == "diverge":
                ctx.hist("node:diverge")
                ctx.corr_broken.append("node writer model / implementation diverge at op %d `%s`: impl `%s` model `%s` (history prefix: %s)" % (
                    p[1], c.ops[p[1]][:80], p[2][:100], p[3][:300], [l[:60] for l in c.ops[max(0, p[1] - 4):p[1]]]))
            else:
                ctx.fail(c01.signature(c, p), dict(ops=c.ops, detail=p[1:]), str(p[1])[:400])
        rc, tr, _ = C.run_lines([drv, "kvnode-trace"], [l for c in chunk for l in c.ops], timeout=300)
        for l in tr:
            for w in l.split()[2:]:
                if ":" in w:
                    ctx.hist("node:" + w)
        for c in chunk:
            if c.model is not None:
                ctx.hist("node:images", sum(1 for l in c.model if l == "image"))
                ctx.hist("node:steps", sum(1 for l in c.ops if NODE_STEP.match(l)))
            for l in c.ops:
                if l.startswith("image "):
                    try:
                        os.unlink(l.split()[1])
                    except OSError:
                        pass


# ---------------------------------------------------------------- chain of node records: writer model `IwModel.KvChain`
#
# One database with 40..400+ keys (several nodes), an image after EVERY operation.  `drv kvchain` replays the ops on the chain writer
# model (`_lx_addkv` routing, `_lx_split_addkv`, node removal on the last delete) and compares, at every image, EVERY node record of the
# level-0 chain the Lean format reader finds with the model node at the same chain position: pnum, pi[0..pnum), lkl, cached bytes,
# FULL_LKEY bit, and its data block (szpow, idxsz, 32 slot pairs, records, live bytes).  Keys are `prefix ++ 3-byte number ++ tail`:
# base keys (multiples of 16) are loaded in monotone order, which yields full nodes of 32 records at known chain positions; directed
# inserts of gap keys then hit a chosen full node at a chosen position (1..16, 17 = pivot, 18..31: middle split; 32 / 0: a new node
# behind / in front, or the neighbour with room), runs of gap keys split the same key range again and again, range deletes empty nodes
# at the head, in the middle and at the tail of the chain.

CHAIN_PROFILES = ["short", "long", "edge", "mixedlen", "compound", "short", "long", "mixedlen"]
CHAIN_STEP = re.compile(r"^(put|putbig|del|cur \d+ set|cur \d+ del) ")
CHAIN_POS = [1, 2, 8, 16, 17, 17, 17, 18, 19, 25, 31, 32, 0]


def gen_chain_history(r, nbase, nrandom, profile, big=True, order=None):
    comp = profile == "compound"
    base = bytes(r.randrange(1, 255) for _ in range(160))
    bodies = sorted(set(bytes(r.randrange(256) for _ in range(r.choice([1, 3, 20, 120]))) for _ in range(3)))
    plen = dict(short=r.choice([0, 2]), long=r.choice([115, 118, 130]), edge=r.choice([112, 113, 114]), mixedlen=r.choice([1, 60]), compound=0)[profile]
    tails = {}

    def key(n):
        """universe element number n -> (body, compound part); the order of the elements is the order of the numbers"""
        if comp:
            b = bodies[n * len(bodies) // (16 * nbase + 16)]
            return (b, n * r_scale)
        if n not in tails:
            tails[n] = bytes(r.randrange(256) for _ in range(r.choice([0, 0, 1, 5, 60, 120]))) if profile == "mixedlen" else b""
        return (base[:plen] + n.to_bytes(3, "big") + tails[n], 0)
    r_scale = r.choice([1, 1000, 1 << 40])
    live = {}
    ops = ["open 0 1 0", "db 1 %d" % (G.COMPOUND if comp else 0)]
    nimg = [0]
    checks = []                       # (index of op line, expected answer) for lines the reference map does not predict

    def img():
        nimg[0] += 1
        ops.append("image @IMG%d" % nimg[0])

    def vsize():
        x = r.random()
        return r.choice([0, 1, 2, 5, 9]) if x < 0.7 else r.choice([20, 40, 90, 130, 300]) if x < 0.97 else r.choice([600, 1500])

    def put(n, sz=None):
        e = key(n)
        sz = vsize() if sz is None else sz
        ops.append("put 1 %s %d %s 0 %d" % (G.H(e[0]), e[1], G.H(_val(r, sz)), r.choice(LINK_LEVELS)))
        live[n] = sz
        img()

    def putbig(n):
        e = key(n)
        checks.append((len(ops), "put maxkvsz"))
        ops.append("putbig 1 %s %d %d" % (G.H(e[0]), e[1], MAXKVSZ + 1))
        img()

    def cset(n):
        e = key(n)
        sz = vsize()
        ops.append("cur 0 open 1 eq %s %d" % (G.H(e[0]), e[1]))
        ops.append("cur 0 set %s 0" % G.H(_val(r, sz)))
        ops.append("cur 0 close")
        if n in live:
            live[n] = sz
        img()

    def dele(n):
        e = key(n)
        ops.append("del 1 %s %d" % (G.H(e[0]), e[1]))
        live.pop(n, None)
        img()

    def cdel(n):
        e = key(n)
        ops.append("cur 0 open 1 eq %s %d" % (G.H(e[0]), e[1]))
        ops.append("cur 0 del")
        ops.append("cur 0 close")
        live.pop(n, None)
        img()

    # phase A: base keys in monotone order -> full nodes of 32 at known positions (chain order = descending keys)
    nums = [16 * (i + 1) for i in range(nbase)]
    order = order or r.choice(["asc", "desc", "desc", "random"])
    if order == "random":
        load = nums[:]
        r.shuffle(load)
    else:
        load = nums if order == "asc" else nums[::-1]
    for n in load:
        put(n, r.choice([0, 1, 2, 5, 9, 9, 20, 130]) if profile != "long" else r.choice([0, 1, 3]))
    desc = nums[::-1]
    if order == "desc":
        nodes = [desc[a:a + 32] for a in range(0, nbase, 32)]
    elif order == "asc":
        rem = nbase % 32
        nodes = ([desc[:rem]] if rem else []) + [desc[a:a + 32] for a in range(rem, nbase, 32)]
    else:
        nodes = []
    # phase B: directed inserts into full nodes
    full = [i for i, nd in enumerate(nodes) if len(nd) == 32]
    r.shuffle(full)
    poss = CHAIN_POS[:]
    r.shuffle(poss)
    bigdone = not big
    for t, j in enumerate(full[:10]):
        p = poss[t % len(poss)]
        nd = nodes[j]
        if p == 0:
            g = nd[0] + r.randrange(1, 16)                   # in front of the first key of node j
        elif p == 32:
            g = nd[31] - r.randrange(1, 16)                  # behind its last key
        else:
            g = nd[p] + r.randrange(1, 16)                   # between position p-1 and p
        if not bigdone and 1 <= p <= 31:
            putbig(g)                                        # refused by size: must leave the full node as it is
            bigdone = True
        put(g, r.choice([None, None, 300, 700]))
        if 1 <= p <= 31 and j > 0 and len(nodes[j - 1]) == 32 and (j - 1) not in full[:t] and r.random() < 0.7:
            put(nodes[j - 1][31] - r.randrange(1, 16))        # behind the last key of the full node in front: its upper neighbour (the lower half) has room now
        if r.random() < 0.5:                                  # and again into the same key range: the halves fill up and split again
            lo = nd[min(31, p + 2)] if p < 30 else nd[31] - 15
            hi = nd[max(0, p - 3)]
            cand = [x for x in range(lo, hi) if x % 16 and x not in live]
            r.shuffle(cand)
            for x in cand[:r.choice([5, 20, 40])]:
                put(x)
    # phase C/D: random operations, runs of gap keys, range deletes that empty nodes
    top = 16 * nbase + 16
    while nimg[0] < nbase + nrandom + 40:
        x = r.random()
        n = r.randrange(1, top)
        lv = sorted(live)
        if x < 0.30:
            put(n)
        elif x < 0.40 and lv:
            put(r.choice(lv))                                 # overwrite
        elif x < 0.47 and lv:
            cset(r.choice(lv))
        elif x < 0.50:
            cset(n)
        elif x < 0.62 and lv:
            (cdel if r.random() < 0.3 else dele)(r.choice(lv))
        elif x < 0.65:
            dele(n)
        elif x < 0.75:                                        # a run of neighbouring keys
            a = r.randrange(1, top)
            for y in range(a, min(top, a + r.choice([8, 20, 45]))):
                if y not in live:
                    put(y, r.choice([0, 1, 2]))
        elif x < 0.90 and lv:                                  # range delete: head (largest keys), middle, tail of the chain
            where = r.choice(["head", "middle", "tail"])
            cnt = r.choice([20, 40, 70])
            if where == "head":
                vict = lv[::-1][:cnt]
            elif where == "tail":
                vict = lv[:cnt]
            else:
                a = r.randrange(len(lv))
                vict = lv[a:a + cnt]
            if r.random() < 0.3:
                r.shuffle(vict)
            elif r.random() < 0.5:
                vict = vict[::-1]
            for y in vict:
                (cdel if r.random() < 0.15 else dele)(y)
        elif lv:
            put(r.choice(lv), r.choice([300, 700, 1500]))      # growing record: block compaction / growth inside a node of the chain
    ops += ["dump 1", "close", "image @IMGclosed"]
    return ops, checks


def chain_oracle(ops, checks):
    base = block_oracle(ops)

    def oracle(lines):
        for i, want in checks:
            if i < len(lines) and lines[i] != want:
                return "op %d `%s`: implementation `%s`, expected `%s`" % (i, ops[i][:60], lines[i][:120], want)
        return base(lines)
    return oracle


def explore_chain(ctx, h, drv, sizes, nrandom, label):
    r = C.Rng(ctx.seed, "c06chain/" + label)
    d = os.path.join(C.scratch(), "imgc")
    os.makedirs(d, exist_ok=True)
    cases = []
    for i, nbase in enumerate(sizes):
        prof = CHAIN_PROFILES[(i + ctx.seed) % len(CHAIN_PROFILES)]
        g, checks = gen_chain_history(r, nbase, nrandom, prof, order=["desc", "asc", "desc", "random", "asc"][i % 5])
        ops = [l.replace("@IMG", os.path.join(d, "%s-%d-" % (label, i))) for l in g]
        cases.append(Case("chain-" + prof, ops, chain_oracle(ops, checks), key=hash(tuple(ops))))
    ctx.sample(dict(kind="chain-history", n_ops=len(cases[0].ops), first_ops=[l[:80] for l in cases[0].ops[:6]]))
    canon = lambda l: "image" if l.startswith("image ") and not l.startswith("image 0") and not l.startswith("image -1") else ("dump" if l.startswith("dump ") else l)
    crashed = False
    for a in range(0, len(cases), 2):
        if crashed:
            break
        chunk = cases[a:a + 2]
        probs = differential(ctx, [h, C.scratch() + "/kv6c-%s.db" % label], [drv, "kvchain"], chunk, timeout=300, canon=canon)
        crashed = crashed or any(p[0] == "crash" for _, p in probs)
        for c, p in probs:
            if p[0] == "diverge" and (p[3].startswith("image BAD") or p[3].startswith("image UNREADABLE")):
                ctx.hist("chain:audit-bad")
                cls = re.sub(r"\d+", "N", p[3])[:70]
                ctx.fail(dict(kind="audit", cls=cls, stream="chain"), dict(ops=[l for l in c.ops[:p[1]] if not l.startswith("image ")] + [c.ops[p[1]]], audit=p[3][:300]),
                         "file image not well-formed after op %d: %s" % (p[1], p[3][:300]))
            elif p[0] == "diverge":
                ctx.hist("chain:diverge")
                ctx.corr_broken.append("chain writer model / implementation diverge at op %d `%s`: impl `%s` model `%s` (history prefix: %s)" % (
                    p[1], c.ops[p[1]][:80], p[2][:100], p[3][:300], [l[:60] for l in c.ops[max(0, p[1] - 4):p[1]]]))
            else:
                ctx.fail(c01.signature(c, p), dict(ops=c.ops, detail=p[1:]), str(p[1])[:400])
        rc, tr, _ = C.run_lines([drv, "kvchain-trace"], [l for c in chunk for l in c.ops], timeout=300)
        for l in tr:
            for w in l.split()[2:]:
                if ":" in w:
                    ctx.hist("chain:" + w)
        for c in chunk:
            if c.model is not None:
                ctx.hist("chain:images", sum(1 for l in c.model if l == "image"))
                ctx.hist("chain:steps", sum(1 for l in c.ops if CHAIN_STEP.match(l)))
            for l in c.ops:
                if l.startswith("image "):
                    try:
                        os.unlink(l.split()[1])
                    except OSError:
                        pass


# ---------------------------------------------------------------- oversize records: a refused put must leave the block as it was

MAXKVSZ = 0xfffffff


def explore_oversize(ctx, h, drv, n, label):
    """`iwkv_put` of a record larger than IWKV_MAX_KVSZ is refused (IWKV_ERROR_MAXKVSZ); oracle: the store and the file are as before
    (old value still readable, image audits clean with the reference contents). Oracle only: the Lean block model is not run on
    256 MB values (see design notes: the model states the behaviour as theorem `updatev_failure_keeps_block`)."""
    r = C.Rng(ctx.seed, "c06big/" + label)
    d = os.path.join(C.scratch(), "imgo")
    os.makedirs(d, exist_ok=True)
    cases, imgs = [], {}
    for i in range(n):
        keys = set()
        while len(keys) < r.choice([2, 4, 12]):
            keys.add(bytes(r.randrange(256) for _ in range(r.randrange(1, 30))))
        keys = sorted(keys)
        newk, keys = keys[0], keys[1:]
        vals = {k: _val(r, r.choice([0, 3, 50, 400])) for k in keys}
        victim = r.choice(keys)
        ops = ["open 0 1 0", "db 1 0"] + ["put 1 %s 0 %s 0 0" % (G.H(k), G.H(vals[k])) for k in keys]
        size = MAXKVSZ + 1 - (1 + len(victim)) + r.choice([0, 1, 1000])          # record size = MAXKVSZ + 1 (+ ...)
        i_upd = len(ops)
        ops += ["putbig 1 %s 0 %d" % (G.H(victim), size), "get 1 %s 0" % G.H(victim)]
        i_new = len(ops)
        ops += ["putbig 1 %s 0 %d" % (G.H(newk), MAXKVSZ + 1 - (1 + len(newk))), "get 1 %s 0" % G.H(newk)]
        img = os.path.join(d, "%s-%d" % (label, i))
        ops += ["image " + img, "close"]

        def oracle(lines, i_upd=i_upd, i_new=i_new, victim=victim, vals=vals):
            if lines[i_upd] != "put maxkvsz":
                return "refused:oversize update answered `%s`" % lines[i_upd]
            if lines[i_upd + 1] != "get ok " + G.pval(vals[victim]):
                return "update-lost:a put refused with IWKV_ERROR_MAXKVSZ changed the store: get of the old record answers `%s`" % lines[i_upd + 1]
            if lines[i_new] != "put maxkvsz" or lines[i_new + 1] != "get notfound -":
                return "newkey:oversize put of a new key: `%s` / `%s`" % (lines[i_new], lines[i_new + 1])
            return None
        c = Case("oversize", ops, oracle, key=hash(tuple(ops)))
        imgs[id(c)] = img
        cases.append(c)
    probs = differential(ctx, [h, C.scratch() + "/kv6o-%s.db" % label], None, cases, timeout=300)
    bad = set()
    for c, p in probs:
        bad.add(id(c))
        if p[0] == "oracle":
            cls, _, msg = p[1].partition(":")
            ctx.fail(dict(kind="oversize", cls=cls), dict(ops=c.ops, detail=msg), msg[:300])
        else:
            ctx.fail(c01.signature(c, p), dict(ops=c.ops, detail=p[1:]), str(p[1])[:400])
    todo = [c for c in cases if c.impl is not None and os.path.exists(imgs[id(c)])]
    if drv and todo:
        rc, out, e = C.run_lines([drv, "fmt"], ["audit %s" % imgs[id(c)] for c in todo], timeout=300)
        for c, line in zip(todo, out):
            ctx.hist("oversize:" + " ".join(line.split()[:2]))
            if not line.startswith("audit ok"):
                ctx.fail(dict(kind="oversize", cls="image-bad"), dict(ops=c.ops, audit=line[:300]),
                         "file image after a refused oversize put is not well-formed: " + line[:200])
    for c in cases:
        try:
            os.unlink(imgs[id(c)])
        except OSError:
            pass


def run(ctx):
    ctx.cov["rule"] = ("a case is a history (1-3 databases of any key mode, puts with values up to 70 KB, deletes, delete waves emptying nodes, metadata of 1-3000 bytes, "
                       "database destroy / create) with file images taken every ~20 ops (non-WAL) and after close (both modes); every image is parsed and audited "
                       "by the Lean format reader and its contents compared with the reference map; distinct = distinct image")
    ctx.translate()
    ok, drv_ok = ctx.prove(MODULE, THEOREMS)
    impl = C.build_impl("asan")
    h = C.build_harness(impl, *c01.HARNESS[:2], exclude=c01.HARNESS[2])
    drv = C.drv_path() if drv_ok else None
    if ctx.tier == "quick":
        explore(ctx, h, drv, 40, 250, "q")
        link_stream(ctx, h, drv, 12, 150, 8, "q")           # link stream (explicit-link model)
        link_stream(ctx, h, drv, 4, 150, 8, "qc", cursors=True)
        explore_pages(ctx, h, drv, 6, "pq")
    else:
        explore(ctx, h, drv, 500, 300, "t")
        explore(ctx, h, drv, 10, 6000, "tl")
        link_stream(ctx, h, drv, 60, 300, 12, "t")          # link stream (explicit-link model)
        link_stream(ctx, h, drv, 30, 300, 12, "tc", cursors=True)
        explore_pages(ctx, h, drv, 60, "pt")
    if drv:
        ctx.cov["rule"] += ("; block stream: one database with <= 32 keys (one node, one data block), puts / cursor sets with growing and shrinking values, "
                            "deletes, forced compaction, an image after EVERY op: the Lean writer model of one data block (IwModel.KvBlk) replays the ops and "
                            "must equal the block in the file (szpow, index size, 32 slot pairs, records, live bytes)")
        explore_oversize(ctx, h, drv, 2 if ctx.tier == "quick" else 8, "o")
        if ctx.tier == "quick":
            explore_block(ctx, h, drv, 40, 150, "bq")
            explore_node(ctx, h, drv, 27, 100, "nq")
            explore_chain(ctx, h, drv, [40, 70, 130, 400], 120, "cq")
        else:
            explore_chain(ctx, h, drv, [40, 45, 64, 70, 100, 130, 200, 300, 400, 400, 500, 96, 160, 33, 250, 350], 300, "ct")
            explore_node(ctx, h, drv, 270, 150, "nt")
            explore_node(ctx, h, drv, 18, 1200, "ntl")
            explore_block(ctx, h, drv, 400, 200, "bt")
            explore_block(ctx, h, drv, 20, 1500, "btl")
    if drv:
        ctx.cov["rule"] += ("; node stream: the same shape of history with key families aimed at the cached first key (short keys, 113..118 bytes, keys "
                            "longer than 115 bytes with a common 115-byte start, prefixes of one string, compound keys), directed steps (the first key goes "
                            "and the next one is long / short / shares the cached bytes, overwrite of the first key with a moving record, insert in front of "
                            "the first key), puts, deletes, cursor sets and cursor deletes: the Lean node writer model (IwModel.KvNode) must equal the node "
                            "record in the file (pnum, pi, lkl, cached bytes, FULL_LKEY bit) and its data block after EVERY op")
    if drv:
        ctx.cov["rule"] += ("; chain stream: one database with 40-400+ keys `prefix ++ 3-byte number ++ tail` (short, > 115 bytes with a common "
                            "115-byte start, number straddling byte 115, mixed lengths, compound), base keys loaded in monotone order (full nodes of 32 "
                            "at known chain positions), directed inserts of gap keys at position 0 / 1..16 / 17 / 18..31 / 32 of a chosen full node, an "
                            "oversize put into a full node, runs of gap keys splitting one key range repeatedly, range deletes emptying nodes at head / "
                            "middle / tail, overwrites with growing values, cursor sets / deletes: the Lean chain writer model (IwModel.KvChain) must equal "
                            "EVERY node record of the level-0 chain in the file and its data block, by chain position, after EVERY op")
    if (ctx.proof_broken or ctx.corr_broken) and not ctx.violations:
        explore(ctx, h, drv, 80, 250, "search")


replay = c01.replay
