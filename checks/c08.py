"""C08: an online backup taken under load is a consistent snapshot."""
import time, hashlib, re
from vlib import common as C
from checks import _conc as K

LEVEL = "proof"
# C functions this check's models mirror (source-text fingerprints are recorded in the evidence, see translate/funchash.py)
MODELLED_FUNCS = {'src/kv/iwal.c': ['iwal_online_backup', '_checkpoint_exl', '_rollforward_exl', '_onresize']}
MANIFEST = dict(
    level="proof",
    text=("Lean 4 theorems about an executable model of iwal_online_backup's five stages over an abstract write-ahead log (checkpoint with "
          "early return in MAIN_COPY, roll-forward that truncates or appends a reset mark depending on the stage, final savepoint under the "
          "exclusive lock, image recovery up to the last savepoint): the main file is stable during the main copy, the opened image equals "
          "the store at the instant of the final savepoint, that state is the result of a prefix of the completed operations, the live "
          "store is unaffected. Tied to the code by (a) deterministic schedules in which writers, checkpoints, savepoints and a gated "
          "backup are stepped through the real code and the compiled model side by side (log-file skeleton, stage, roll-forward offset, "
          "image and live contents compared) and (b) free-running writers + backup whose image must be a consistent cut of the per-thread "
          "operation logs taken between call and return. PARTIAL: file growth during the main copy is excluded by hypothesis (F25, open)"),
    note=("trusted: Lean kernel, harness (stage gates through wrapped iwp_pread/open, lock-free snapshot inside stage 5), python cut oracle, "
          "gcc ASan/UBSan/TSan; modelled not verified: the C control flow of iwal.c; byte-level log format belongs to C05; runtime gap: "
          "real scheduling of the five stages against writers (sampled), the OS page cache"),
    technique="Lean 4 proof over a backup stage-machine model + scheduled differential runs + consistent-cut oracle on concurrent runs")
MODULE = "IwModel.Props.C08"
THEOREMS = ["IwModel.C08.main_stable", "IwModel.C08.live_unaffected", "IwModel.C08.mem_is_writes",
            "IwModel.C08.image_recovers_to_final_savepoint_partial", "IwModel.C08.image_is_prefix_of_history_partial",
            "IwModel.C08.growth_in_main_copy_crashes", "IwModel.C08.second_backup_refused",
            "IwModel.C08.stage5_only_finish", "IwModel.C08.stage5_run_frozen", "IwModel.C08.crashed_step_frozen",
            "IwModel.C08.crashed_run_frozen", "IwModel.C08.finish_returns_to_idle", "IwModel.C08.image_instant_partial",
            "IwModel.C08.writesDone_append", "IwModel.C08.image_writes_prefix_of_final",
            "IwModel.C08.stage3_step_stage", "IwModel.C08.stage3_run_main_stable"]


# ------------------------------------------------------------------ (a) scheduled runs: implementation vs model

def gen_schedule(r, name, tier):
    """lines for the harness in sched mode; thread 0,1 write, thread 2 runs the backup"""
    lines = ["case %s mode=sched wal=1 nth=3 yield=0 dbs=2 timeout=20" % name]
    n = r.choice([6, 12, 25, 40]) if tier == "quick" else r.choice([10, 30, 80, 150])
    keys = ["k%02d" % i for i in range(r.choice([2, 5, 12]))]
    stage = 0            # what the schedule believes the backup stage is (0 = none, else last gate reached)
    nb = 0
    grow_bias = r.choice([0, 0, 0.03, 0.15])
    pre = r.choice([0, 0, 10, 60])
    lines.append("obs")
    for i in range(pre):
        lines.append("8 put %d %s %d 0" % (r.choice([1, 2]), r.choice(keys + ["a%03d" % r.randrange(100)]), r.randrange(5, 400)))
        lines.append("obs")
    for i in range(n):
        x = r.random()
        if stage == 5:
            # exclusive section of the backup: nothing else can run
            lines.append("gate 2")
            stage = 0
            nb += 1
        elif x < 0.12 and stage == 0 and nb < 3:
            lines.append("2 bkp %d" % nb)
            stage = 1
        elif x < 0.30 and stage in (1, 3, 4):
            lines.append("gate 2")
            stage = {1: 3, 3: 4, 4: 5}[stage]
        elif x < 0.40:
            lines.append("%d sync" % r.randrange(2))
        elif x < 0.50:
            lines.append("%d cp" % r.randrange(2))
        elif x < 0.62:
            lines.append("%d del %d %s" % (r.randrange(2), r.choice([1, 2]), r.choice(keys)))
        elif x < 0.66:
            lines.append("%d get %d %s" % (r.randrange(2), r.choice([1, 2]), r.choice(keys)))
        else:
            big = r.random() < grow_bias
            ln = r.choice([20000, 60000, 150000]) if big else r.choice([10, 100, 700, 3000])
            lines.append("%d put %d %s %d %d" % (r.randrange(2), r.choice([1, 2]), r.choice(keys), ln, r.choice([0, 0, 0, 1])))
        lines.append("obs")
    while stage != 0:
        lines.append("gate 2")
        lines.append("obs")
        if stage == 5:
            nb += 1
        stage = {1: 3, 3: 4, 4: 5, 5: 0}[stage]
    for i in range(nb):
        lines.append("openimg %d" % i)
    lines.append("dump")
    lines.append("end")
    return name, lines, dict(nb=nb)


def flat(dump):
    """{db:{k:v}} -> sorted 'db:k=v' list"""
    d = K.parse_dump(dump)
    return sorted("%d:%s=%s" % (db, k, v) for db, m in d.items() for k, v in m.items())


def flat_model(s):
    return sorted(x for x in s.split(";") if x and x != "-")


MARK = re.compile(r"d")


def norm_obs(s):
    """comparable part of an `obs` line: stage, rfo, buffered flag (unless unknown), marker skeleton without data runs"""
    m = dict(p.split("=", 1) for p in s.split() if "=" in p)
    return (m.get("stage"), m.get("rfo"), m.get("buf"), MARK.sub("", m.get("wal", "")).replace("-", ""))


def run_schedule(ctx, h, drv, name, lines):
    """runs one schedule on the implementation, derives the model's input from what happened, runs the model,
    compares. Returns list of problems [(kind, text)]."""
    res = K.run_cases(h, [(name, lines)], variant="asan", timeout=120)
    r = res.get(name)
    probs = []
    if r is None:
        return [("corr", "no output")], None
    out = [l for l in r.lines if not l.startswith(("ev ", "bg ", "30 Sep", "WARN"))]
    # walk schedule lines and output lines together
    mlines, expect = ["mkdb", "mkdb"], [("ok", "mkdb"), ("ok", "mkdb")]      # model input, what the implementation showed for it
    oi = 0
    fsize = None
    sched = [l for l in lines[1:] if l != "end"]

    def nxt():
        nonlocal oi
        while oi < len(out) and out[oi].startswith(("snap ", "close ", "mainwrite ")):
            oi += 1
        if oi < len(out):
            oi += 1
            return out[oi - 1]
        return None
    pending_grow_at = None
    for sl in sched:
        o = nxt()
        if o is None:
            break
        if o.startswith("f25 "):
            mlines.append("grow")
            expect.append(("crash", o))
            break
        w = sl.split()
        if sl == "obs":
            m = dict(p.split("=", 1) for p in o.split() if "=" in p)
            fs = int(m.get("nres", 0))
            if fsize is not None and fs > fsize and pending_grow_at is not None:
                for _ in range(fs - fsize):      # one forced checkpoint per growth step inside the operation
                    mlines.insert(pending_grow_at, "grow")
                    expect.insert(pending_grow_at, ("ok", "grow"))
            fsize = fs
            pending_grow_at = None
            mlines.append("obs")
            expect.append(("obs", o[4:]))
            continue
        if w[0] == "gate":
            mlines.append("gate")
            expect.append(("gate", o))
            continue
        if w[0] == "openimg":
            mlines.append("openimg %s" % w[1])
            expect.append(("img", o))
            continue
        if sl == "dump":
            mlines.append("dump")
            expect.append(("dump", o))
            continue
        tid, op = int(w[0]), w[1]
        body = o.split(" | ")[0].split(" ", 5)
        outp = body[5] if len(body) > 5 else ""
        idx = int(body[2]) if len(body) > 2 and body[2].isdigit() else -1
        if op == "put":
            key = "%s:%s" % (w[2], w[3])
            tag = "t%d_%d" % (tid, idx)
            val = "%s/%d" % (tag, max(int(w[4]), len(tag)))
            pending_grow_at = len(mlines)
            mlines.append("%s %s %s" % ("putnx" if int(w[5]) & 1 else "put", key, val))
            expect.append(("rc", outp))
        elif op == "del":
            pending_grow_at = len(mlines)
            mlines.append("del %s:%s" % (w[2], w[3]))
            expect.append(("rc", outp))
        elif op == "get":
            mlines.append("get %s:%s" % (w[2], w[3]))
            expect.append(("rc", outp))
        elif op in ("sync", "cp"):
            pending_grow_at = len(mlines)
            mlines.append(op)
            expect.append(("rc", outp))
        elif op == "bkp":
            mlines.append("bkp")
            expect.append(("bkp", o))
        else:
            mlines.append("bad")
            expect.append(("rc", outp))
    if r.hang:
        return [("hang", r.hang)], r
    if not r.complete and not r.f25:
        return [("crash", r.stderr[-2500:])], r
    if r.mainwrites:
        probs.append(("mainwrite", "main file written during MAIN_COPY: %s" % r.mainwrites[:3]))
    if not drv:
        return probs, r
    snaps = [r.snaps[k] for k in sorted(r.snaps)]

    def first_mismatch(mlines, expect):
        rc, mo, me = C.run_lines([drv, "c08"], mlines, timeout=60)
        if len(mo) != len(mlines):
            return mo, (-1, "model answered %d of %d lines %s" % (len(mo), len(mlines), me[-200:]))
        for i, (ml, (kind, imp), mod) in enumerate(zip(mlines, expect, mo)):
            ok = True
            if kind == "rc":
                ok = imp.split()[:2] == mod.split()[:2]
            elif kind == "ok":
                ok = mod == "ok"
            elif kind == "crash":
                ok = mod == "crash"
            elif kind == "obs":
                a, b = norm_obs(imp), norm_obs(mod)
                if a[2] == "?":
                    a, b = a[:2] + a[3:], b[:2] + b[3:]
                ok = a == b
            elif kind == "bkp":
                ok = (imp.startswith("gate") and mod == "gate 1" and imp.endswith("at=1")) or ("busy" in imp and mod == "busy")
            elif kind == "gate":
                if imp.startswith("gate") and "at=" in imp:
                    ok = mod.split(" snap=")[0] == "gate " + imp.split("at=")[1]
                elif imp.startswith("o "):
                    ok = mod == "done" and " ok |" in imp + " |"
                else:
                    ok = mod == "gate none" and "none" in imp
            elif kind == "img":
                mm = re.match(r"img \d+ (\S+) close=(\d+)", imp)
                ok = bool(mm) and mod.startswith("img ") and flat(mm.group(1)) == flat_model(mod[4:]) and mm.group(2) == "0"
            elif kind == "dump":
                ok = flat(imp[5:]) == flat_model(mod[5:])
            if not ok:
                return mo, (i, "step %d `%s`: implementation `%s` model `%s`" % (i, ml, imp[:200], mod[:200]))
        return mo, None

    mo, bad = first_mismatch(mlines, expect)
    # The checkpoint thread is asynchronous: it may run a checkpoint of its own between two scheduled steps (seen
    # when its one-second tick coincides with a forced checkpoint: `tick_ts - checkpoint_ts` underflows in
    # _cpt_worker_fn). Such an event is an input of the model like growth: if one extra checkpoint just before the
    # observation that disagrees explains it, it is inserted and the comparison goes on.
    spont = 0
    while bad and bad[0] >= 0 and expect[bad[0]][0] == "obs" and spont < 3:
        i = bad[0]
        m2 = mlines[:i] + ["cp"] + mlines[i:]
        e2 = expect[:i] + [("ok", "checkpoint thread")] + expect[i:]
        mo2, bad2 = first_mismatch(m2, e2)
        if bad2 is None or bad2[0] > i + 1:
            mlines, expect, mo, bad = m2, e2, mo2, bad2
            spont += 1
            if ctx is not None:
                ctx.hist("spontaneous-checkpoint")
        else:
            break
    if bad:
        probs.append(("corr" if bad[0] < 0 else "diverge", bad[1]))
    # stage-5 snapshots against the model's `gate 5 snap=`
    msnaps = [m.split("snap=")[1] for m in mo if m.startswith("gate 5 snap=")]
    for a, b in zip(snaps, msnaps):
        if flat(a) != flat_model(b):
            probs.append(("diverge", "contents at the final savepoint: implementation %s model %s" % (a[:200], b[:200])))
    return probs, r


# ------------------------------------------------------------------ (b) free-running writers + backup: consistent-cut oracle

def gen_load(r, name, tier):
    nw = r.choice([1, 2, 3, 4, 5])
    L = r.choice([20, 60, 120]) if tier == "quick" else r.choice([40, 150, 400])
    cpbuf = r.choice([0, 1048576])
    grow = r.choice([0, 0, 0.02, 0.1])
    helper = r.random() < 0.5
    nth = nw + 1 + (1 if helper else 0)
    lines = ["case %s mode=free wal=1 nth=%d yield=%d dbs=2 cpbuf=%d bkpdelay=%d timeout=40" % (
        name, nth, r.choice([0, 50, 300]), cpbuf, r.choice([0, 500, 3000, 10000]))]
    if r.random() < 0.7:
        lines.append("8 put 1 zzz %d 0" % r.choice([100000, 400000]))     # room, so that most runs do not grow during the copy
        lines.append("8 del 1 zzz")
    for i in range(r.choice([0, 20, 80])):
        lines.append("8 put %d a%03d %d 0" % (r.choice([1, 2]), r.randrange(150), r.randrange(5, 600)))
    for t in range(nw):
        nk = r.choice([1, 3, 10])
        for i in range(L):
            x = r.random()
            d = r.choice([1, 2])
            k = "w%d_%02d" % (t, r.randrange(nk))
            if x < 0.75:
                big = r.random() < grow
                ln = r.choice([20000, 70000]) if big else r.choice([8, 60, 300, 1500, 5000])
                lines.append("%d put %d %s %d 0" % (t, d, k, ln))
            elif x < 0.95:
                lines.append("%d del %d %s" % (t, d, k))
            else:
                lines.append("%d get %d %s" % (t, d, k))
    bt = nw
    lines.append("%d sleep %d" % (bt, r.choice([0, 200, 2000, 8000])))
    nb = r.choice([1, 1, 2])
    for i in range(nb):
        lines.append("%d bkp %d" % (bt, i))
        if i + 1 < nb:
            lines.append("%d sleep %d" % (bt, r.choice([0, 500, 3000])))
    if helper:
        ht = nw + 1
        second = r.random() < 0.3        # a second backup started from another thread: refused while the first runs
        for i in range(r.choice([3, 10, 25])):
            lines.append("%d %s" % (ht, r.choice(["sync", "cp", "state", "sleep 300", "sync", "cp"])))
            if second and i == 1:
                lines.append("%d bkp %d" % (ht, nb))
        if second:
            nb += 1
    lines.append("run")
    lines.append("end")
    return name, lines, dict(nw=nw, nb=nb, helper=helper)


NEG, POS = -1, 10 ** 15


def cut_check(r, meta):
    """image of every successful backup must be the state at one instant inside the call"""
    probs = []
    nw = meta["nw"]
    # mutating ops per writer, in program order
    wops = {t: [] for t in range(nw)}
    for (tid, idx) in sorted(r.ops):
        if tid >= nw:
            continue
        o = r.ops[(tid, idx)]
        w = o["text"].split()
        rc = o["out"].split()[0] if o["out"] else "?"
        if w[0] == "put":
            if rc != "ok":
                probs.append(("error-rc", "T%d `%s` returned %s" % (tid, o["text"], o["out"])))
                continue
            tag = "t%d_%d" % (tid, idx)
            wops[tid].append((o["inv"], o["res"], "put", "%s:%s" % (w[1], w[2]), "%s/%d" % (tag, max(int(w[3]), len(tag)))))
        elif w[0] == "del":
            if rc not in ("ok", "nf"):
                probs.append(("error-rc", "T%d `%s` returned %s" % (tid, o["text"], o["out"])))
                continue
            wops[tid].append((o["inv"], o["res"], "del", "%s:%s" % (w[1], w[2]), None))
    # states after every prefix
    states = {}
    for t, ops in wops.items():
        st, lst = {}, [dict()]
        for (_, _, k, key, val) in ops:
            if k == "put":
                st[key] = val
            else:
                st.pop(key, None)
            lst.append(dict(st))
        states[t] = lst
    setup = {}
    for (tid, idx) in sorted(r.ops):
        if tid == 8:
            w = r.ops[(tid, idx)]["text"].split()
            if w[0] == "put":
                tag = "t8_%d" % idx
                setup["%s:%s" % (w[1], w[2])] = "%s/%d" % (tag, max(int(w[3]), len(tag)))
            elif w[0] == "del":
                setup.pop("%s:%s" % (w[1], w[2]), None)
    bk = [(k, r.ops[k]) for k in sorted(r.ops) if r.ops[k]["text"].startswith("bkp")]
    for (key, o) in bk:
        n = int(o["text"].split()[1])
        rc = o["out"].split()[0]
        if rc == "busy":
            if not any(k2 != key and o2["inv"] < o["res"] and o["inv"] < o2["res"] for (k2, o2) in bk):
                probs.append(("bkp-rc", "iwkv_online_backup returned BACKUP_IN_PROGRESS although no other backup call overlaps it"))
            continue
        if rc != "ok":
            probs.append(("bkp-rc", "iwkv_online_backup returned %s" % o["out"]))
            continue
        for (k2, o2) in bk:
            if k2 != key and o2["out"].split()[0] == "ok" and o2["inv"] < o["inv"] and o["res"] < o2["res"]:
                probs.append(("bkp-rc", "a backup ran to completion entirely inside another backup call (second backup not refused)"))
        img = r.imgs.get(n)
        mm = re.match(r"(\S+) close=(\d+)", img or "")
        if not mm:
            probs.append(("image-open", "image %d does not open as a store: %s" % (n, img)))
            continue
        got = {}
        for x in flat(mm.group(1)):
            k, v = x.split("=", 1)
            got[k] = v
        start, end = o["inv"], o["res"]
        # setup keys and other threads' keys
        for k, v in setup.items():
            if got.get(k) != v:
                probs.append(("cut", "image %d: key %s written before the threads started is %s, expected %s" % (n, k, got.get(k), v)))
        cands = {}
        for t in range(nw):
            mine = {k: v for k, v in got.items() if k.split(":")[1].startswith("w%d_" % t)}
            ops = wops[t]
            c = []
            for i, st in enumerate(states[t]):
                if st == mine:
                    a = ops[i - 1][0] if i > 0 else NEG            # last included op was invoked at a
                    b = ops[i][1] if i < len(ops) else POS          # first excluded op returned at b
                    c.append((i, a, b))
            if not c:
                probs.append(("cut", "image %d: keys of writer %d (%s) equal no prefix of its %d operations" % (n, t, sorted(mine.items())[:6], len(ops))))
            cands[t] = c
        if any(not c for c in cands.values()):
            continue
        # single instant tau in [start, end] with a <= tau <= b for some candidate of every writer
        points = sorted(set([start, end] + [x for c in cands.values() for (_, a, b) in c for x in (a, b) if start <= x <= end]))
        okp = [tau for tau in points if all(any(a <= tau <= b for (_, a, b) in c) for c in cands.values())]
        if not okp:
            probs.append(("cut", "image %d: per-writer prefixes %s exist but no single instant inside the call [%d,%d] yields all of them" % (
                n, {t: [(i, a, b) for (i, a, b) in c][:4] for t, c in cands.items()}, start, end)))
        if n in r.snaps and flat(r.snaps[n]) != flat(mm.group(1)):
            probs.append(("snapshot", "image %d differs from the store contents at the final savepoint: image %s snapshot %s" % (n, mm.group(1)[:150], r.snaps[n][:150])))
        if mm.group(2) != "0":
            probs.append(("image-open", "closing the opened image returned %s" % mm.group(2)))
    # live store unaffected: final dump = every writer's whole program
    if r.dump is not None:
        exp = dict(setup)
        for t in range(nw):
            exp.update(states[t][-1])
            for (_, _, k, key, val) in wops[t]:
                if key not in states[t][-1]:
                    exp.pop(key, None)
        got = {}
        for x in flat(r.dump):
            k, v = x.split("=", 1)
            got[k] = v
        if got != exp:
            diff = [(k, got.get(k), exp.get(k)) for k in sorted(set(got) | set(exp)) if got.get(k) != exp.get(k)][:6]
            probs.append(("live", "live store after the run differs from the writers' programs: (key, got, expected) %s" % diff))
    return probs


def sig_of(kind, text=""):
    return dict(kind=kind)


def explore(ctx, hs, drv, n_sched, n_load, n_tsan, label):
    r = C.Rng(ctx.seed, "c08/" + label)
    for i in range(n_sched):
        name, lines, meta = gen_schedule(r, "%s-s%d" % (label, i), ctx.tier)
        ctx.case(hashlib.sha256("\n".join(lines[1:]).encode()).hexdigest()[:16])
        ctx.hist("sched")
        if i < 2:
            ctx.sample(dict(case=name, lines=lines[:24]))
        probs, res = run_schedule(ctx, hs["asan"], drv, name, lines)
        if res is not None:
            for l in lines:
                w = l.split()
                if len(w) > 1 and w[0].isdigit():
                    ctx.hist("sched-op:" + w[1])
            for ob in res.obs:
                m = dict(p.split("=", 1) for p in ob.split() if "=" in p)
                ctx.hist("obs-stage:" + m.get("stage", "?"))
                if "R" in m.get("wal", ""):
                    ctx.hist("obs-reset-mark")
            if res.complete:
                ctx.cov["traces_validated_against_impl"] += 1
        replay = dict(case=name, mode="sched", lines=lines, out=(res.lines[:300] if res else []))
        if res is not None and res.f25:
            ctx.fail(dict(kind="resize-not-performed", stage=(re.findall(r"stage-now=(\d+)", res.f25) or ["?"])[0]), dict(replay, marker=res.f25),
                     "file growth acknowledged by the log listener during the main copy but never performed (%s)" % res.f25)
        for kind, text in probs:
            if kind == "diverge" or kind == "corr":
                ctx.corr_broken.append("scheduled run %s: %s" % (name, text[:400]))
                if len(ctx.corr_broken) <= 5:
                    ctx.log("DIVERGE", name, text[:400])
            elif kind == "crash":
                from vlib.diff import san_site
                k2, fn = san_site(text)
                ctx.fail(dict(kind="crash", site=fn, what=k2), dict(replay, stderr=text), "harness died: %s in %s" % (k2, fn))
            else:
                ctx.fail(dict(kind=kind), dict(replay, problem=text), text[:400])
    # free-running load
    for variant, n in (("asan", n_load), ("tsan", n_tsan)):
        cases = [gen_load(r, "%s-%s-l%d" % (label, variant, i), ctx.tier) for i in range(n)]
        for c in cases[:1]:
            ctx.sample(dict(case=c[0], meta=c[2], lines=c[1][:6] + c[1][-8:]))
        for i in range(0, len(cases), 10):
            if len(ctx.violations) >= 3 and time.time() - ctx.t0 > 300:
                ctx.notes.append("exploration cut short after %d of %d cases: violations already reported and 5 minutes used" % (i, len(cases)))
                break
            part = cases[i:i + 10]
            res = K.run_cases(hs[variant], [(n_, ls) for n_, ls, m in part], variant=variant, timeout=900)
            for n_, ls, m in part:
                ctx.case(hashlib.sha256("\n".join(ls[1:]).encode()).hexdigest()[:16])
                ctx.hist("load:" + variant)
                ctx.hist("writers:%d" % m["nw"])
                rr = res.get(n_)
                replay = dict(case=n_, mode="free", variant=variant, lines=ls, out=(rr.lines[-60:] if rr else []))
                if rr is None:
                    ctx.corr_broken.append("no output for %s" % n_)
                    continue
                if rr.f25:
                    ctx.hist("f25-hit")
                    ctx.fail(dict(kind="resize-not-performed", stage=(re.findall(r"stage-now=(\d+)", rr.f25) or ["?"])[0]), dict(replay, marker=rr.f25),
                             "file growth acknowledged by the log listener during the main copy but never performed (%s)" % rr.f25)
                    continue
                if rr.hang:
                    ctx.fail(dict(kind="hang"), dict(replay, hang=rr.hang), "a call never returned: " + rr.hang[:300])
                    continue
                if not rr.complete:
                    from vlib.diff import san_site
                    k2, fn = san_site(rr.stderr)
                    ctx.fail(dict(kind="crash", site=fn, what=k2), dict(replay, stderr=rr.stderr[-3000:]), "harness died: %s in %s" % (k2, fn))
                    continue
                if rr.mainwrites:
                    ctx.fail(dict(kind="mainwrite"), dict(replay, marks=rr.mainwrites), "main file written during MAIN_COPY: %s" % rr.mainwrites[:3])
                if variant == "tsan":
                    for rep in K.tsan_reports(rr.stderr):
                        kind, a, b, txt = rep
                        ctx.fail(dict(kind="race" if "data race" in kind else kind.replace(" ", "-"), site=min(a, b), other=max(a, b)),
                                 dict(replay, report=txt), "ThreadSanitizer: %s between %s and %s" % (kind, a, b))
                for kind, text in cut_check(rr, m):
                    ctx.fail(dict(kind=kind), dict(replay, problem=text), text[:500])
                ctx.hist("images-checked", len(rr.imgs))
                # which stages overlapped a writer: estimated from the backup op's interval
                for k, o in rr.ops.items():
                    if o["text"].startswith("bkp") and o["out"].startswith("ok"):
                        inside = sum(1 for k2, o2 in rr.ops.items() if k2[0] < m["nw"] and o2["inv"] > o["inv"] and o2["res"] < o["res"])
                        ctx.hist("backup-with-writer-ops-inside" if inside else "backup-without-overlap")


def run(ctx):
    ctx.cov["rule"] = ("(a) schedules: random sequences of writer operations of two threads, sync, explicit checkpoint and a gated backup "
                       "(one `gate` advances it to the next stage boundary), growth placed by large values; (b) load: 1..5 writers with disjoint "
                       "key ranges (small ranges so that keys are overwritten and deleted), optional helper doing sync/checkpoint/state, 1 MiB "
                       "checkpoint buffer in half of the runs, a backup thread with stretched stage boundaries; distinct = distinct text; "
                       "non-trivial = at least one backup completes while other operations exist")
    ctx.assumptions += ["writers use disjoint key ranges (so that the cut per writer is identifiable from the image)",
                        "the forced checkpoint requested at the end of a backup is awaited before the next scheduled step (sched mode only)"]
    ctx.translate()
    ok, drv_ok = ctx.prove(MODULE, THEOREMS)
    hs = {"asan": K.build("asan"), "tsan": K.build("tsan")}
    drv = C.drv_path() if drv_ok else None
    if ctx.tier == "quick":
        explore(ctx, hs, drv, 120, 60, 20, "main")
    else:
        explore(ctx, hs, drv, 500, 250, 80, "main")
    if (ctx.proof_broken or ctx.corr_broken) and not ctx.violations:
        ctx.log("obligation or correspondence broken: widening the search for a failing input")
        for i in range(3):
            explore(ctx, hs, drv, 120, 60, 20, "search%d" % i)


def replay(ctx, obj):
    rp = obj["replay"]
    v = rp.get("variant", "asan")
    h = K.build(v)
    res = K.run_cases(h, [(rp["case"], rp["lines"])], variant=v, timeout=300)
    r = res.get(rp["case"])
    if r is not None:
        print("\n".join(l for l in r.lines if not l.startswith("ev "))[:6000])
        print(r.stderr[-3000:])
    ctx.case("replay")
    ctx.case("replay2")
