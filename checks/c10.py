"""C10: the block allocator never hands out space that is already in use."""
from vlib import common as C
from checks import fsmlib as F

LEVEL = "proof"
# C functions this check's models mirror (source-text fingerprints are recorded in the evidence, see translate/funchash.py)
MODELLED_FUNCS = {'src/fs/iwfsmfile.c': ['_fsm_blk_allocate_lw', '_fsm_blk_allocate_aligned_lw', '_fsm_blk_deallocate_lw', '_fsm_find_matching_fblock_lw', '_fsm_put_fbk', '_fsm_del_fbk', '_fsm_reallocate', '_fsm_deallocate', '_fsm_allocate', '_fsm_resize_fsm_bitmap_lw', '_fsm_init_lw']}
MANIFEST = dict(
    level="proof",
    text=("Lean 4 theorems over an executable model of iwfsmfile.c (bitmap, free-extent index ordered by (length, offset), "
          "last-free-block cache, best-fit / page-aligned allocation, release with neighbour merge, bitmap growth and relocation): "
          "a returned region consists of blocks that were free and are disjoint from every live region, the header and the bitmap; "
          "alignment and length laws; guarded releases leave the state unchanged; reallocate over the bytes of the pool (block model + the copy of the "
          "exfile model of C12) returns a region whose first min(old, new) bytes are the bytes that stood at the old address, for every state and "
          "request (same size, shrunk in place, moved with any number of bitmap doublings), given that the allocator's own stores leave caller-held "
          "blocks alone (shown for stores into the bitmap area). The model is tied to the code by a differential run "
          "of the real IWFS_FSM against the compiled Lean model on generated histories (addresses, lengths, complete index, bitmap runs, "
          "cache, file size, statistics compared after every step); an independent oracle checks the property on the implementation's results"),
    note=("trusted: Lean kernel, translator, harness/generator, gcc+ASan/UBSan; modelled not verified: the C control flow of the functions named; "
          "the over-allocation heuristic computes in double: the theorems hold for every outcome of it, the driver mirrors it with Float; "
          "page size 4096; offsets and lengths below 2^32 blocks; non-strict mode: releases of free blocks are accepted by the code (open finding FSM6), "
          "the theorems assume releases name allocated ranges there; byte preservation of reallocate: the allocator's own stores during the call are a parameter of the theorem constrained to blocks no caller holds "
          "(tied by the pattern bytes of all live regions and by the recorded pool.copy arguments compared with the model's), the pool has shared windows; "
          "tree modelled = /repo + fix commits 92a58a8 c298771 178a684 2507f48 9fd915e dd41311 (+474d361 of exf12)"),
    technique="Lean 4 proof over executable model + differential correspondence (C harness vs compiled Lean driver) + shadow-interval oracle")
MODULE = "IwModel.Props.C10"
THEOREMS = ["IwModel.C10." + n for n in (
    "alloc_fresh", "alloc_aligned", "alloc_len", "alloc_solid", "dealloc_guard", "guarded_of_overlap",
    "dealloc_strict_refuses", "dealloc_exact", "realloc_inv", "realloc_fresh", "realloc_keeps_bytes", "realloc_hypotheses_met")]


def gen_invalid(r, cfg):
    """malformed stream: releases that must be refused (header, bitmap, unaligned, out of range, zero length,
    and - in strict mode - ranges that are not fully allocated)"""
    ops = [cfg.line()]
    for _ in range(r.randrange(2, 10)):
        ops.append("alloc %d 0 %d" % (F.rand_len(r, cfg), F.rand_flags(r, False) | F.NO_OVER))
    ops.append("check")
    bad = []
    for _ in range(r.randrange(1, 5)):
        k = r.randrange(11)
        if k >= 9:
            # a range that starts in front of the bitmap and ends behind it (encloses it)
            j = r.choice([1, 1, 2, 3, 8])
            bad.append("rawdealloc bm-%d %d" % (cfg.bsz * j, cfg.bsz * j + r.choice([4096, 8192, 12288, 16384]) + cfg.bsz * r.choice([1, 1, 2, 64])))
        elif k == 0:
            bad.append("rawdealloc 0 %d" % (cfg.bsz * r.choice([1, 2, 100])))
        elif k == 1:
            d = r.choice([x for x in (0, 64, 1024, 2048, 4032) if x % cfg.bsz == 0])
            bad.append("rawdealloc bm+%d %d" % (d, cfg.bsz * r.choice([1, 64, 100000])))
        elif k == 2:
            bad.append("rawdealloc #%d+%d %d" % (r.randrange(50), r.choice([1, 7, cfg.bsz - 1]), cfg.bsz))
        elif k == 3:
            bad.append("rawdealloc end+%d %d" % (cfg.bsz * r.choice([0, 1, 1000]), cfg.bsz * r.choice([1, 10])))
        elif k == 4:
            bad.append("rawdealloc #%d %d" % (r.randrange(50), r.choice([0, 1, cfg.bsz - 1])))
        elif k == 5:
            # range that starts in the header's last block / ends in the bitmap's first block
            bad.append("rawdealloc %d %d" % (max(0, cfg.hdrlen - cfg.bsz), 2 * cfg.bsz))
        elif k == 6:
            bad.append("rawdealloc bm+0 0")
        elif k == 7:
            bad.append("rawrealloc bm+0 %d %d %d" % (cfg.bsz * 4, cfg.bsz, F.NO_OVER))
        else:
            bad.append("rawrealloc 0 %d %d %d" % (cfg.bsz * 2, cfg.bsz, F.NO_OVER))
    for b in bad:
        ops += [b, "check"]
    ops += ["alloc %d 0 %d" % (F.rand_len(r, cfg), F.NO_OVER), "check"]
    return ops


def oracle_invalid(cfg, ops, out):
    """every raw call must be refused and the following state line must equal the preceding one"""
    prev = None
    for op, o in zip(ops, out):
        w = op.split()[0]
        if w in ("rawdealloc", "rawrealloc"):
            if o.split()[1] == "0":
                return ("guard", "invalid release `%s` was accepted" % op)
            pend = op
        elif w == "check":
            core = o.split(" crz=")[0] + " tree=" + o.split(" tree=")[1]
            if prev is not None and pend and core != prev:
                return ("guard-damage", "refused call `%s` changed the allocator state: %s -> %s" % (pend, prev[:150], core[:150]))
            prev, pend = core, None
        else:
            pend = None
    r = F.oracle_history(cfg, [x for x in ops if not x.startswith("raw")], [o for x, o in zip(ops, out) if not x.startswith("raw")])
    return r


def gen_strict_invalid(r, cfg, strict=1):
    """releases of ranges that are not (fully) allocated"""
    cfg = F.Cfg(cfg.bpow, cfg.hdr, cfg.bmlen, cfg.mmapall, strict, cfg.lsnr, cfg.notrim, cfg.pat)
    ops = [cfg.line()]
    m = r.randrange(3, 8)
    for i in range(m):
        ops.append("alloc %d 0 %d" % (4 * cfg.bsz if i == m - 1 else F.rand_len(r, cfg), F.NO_OVER))
    ops += ["dealloc #1", "check"]          # m-1 live regions, the last one (index m-2) has 4 blocks
    for _ in range(r.randrange(1, 4)):
        k = r.randrange(4)
        if k == 3:      # reallocate a range that is not allocated
            ops.append("rawrealloc %d %d %d %d" % (cfg.bsz * r.randrange(20000, 30000), cfg.bsz * r.choice([1, 3, 64]),
                                                    cfg.bsz * r.choice([65, 100, 500]), F.NO_OVER | r.choice([0, F.SOLID])))
        elif k == 0:      # a free range far away
            ops.append("rawdealloc %d %d" % (cfg.bsz * r.randrange(20000, 30000), cfg.bsz * r.choice([1, 3, 64])))
        elif k == 1:    # live region plus free blocks after the last one
            ops.append("rawdealloc #%d %d" % (r.randrange(50), cfg.bsz * 3000))
        else:           # double release: free the first block of the last region (valid), then release it again
            ops.append("dealloc #%d 0 1" % (m - 2))
            ops.append("check")
            ops.append("rawdealloc #%d-%d %d" % (m - 2, cfg.bsz, cfg.bsz))
        ops.append("check")
    return cfg, ops


def oracle_release(ops, out):
    """every raw release must be refused, and a refused call must leave the state line unchanged; the index must equal the bitmap's zero runs"""
    prev = pend = None
    for op, x in zip(ops, out):
        if op.startswith("raw"):
            pend = (op, x.split()[1])
            if pend[1] == "0":
                return ("guard", "invalid release `%s` was accepted" % op)
        elif op == "check":
            core = x.split(" crz=")[0] + " tree=" + x.split(" tree=")[1]
            if pend and prev is not None and core != prev:
                return ("guard-damage", "refused release `%s` (%s) changed the allocator state" % pend)
            t = dict(p.split("=", 1) for p in x.split()[1:] if "=" in p)
            if sorted(F.parse_ext(t["tree"])) != F.parse_ext(t["runs"]):
                return ("index-mismatch-after-invalid", "after `%s` the index differs from the bitmap's zero runs" % (pend[0] if pend else "?"))
            prev, pend = core, None
        else:
            pend = None
    return None


def cases_main(r, n, tier):
    out = []
    for _ in range(n):
        cfg = F.rand_cfg(r)
        k = r.random()
        if k < 0.8:
            ops = F.gen_history(r, cfg, r.randrange(30, 120 if tier == "quick" else 300))
            out.append(F.history_case("history-" + cfg.tag(), cfg, ops))
        elif k < 0.9:
            ops = gen_invalid(r, cfg)
            out.append(F.Case("invalid-release", ops, (lambda o, cfg=cfg, ops=ops: oracle_invalid(cfg, ops, o))))
        elif k < 0.97:
            cfg2, ops = gen_strict_invalid(r, cfg, 1)
            out.append(F.Case("strict-invalid-release", ops, (lambda o, ops=ops: oracle_release(ops, o))))
        else:
            cfg2, ops = gen_strict_invalid(r, cfg, 0)
            out.append(F.Case("nonstrict-invalid-release", ops, (lambda o, ops=ops: oracle_release(ops, o))))
    return out


def run(ctx):
    ctx.cov["rule"] = ("a case is one history (open + 30..300 calls) over a random configuration: block size 2^6..2^12, header 0..9000 bytes, initial bitmap 1..2 pages, "
                       "mmap-all/partial, strict/non-strict, with/without a recording data listener, with/without pattern bytes in every live region; "
                       "60% of the histories first consume the free tail so that exact fits, cache resets, bitmap growth and relocation occur; "
                       "distinct = distinct op text; every case performs at least three allocator calls")
    ctx.assumptions += ["page size (iwp_alloc_unit) is 4096", "block numbers stay below 2^32 (the index key is two uint32)",
                        "non-strict mode: callers release only ranges they own (a release of free blocks is not detected there, see finding FSM6)"]
    ctx.translate()
    ok, drv_ok = ctx.prove(MODULE, THEOREMS)
    h = F.build(ctx)
    drv = C.drv_path() if drv_ok else None
    n = 700 if ctx.tier == "quick" else 3000
    F.explore(ctx, h, drv, cases_main(C.Rng(ctx.seed, "c10/main"), n, ctx.tier), "main", "c10")
    if (ctx.proof_broken or ctx.corr_broken) and not ctx.violations:
        ctx.log("obligation or correspondence broken: widening the search for a failing input")
        for i in range(3):
            F.explore(ctx, h, drv, cases_main(C.Rng(ctx.seed, "c10/search%d" % i), 150, "thorough"), "search%d" % i, "c10s")


def replay(ctx, obj):
    F.replay(ctx, obj)
