"""C14: text, tree and binary forms of a document agree, and so do JSON-pointer look-ups."""
import binascii, struct
from vlib import common as C
from vlib.diff import Case, differential

LEVEL = "proof"
# C functions this check's models mirror (source-text fingerprints are recorded in the evidence, see translate/funchash.py)
MODELLED_FUNCS = {'src/json/iwjson.c': ['_jbl_from_node_impl', '_jbl_node_from_binn_impl', '_jbl_ptr_pool', 'jbl_at2', 'jbn_at2'], 'src/json/iwjser.c': ['jbn_clone'], 'src/json/iwbinn.c': ['AddValue', 'GetValue', 'binn_save_header', 'SearchForKey', 'AdvanceDataPos']}
MANIFEST = dict(
    level="proof",
    text=("Lean 4 theorems over executable models of the binn writer/reader as used by iwjson.c (_jbl_from_node_impl, binn_save_header, "
          "compress_int, binn_iter/GetValue/AdvanceDataPos, _jbl_node_from_binn_impl), both JSON printers' structure, jbl_clone/binn_copy, "
          "jbn_clone's level-driven rebuild, _jbl_ptr_pool and both pointer visitors with their cursor: tree->binary->tree is the identity, "
          "both forms print the same text for any leaf formatting, clones are equal, pointer parsing equals the RFC 6901 token rules and both "
          "visitors return the RFC 6901 element or not-found; the models are tied to the code by a differential run (conversion chains in random "
          "order, look-ups of existing and absent pointers on both forms) against the compiled Lean definitions, with a python RFC 6901 evaluator "
          "and form-equality as independent oracle; binn type codes and limits are regenerated from the headers on every run"),
    note=("trusted: Lean kernel, translator, harness/generator, gcc+ASan/UBSan; modelled not verified: the C control flow of the functions named; "
          "hypotheses: keys <= 255 bytes, NUL free, unique ignoring ASCII case; string values NUL free (open finding C14-NUL: the binary form cuts "
          "them); integers in int64; document < 2^31 bytes; pointers of <= 999 tokens without '*' tokens; text parsing/number formatting belong to C13 "
          "(the printers are compared with each other, leaf formatting abstract in the theorem)"),
    technique="Lean 4 proof over executable model + differential correspondence (C harness vs compiled Lean driver) + python RFC 6901 oracle")
MODULE = "IwModel.Props.C14"
THEOREMS = [
    "IwModel.C14.binn_roundtrip", "IwModel.C14.print_agree", "IwModel.C14.ptr_parse_spec", "IwModel.C14.ptr_parse_rejects",
    "IwModel.C14.at_forms_agree", "IwModel.C14.at_tree_first_match", "IwModel.C14.at_agree", "IwModel.C14.at_result_to_node",
    "IwModel.C14.at_path_agree", "IwModel.C14.clone_binn_eq", "IwModel.C14.clone_tree_eq",
    "IwModel.C14.writer_rejects_bad_keys", "IwModel.C14.nul_string_cut",
]

H = lambda b: binascii.hexlify(bytes(b)).decode() or "-"

# ---------------------------------------------------------------- documents (python side)
# ("n",) ("b", bool) ("i", int) ("d", bits) ("s", bytes) ("a", [v]) ("o", [(key bytes, v)])


def wire(v):
    t = v[0]
    if t == "n":
        return "n"
    if t == "b":
        return "t" if v[1] else "f"
    if t == "i":
        return "i%d" % v[1]
    if t == "d":
        return "d%016x" % v[1]
    if t == "s":
        return "s" + H(v[1])
    if t == "a":
        return " ".join(["a%d" % len(v[1])] + [wire(x) for x in v[1]])
    return " ".join(["o%d" % len(v[1])] + ["k%s %s" % (H(k), wire(x)) for k, x in v[1]])


KEY_ALPHA = [b"a", b"b", b"c", b"X", b"Y", b"Z", b"0", b"1", b"9", b"~", b"/", b" ", b"-", b"*", b"_", "é".encode(), b"",
             b"ab", b"abc", b"a~b", b"~0", b"~1", b"a/b", b"01", b"10", b"2", b"m~0n/~1", b"key", b"**", b"*a", b"-1", b"1e0", b"\x01", b"\x7f"]
INT_EDGES = [0, 1, -1, 127, 128, 255, 256, -128, -129, 32767, 32768, 65535, 65536, -32768, -32769, 2 ** 31 - 1, 2 ** 31, 2 ** 32 - 1, 2 ** 32,
             -2 ** 31, -2 ** 31 - 1, 2 ** 63 - 1, -2 ** 63, 2 ** 53, 10 ** 18, -10 ** 18]


def gen_int(r):
    x = r.random()
    if x < 0.5:
        return r.choice(INT_EDGES)
    if x < 0.8:
        return r.randrange(-300, 300)
    k = r.randrange(1, 64)
    v = r.randrange(0, 1 << k)
    return -v if r.random() < 0.5 else v


def gen_f64(r):
    x = r.random()
    if x < 0.3:
        d = r.randrange(-4000, 4000) / r.choice([2, 4, 8, 16, 1024])
    elif x < 0.45:
        d = 2.0 ** -r.randrange(1, 40) * r.choice([1, -1, 3, 5])          # exact ties at the 8th digit
    elif x < 0.5:
        d = r.choice([0.0, -0.0, 1.0, 0.1, 0.3, 1e-9, 123456789.125, 1e14 + 0.5, -99999.999999995])
    else:
        d = r.uniform(-1, 1) * 10 ** r.randrange(-10, 15)
    return struct.unpack(">Q", struct.pack(">d", d))[0]


def gen_str(r, allow_bad_utf8=True):
    x = r.random()
    if x < 0.35:
        return bytes(r.choice(b"abcXYZ 019~/\\\"-_*") for _ in range(r.randrange(0, 8)))
    if x < 0.5:
        return "".join(r.choice(["é", "€", "\U0001F600", "a", "ࠀ", "￿", "\U00010000", "\u007f", "\x1f", "\t", "\n", "\r", "\x0b", "\x08", "\x0c", "\x01"])
                       for _ in range(r.randrange(1, 6))).encode()
    if x < 0.6:
        n = r.choice([126, 127, 128, 129, 255, 256, 300])
        return bytes(r.choice(b"abcdefgh") for _ in range(n))
    if x < 0.65 and allow_bad_utf8:
        return bytes(r.choice([0xff, 0xc0, 0x80, 0xed, 0xa0, 0x61, 0xf5, 0xc3]) for _ in range(r.randrange(1, 5)))
    return bytes(r.randrange(1, 256) if allow_bad_utf8 else r.randrange(1, 128) for _ in range(r.randrange(0, 12)))


def gen_key(r, used):
    for _ in range(50):
        x = r.random()
        if x < 0.75:
            k = r.choice(KEY_ALPHA)
        elif x < 0.9:
            k = bytes(r.choice(b"abcxyzABC012~/ -_*") for _ in range(r.randrange(1, 5)))
        elif x < 0.96:
            k = bytes(r.choice(b"abcdefgh") for _ in range(r.choice([126, 127, 128, 200, 254, 255])))
        else:
            k = "".join(r.choice(["é", "€", "k", "\U0001F600"]) for _ in range(r.randrange(1, 4))).encode()
        if k.lower() not in used:     # bytes.lower() is ASCII-only, as strnicmp in the C locale
            used.add(k.lower())
            return k
    k = b"k%d" % len(used)
    used.add(k)
    return k


def gen_doc(r, depth, budget, utf8ok=False):
    """random document; budget = list with remaining node count"""
    budget[0] -= 1
    x = r.random()
    if depth <= 0 or budget[0] <= 0 or x < 0.45:
        y = r.random()
        if y < 0.1:
            return ("n",)
        if y < 0.2:
            return ("b", r.random() < 0.5)
        if y < 0.5:
            return ("i", gen_int(r))
        if y < 0.65:
            return ("d", gen_f64(r))
        return ("s", gen_str(r, not utf8ok))
    if x < 0.7:
        n = r.choice([0, 1, 2, 3, 3, 4, 6])
        return ("a", [gen_doc(r, depth - 1, budget, utf8ok) for _ in range(n)])
    n = r.choice([0, 1, 2, 3, 3, 4, 6])
    used = set()
    return ("o", [(gen_key(r, used), gen_doc(r, depth - 1, budget, utf8ok)) for _ in range(n)])


def gen_big(r):
    """documents around the 1-byte/4-byte thresholds of the count and size fields"""
    x = r.random()
    if x < 0.3:
        n = r.choice([126, 127, 128, 129, 200])
        return ("a", [("i", r.choice([0, 1, 300, -1])) for _ in range(n)])
    if x < 0.5:
        n = r.choice([127, 128, 130])
        return ("o", [(b"k%d" % i, ("b", i % 2 == 0)) for i in range(n)])
    if x < 0.8:
        # body length 121..130 so that size = body + 3 crosses 127
        n = r.randrange(110, 125)
        return ("a", [("s", b"x" * n)] + [("n",) for _ in range(r.randrange(0, 12))])
    return ("o", [(b"k", ("a", [("s", b"y" * r.randrange(115, 126))])), (b"tail", ("i", 7))])


def gen_deep(r):
    d = r.choice([10, 40, 120])
    v = ("i", 5)
    path = []
    for i in range(d):
        if r.random() < 0.5:
            v = ("a", [("n",), v])
            path.append(b"1")
        else:
            v = ("o", [(b"d", v), (b"e", ("s", b"z"))])
            path.append(b"d")
    return v, list(reversed(path))


def has_nul(v):
    t = v[0]
    if t == "s":
        return 0 in v[1]
    if t == "a":
        return any(has_nul(x) for x in v[1])
    if t == "o":
        return any(has_nul(x) for _, x in v[1])
    return False


def cut_nul(v):
    t = v[0]
    if t == "s":
        return ("s", v[1].split(b"\0")[0])
    if t == "a":
        return ("a", [cut_nul(x) for x in v[1]])
    if t == "o":
        return ("o", [(k, cut_nul(x)) for k, x in v[1]])
    return v


def bad_utf8(v):
    t = v[0]

    def bad(b):
        try:
            b.decode("utf-8")
            return False
        except UnicodeDecodeError:
            return True
    if t == "s":
        return bad(v[1])
    if t == "a":
        return any(bad_utf8(x) for x in v[1])
    if t == "o":
        return any(bad(k) or bad_utf8(x) for k, x in v[1])
    return False


# ---------------------------------------------------------------- RFC 6901 in python (independent of the Lean model)

def esc(seg):
    return seg.replace(b"~", b"~0").replace(b"/", b"~1")


def rfc_tokens(p):
    if p == b"":
        return []
    if p[:1] != b"/":
        return None
    return [s.replace(b"~1", b"/").replace(b"~0", b"~") for s in p[1:].split(b"/")]


def rfc_get(v, toks):
    for t in toks:
        if v[0] == "o":
            hit = [x for k, x in v[1] if k == t]
            if not hit:
                return None
            v = hit[0]
        elif v[0] == "a":
            if not (t == b"0" or (t[:1] in b"123456789" and t[:1] != b"" and t.isdigit())):
                return None
            if not all(48 <= c <= 57 for c in t):
                return None
            i = int(t)
            if i >= len(v[1]):
                return None
            v = v[1][i]
        else:
            return None
    return v


def all_paths(v, pre=()):
    out = [pre]
    if v[0] == "a":
        for i, x in enumerate(v[1]):
            out += all_paths(x, pre + (b"%d" % i,))
    elif v[0] == "o":
        for k, x in v[1]:
            out += all_paths(x, pre + (k,))
    return out


def gen_pointer(r, doc, paths):
    """(pointer bytes, wildcard?) -- existing paths and near misses"""
    toks = list(r.choice(paths))
    x = r.random()
    if x < 0.45:
        pass
    elif x < 0.55 and toks:
        toks = toks[:r.randrange(0, len(toks) + 1)] + [r.choice([b"zz", b"0", b"01", b"-", b"1", b"00", b"+1", b"1 ", b" 1", b"1e0", b"9999999999", b"4294967296", b"A", b"a"])]
    elif x < 0.7 and toks:
        i = r.randrange(len(toks))
        t = toks[i]
        toks[i] = r.choice([t[:-1], t + b"x", t + b"0", t.swapcase(), b"0" + t, t + t, t[:1], b" " + t])
    elif x < 0.8:
        toks = toks + [r.choice(KEY_ALPHA)]
    elif x < 0.9:
        v = rfc_get(doc, toks)
        if v is not None and v[0] == "a":
            toks = toks + [b"%d" % (len(v[1]) + r.choice([0, 0, 1, -1]))] if len(v[1]) + 1 > 0 else toks
        else:
            toks = toks + [b"0"]
    else:
        toks = [r.choice(KEY_ALPHA) for _ in range(r.randrange(1, 4))]
    star = any(t == b"*" for t in toks)
    p = b"".join(b"/" + esc(t) for t in toks)
    if toks and toks[-1] == b"" and len(p) > 1:
        return None                      # "/a/": rejected by the library (last token empty) -- outside the property's quantifier
    if b"\0" in p:
        return None
    return p, star


# ---------------------------------------------------------------- cases

CONV_TREE = ["fromnode", "fill", "fillclone", "clone"]
CONV_BIN = ["tonode 0", "tonode 1", "clone", "poolclone", "rebuf"]


def doc_tags(v, depth=0, out=None):
    """branch tags of the writer/reader a document reaches (reported in the evidence histogram)"""
    out = set() if out is None else out
    t = v[0]
    if t == "i":
        n = v[1]
        w = ("u8" if n <= 255 else "u16" if n <= 65535 else "u32" if n < 2 ** 32 else "i64") if n >= 0 else (
            "i8" if n >= -128 else "i16" if n >= -32768 else "i32" if n >= -2 ** 31 else "i64neg")
        out.add("int:" + w)
    elif t == "s":
        out.add("str:len>127" if len(v[1]) > 127 else "str:short")
    elif t in ("a", "o"):
        kids = v[1] if t == "a" else [x for _, x in v[1]]
        out.add("count:4byte" if len(kids) > 127 else "count:1byte")
        out.add("depth>=%d" % (40 if depth >= 40 else 10 if depth >= 10 else 3 if depth >= 3 else 0))
        if t == "o" and any(len(k) > 127 for k, _ in v[1]):
            out.add("key:len>127")
        for x in kids:
            doc_tags(x, depth + 1, out)
    else:
        out.add("leaf:" + t)
    return out


def make_case(r, kind, doc, npt=6, extra_ptrs=(), chain_len=None, flagset=(0, 1)):
    ops = ["doc " + wire(doc)]
    form = "tree"
    scalar = doc[0] not in ("a", "o")
    paths = all_paths(doc)
    ptrs = list(extra_ptrs)
    for _ in range(npt):
        g = gen_pointer(r, doc, paths)
        if g:
            ptrs.append(g)
    steps = chain_len if chain_len is not None else r.randrange(1, 6)

    def probes():
        for f in flagset:
            ops.append("print %d" % f)
        for p, star in r.sample(ptrs, min(len(ptrs), 3)) if ptrs else []:
            ops.append("%s %s" % ("at" if r.random() < 0.7 else "at2", H(p)))
    probes()
    for _ in range(steps):
        if form == "tree":
            op = r.choice(CONV_TREE)
            if scalar and op in ("fromnode", "fillclone"):
                op = "fill"
            ops.append(op)
            if op != "clone":
                form = "bin"
        else:
            op = r.choice(CONV_BIN)
            if scalar and op in ("clone", "poolclone", "rebuf"):
                op = "tonode 1"
            ops.append(op)
            if op.startswith("tonode"):
                form = "tree"
        probes()
    ptrmap = {H(p): (p, star) for p, star in ptrs}

    def oracle(out, doc=doc, ops=ops, ptrmap=ptrmap, kind=kind):
        return check_case(doc, ops, out, ptrmap)
    c = Case(kind, ops, oracle)
    c.key = (kind, tuple(ops), tuple(sorted(doc_tags(doc))))
    return c


def check_case(doc, ops, out, ptrmap):
    """the property on API-visible results: every form dumps to the same value, binary forms are byte-identical,
    both printers give the same text, look-ups equal RFC 6901"""
    w0 = wire(doc)
    texts = {}
    bins = set()
    form = "tree"
    for op, ln in zip(ops, out):
        a = op.split()
        f = ln.split(" ", 3)
        if a[0] == "doc":
            if ln != "doc tree " + w0:
                return "cls=harness: wire form not understood: %s" % ln[:200]
        elif a[0] in ("fromnode", "fill", "fillclone", "tonode", "clone", "poolclone", "rebuf"):
            if f[1] != "ok":
                return "cls=conv-error: %s of a well-formed document failed: %s" % (op, ln[:100])
            if f[2] == "tree":
                form = "tree"
                if f[3] != w0:
                    return "cls=tree-differs: after `%s` the tree is %s, expected %s" % (op, f[3][:300], w0[:300])
            elif f[2] == "bin":
                form = "bin"
                bins.add(f[3])
                if len(bins) > 1:
                    return "cls=bin-differs: binary forms of one document differ after `%s`: %s" % (op, sorted(bins)[:2])
            elif f[2] == "scalar":
                form = "bin"
                if f[3] != w0:
                    return "cls=scalar-differs: scalar holder is %s, expected %s" % (f[3][:200], w0[:200])
            else:
                return "cls=conv-error: %s gave %s" % (op, ln[:100])
        elif a[0] == "print":
            fl = int(a[1])
            key = fl if fl < 4 or form == "tree" else fl | 64     # indent flags: tree printer only
            if fl >= 4 and form != "tree":
                continue
            if f[1] != "ok":
                tx = "error"
            else:
                tx = f[2]
            if key in texts and texts[key][0] != tx:
                return "cls=print-differs: flags %d: %s form printed %s, %s form printed %s" % (fl, texts[key][1], texts[key][0][:200], form, tx[:200])
            texts.setdefault(key, (tx, form))
        elif a[0] in ("at", "at2"):
            p, star = ptrmap[a[1]]
            if star:
                continue                      # wildcard: outside the property, model comparison only
            toks = rfc_tokens(p)
            exp = rfc_get(doc, toks) if toks is not None else None
            if toks is None:
                if f[1] != "badptr":
                    return "cls=ptr-syntax: invalid pointer %r accepted: %s" % (p, ln[:100])
                continue
            got_ok = f[1] == "ok"
            if exp is None:
                if got_ok:
                    return "cls=at-found-absent: %s form, pointer %r designates nothing but the look-up returned %s" % (form, p, ln[:200])
            else:
                if not got_ok:
                    return "cls=at-missed: %s form, pointer %r designates %s but the look-up said %s" % (form, p, wire(exp)[:200], ln[:100])
                rest = ln.split(" ", 2)[2]
                if a[0] == "at2" and form == "bin":
                    want = "%s 1 %s" % (wire(exp), wire(exp))
                else:
                    want = wire(exp)
                if rest != want:
                    return "cls=at-wrong: %s form, pointer %r: got %s, RFC 6901 gives %s" % (form, p, rest[:200], want[:200])
    return None


def case_random(r):
    doc = gen_doc(r, r.choice([1, 2, 3, 4, 4, 5]), [r.choice([5, 12, 30, 60])])
    flags = (0, 1) if bad_utf8(doc) else r.choice([(0, 1), (0, 3), (2, 1), (0, 1, 2, 3)])
    if r.random() < 0.15:
        flags = flags + (r.choice([5, 9, 7, 11]),)
    return make_case(r, "random", doc, flagset=flags)


def case_utf8(r):
    doc = gen_doc(r, 3, [20], utf8ok=True)
    if bad_utf8(doc):
        return case_random(r)
    return make_case(r, "codepoints", doc, flagset=(2, 3, 0))


def case_big(r):
    return make_case(r, "thresholds", gen_big(r), npt=3, flagset=(0,))


def case_deep(r):
    doc, path = gen_deep(r)
    k = r.randrange(0, len(path) + 1)
    p = b"".join(b"/" + t for t in path[:k])
    extra = [(p, False), (p + b"/e", False), (p + b"/0", False), (b"".join(b"/" + t for t in path), False)]
    return make_case(r, "deep", doc, npt=2, extra_ptrs=extra, chain_len=r.randrange(1, 3), flagset=(0,))


def case_scalar(r):
    doc = gen_doc(r, 0, [1])
    return make_case(r, "scalar-root", doc, npt=0, extra_ptrs=[(b"", False), (b"/a", False), (b"/0", False)], flagset=(0, 1))


def case_star(r):
    """wildcard tokens: not part of the property; ties the model's cursor logic (back-tracking walk) to the code"""
    doc = gen_doc(r, 4, [40])
    paths = [p for p in all_paths(doc) if p]
    ptrs = []
    for _ in range(6):
        if not paths:
            break
        toks = list(r.choice(paths))
        for i in range(len(toks)):
            if r.random() < 0.5:
                toks[i] = b"*"
        if r.random() < 0.3:
            toks.append(r.choice([b"*", b"a", b"0"]))
        ptrs.append((b"".join(b"/" + esc(t) for t in toks), True))
    return make_case(r, "wildcard", doc, npt=0, extra_ptrs=ptrs, chain_len=2, flagset=())


def case_ptr_syntax(r):
    """pointer parser alone: valid and invalid spellings (never a '~' that is not followed by 0 or 1: F10, owned by C17)"""
    ops, exp = [], []
    for _ in range(8):
        n = r.randrange(0, 5)
        toks = [r.choice(KEY_ALPHA + [b"~~", b"//", b"a~", b"~/"]) for _ in range(n)]
        p = b"".join(b"/" + esc(t) for t in toks)
        x = r.random()
        if x < 0.15:
            p = p[1:]                     # no leading slash
        elif x < 0.3:
            p = p + b"/"                  # trailing slash
        elif x < 0.35:
            p = b"/" * r.randrange(1, 4)
        if b"\0" in p:
            continue
        ops.append("ptr " + H(p))
        exp.append(p)

    def oracle(out, exp=exp):
        for p, ln in zip(exp, out):
            toks = rfc_tokens(p)
            rejected_by_design = len(p) > 1 and p.endswith(b"/")          # the library refuses an empty last token
            if toks is None or rejected_by_design:
                if toks is None and ln != "ptr badptr":
                    return "cls=ptr-syntax: invalid pointer %r accepted: %s" % (p, ln)
                continue
            want = "ptr ok %d" % len(toks) + "".join(" " + H(t) for t in toks)
            if ln != want:
                return "cls=ptr-parse: pointer %r parsed as `%s`, RFC 6901 tokens are `%s`" % (p, ln[:200], want[:200])
        return None
    return Case("ptr-syntax", ops or ["ptr -"], oracle if ops else None)


def case_badkeys(r):
    """malformed stream: documents whose keys do not fit the binary form -> conversion must fail with CREATION, nothing else"""
    doc = gen_doc(r, 2, [10])
    x = r.random()
    if x < 0.4:
        bad = ("o", [(b"Key", ("i", 1)), (b"other", ("n",)), (b"kEY", ("i", 2))])
    elif x < 0.6:
        bad = ("o", [(b"x" * 256, ("i", 1))])
    elif x < 0.8:
        bad = ("o", [(b"dup", ("i", 1)), (b"dup", ("i", 2))])
    else:
        bad = ("o", [(b"", ("i", 1)), (b"", ("i", 2))])
    doc = ("a", [doc, bad]) if r.random() < 0.5 else bad
    ops = ["doc " + wire(doc), r.choice(["fromnode", "fill"]), "print 0", "at " + H(b"/0")]

    def oracle(out):
        if out[1].split()[1] != "creation":
            return "cls=badkey-accepted: document with clashing or over-long keys converted: %s" % out[1][:100]
        return None
    return Case("bad-keys", ops, oracle)


def case_nul(r):
    """string values with an embedded NUL (open finding C14-NUL: the binary form cuts them at the NUL)"""
    s = gen_str(r)[:6] + b"\0" + gen_str(r)[:4]
    inner = ("s", s)
    doc = r.choice([("a", [("i", 1), inner]), ("o", [(b"k", inner)]), inner])
    ops = ["doc " + wire(doc), "fill", "tonode 1"]

    def oracle(out, doc=doc):
        f = out[2].split(" ", 3)
        if f[1] != "ok":
            return "cls=conv-error: %s" % out[2][:100]
        if f[3] == wire(doc):
            return None
        if f[3] == wire(cut_nul(doc)):
            return "cls=str-nul: string value with an embedded NUL is cut at the NUL by tree->binary->tree: %s became %s" % (wire(doc)[:120], f[3][:120])
        return "cls=tree-differs: %s became %s" % (wire(doc)[:200], f[3][:200])
    return Case("nul-string", ops, oracle)


# -- text stream (implementation + oracle only; the parser/printer value semantics belong to C13)

def render_json(v, r):
    t = v[0]
    sp = lambda: r.choice(["", "", " ", "\n "])
    if t == "n":
        return "null"
    if t == "b":
        return "true" if v[1] else "false"
    if t == "i":
        return str(v[1])
    if t == "d":
        d = struct.unpack(">d", struct.pack(">Q", v[1]))[0]
        return repr(d)
    if t == "s":
        return '"' + v[1].decode() + '"'
    if t == "a":
        return "[" + ",".join(sp() + render_json(x, r) + sp() for x in v[1]) + "]"
    return "{" + ",".join(sp() + '"' + k.decode() + '"' + sp() + ":" + sp() + render_json(x, r) for k, x in v[1]) + "}"


def gen_text_doc(r, depth):
    x = r.random()
    if depth <= 0 or x < 0.4:
        y = r.random()
        if y < 0.15:
            return ("n",)
        if y < 0.3:
            return ("b", r.random() < 0.5)
        if y < 0.6:
            return ("i", r.choice([0, 1, -1, 255, 256, -129, 65536, 2 ** 31, 2 ** 40, -2 ** 40, r.randrange(-1000, 1000)]))
        if y < 0.7:
            return ("d", struct.unpack(">Q", struct.pack(">d", r.choice([0.5, 1.25, -3.75, 100.125, 0.0625])))[0])
        return ("s", bytes(r.choice(b"abcXYZ 019~/-_*") for _ in range(r.randrange(0, 8))))
    if x < 0.7:
        return ("a", [gen_text_doc(r, depth - 1) for _ in range(r.randrange(0, 4))])
    used = set()
    ks = []
    for _ in range(r.randrange(0, 4)):
        k = bytes(r.choice(b"abcXYZ019~/ -_*") for _ in range(r.randrange(0, 4)))
        if k.lower() not in used:
            used.add(k.lower())
            ks.append(k)
    return ("o", [(k, gen_text_doc(r, depth - 1)) for k in ks])


def case_text(r):
    """text -> tree / text -> binary, then on through the other forms and back to text"""
    doc = gen_text_doc(r, 3)
    if doc[0] not in ("a", "o"):
        doc = ("a", [doc])
    text = render_json(doc, r).encode()
    tree_first = r.random() < 0.5
    ops = ["%s %s" % ("json" if tree_first else "jsonb", H(text)), "print 0"]
    ops += (["fromnode", "print 0", "tonode 1", "print 1"] if tree_first else ["tonode 1", "print 0", "clone", "fill", "print 1", "print 0"])
    paths = all_paths(doc)
    paths = [p for p in paths if not (p and p[-1] == b"") and b"*" not in p]     # "/a/" is refused by the library (outside the quantifier)
    ptrs = [b"".join(b"/" + esc(t) for t in r.choice(paths)) for _ in range(2)]
    ops += ["at " + H(p) for p in ptrs]

    def oracle(out, doc=doc, ops=ops, ptrs=ptrs):
        w0 = wire(doc)
        f = out[0].split(" ", 3)
        if f[1] != "ok":
            return "cls=text-parse: valid JSON text rejected: %s" % out[0][:100]
        first = None
        if f[2] == "tree" and f[3] != w0:
            return "cls=text-tree: text parsed to %s, expected %s" % (f[3][:200], w0[:200])
        if f[2] == "bin":
            first = f[3]
        texts = {}
        for op, ln in zip(ops[1:], out[1:]):
            a = op.split()
            g = ln.split(" ", 3)
            if a[0] == "print":
                if g[1] != "ok":
                    return "cls=print-error: %s" % ln[:100]
                if a[1] in texts and texts[a[1]] != g[2]:
                    return "cls=print-differs: flags %s: %s vs %s" % (a[1], texts[a[1]][:200], g[2][:200])
                texts[a[1]] = g[2]
            elif a[0] in ("fromnode", "fill", "tonode", "clone"):
                if g[1] != "ok":
                    return "cls=conv-error: %s" % ln[:100]
                if g[2] == "tree" and g[3] != w0:
                    return "cls=tree-differs: %s gave %s expected %s" % (op, g[3][:200], w0[:200])
                if g[2] == "bin":
                    if first is not None and g[3] != first:
                        return "cls=bin-differs: %s vs %s" % (first[:200], g[3][:200])
                    first = g[3]
            elif a[0] == "at":
                p = bytes.fromhex(a[1]) if a[1] != "-" else b""
                exp = rfc_get(doc, rfc_tokens(p))
                if g[1] != "ok" or ln.split(" ", 2)[2] != wire(exp):
                    return "cls=at-wrong: pointer %r: %s, RFC 6901 gives %s" % (p, ln[:200], wire(exp)[:200])
        # the compact text must parse back (python) to the same value
        import json
        try:
            back = json.loads(bytes.fromhex(texts["0"]).decode())
        except Exception as ex:
            return "cls=text-invalid: printed text is not JSON: %r" % ex
        if back != to_py(doc):
            return "cls=text-value: printed text denotes %r, document is %r" % (back, to_py(doc))
        return None
    return Case("text-chain", ops, oracle)


def to_py(v):
    t = v[0]
    if t == "n":
        return None
    if t in ("b", "i"):
        return v[1]
    if t == "d":
        return struct.unpack(">d", struct.pack(">Q", v[1]))[0]
    if t == "s":
        return v[1].decode()
    if t == "a":
        return [to_py(x) for x in v[1]]
    return {k.decode(): to_py(x) for k, x in v[1]}


GENS = [(case_random, 10), (case_utf8, 2), (case_big, 1.2), (case_deep, 0.6), (case_scalar, 1), (case_star, 1.5), (case_ptr_syntax, 1),
        (case_badkeys, 0.6), (case_nul, 0.4)]


def gen_cases(r, n, gens=GENS):
    tot = sum(w for _, w in gens)
    out = []
    for _ in range(n):
        x = r.random() * tot
        for g, w in gens:
            x -= w
            if x <= 0:
                out.append(g(r))
                break
    return out


def signature(case, prob):
    if prob[0] == "crash":
        return dict(kind="crash", op=case.kind, site=prob[1]["site"], what=prob[1]["kind"])
    msg = prob[1] if prob[0] == "oracle" else ""
    cls = msg[4:].split(":")[0] if msg.startswith("cls=") else ""
    return dict(kind=prob[0], op=case.kind, cls=cls)


def build(ctx):
    impl = C.build_impl("asan")
    return C.build_harness(impl, "h_c14", ["h_c14.c"])


def explore(ctx, h, drv, n, label, gens=GENS, with_model=True):
    r = C.Rng(ctx.seed, "c14/" + label)
    cases = gen_cases(r, n, gens)
    for c in cases[:3]:
        ctx.sample(dict(kind=c.kind, ops=[o[:160] for o in c.ops[:6]]))
    probs = differential(ctx, [h], [drv, "c14"] if (drv and with_model) else None, cases, timeout=900)
    for c in cases:
        if len(c.key) == 3:
            for tg in c.key[2]:
                ctx.hist("doc:" + tg)
        for ln in (c.impl or []):
            f = ln.split(" ", 3)
            if len(f) == 4 and f[2] == "bin" and len(f[3]) >= 4:
                ctx.hist("header:size-4byte" if int(f[3][2:4], 16) >= 128 else "header:size-1byte")
        for o in c.ops:
            ctx.hist("op:" + o.split()[0])
        for ln in (c.impl or []):
            f = ln.split()
            if len(f) > 1 and f[0] in ("at", "at2"):
                ctx.hist("lookup:" + f[1])
    for c, p in probs:
        if p[0] == "diverge":
            ctx.corr_broken.append("model/implementation diverge on `%s`: impl `%s` model `%s`" % (c.ops[p[1]][:200], p[2][:200], p[3][:200]))
            if len(ctx.corr_broken) <= 5:
                ctx.log("DIVERGE", c.kind, c.ops[p[1]][:150], "| impl:", p[2][:150], "| model:", p[3][:150])
        else:
            ctx.fail(signature(c, p), dict(case=c.kind, ops=c.ops, impl=c.impl, detail=p[1:]), str(p[1])[:400])
    return probs


def run(ctx):
    ctx.cov["rule"] = ("a case = one generated document + a random chain of conversions (jbl_from_node/jbl_fill_from_node, jbl_to_node with and without "
                       "string cloning, jbn_clone/jbl_clone with the source destroyed, jbl_clone_into_pool, jbl_as_buf+jbl_from_buf_keep) with printing "
                       "(flags 0/PRETTY/CODEPOINTS/both, indent variants on trees) and jbn_at/jbl_at/jbn_at2/jbl_at2/_jbl_at look-ups after every step; "
                       "documents: keys from an alphabet with ~ / * space digits prefixes and 126..255-byte keys, integers at every binn width boundary, "
                       "doubles incl. ties at the 8th digit, strings with escapes/controls/multi-byte/invalid UTF-8, containers around the 127/128 count and "
                       "size thresholds, nesting to 120; pointers: existing paths (escaped) and near misses (index = length, leading zeros, -, +1, blanks, "
                       "key prefixes/extensions/case swaps, tokens below scalars); separate streams: wildcard tokens (model tie only), pointer syntax, "
                       "keys that do not fit the binary form, strings with NUL, JSON text chains (oracle only); distinct = distinct op text")
    ctx.assumptions += ["object keys are NUL-free C strings of at most 255 bytes, unique ignoring ASCII case (quantifier of the property)",
                        "pointers never contain a '~' that is not followed by 0 or 1 (F10, handled by C17) and, for the oracle, no '*' token",
                        "number and string formatting of the printers is compared between the two printers, not against a reference (C13)",
                        "doubles are finite with |x| < 1e15 (F6 is C13's)"]
    ctx.translate()
    ok, drv_ok = ctx.prove(MODULE, THEOREMS)
    h = build(ctx)
    drv = C.drv_path() if drv_ok else None
    n = 5000 if ctx.tier == "quick" else 200000
    explore(ctx, h, drv, n, "main")
    explore(ctx, h, None, 400 if ctx.tier == "quick" else 15000, "text", gens=[(case_text, 1)], with_model=False)
    if (ctx.proof_broken or ctx.corr_broken) and not ctx.violations:
        ctx.log("obligation or correspondence broken: widening the search for a failing input")
        for i in range(3):
            explore(ctx, h, drv, 3000, "search%d" % i)
    return


def replay(ctx, obj):
    h = build(ctx)
    rc, o, e = C.run_lines([h], obj["replay"]["ops"])
    for op, ln in zip(obj["replay"]["ops"], o):
        print(op[:200], "=>", ln[:300])
    print(e[-2000:])
    ctx.case("replay")
    ctx.case("replay2")
