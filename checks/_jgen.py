"""Generators of JSON documents, pointers and RFC 6902 patch programs for C15/C16 (all randomness from the Rng given)."""
import copy
from ._jwire import F64
from . import _rfc as R

# keys: no two differ only in ASCII case (the binary form rejects those, property C14), no NUL; they include prefixes of
# one another, pointer meta characters, index look-alikes and `-`
KEYS = ["a", "b", "c", "ab", "abc", "abd", "foo", "q", "x", "0", "1", "2", "01", "-", "a/b", "m~n", "~", "/", "k ", "é",
        "zz", "value", "op", "path", "from", "n1", "n2"]
DOUBLES = [1.5, -0.25, 3.75, 100.125, -7.5, 0.5, 2.25e10 + 0.5]
STRINGS = ["", "s", "bar", "qux", "x y", "10", "été", "a\"b", "tab\there", "long string value 0123456789"]


def scalar(r):
    k = r.randrange(9)
    if k == 0:
        return None
    if k == 1:
        return r.random() < 0.5
    if k in (2, 3, 4):
        return r.choice([0, 1, 2, 3, 7, 10, -1, -5, 42, 255, 256, 65536, -32769, 1 << 31, -(1 << 31) - 1, (1 << 53) + 1,
                         (1 << 62), -(1 << 62), r.randrange(-1000, 1000)])
    if k == 5:
        return F64(r.choice(DOUBLES))
    return r.choice(STRINGS)


def gen_doc(r, depth=3, width=4, top=True, container=False, keys=KEYS):
    k = r.random()
    if depth <= 0 or (not top and not container and k < 0.35):
        return scalar(r)
    if top and not container and k < 0.04:
        return scalar(r)
    if k < 0.68 or (top and k < 0.75):
        n = r.choice([0, 1, 2, 2, 3, 3, 4, width])
        ks = r.sample(keys, min(n, len(keys)))
        return {kk: gen_doc(r, depth - 1, width, False, keys=keys) for kk in ks}
    n = r.choice([0, 1, 2, 3, 3, 4, 5])
    return [gen_doc(r, depth - 1, width, False, keys=keys) for _ in range(n)]


def all_paths(doc, prefix=()):
    """every location of the document as a segment tuple (root included)"""
    out = [prefix]
    if isinstance(doc, dict):
        for k, v in doc.items():
            out += all_paths(v, prefix + (k,))
    elif isinstance(doc, list):
        for i, v in enumerate(doc):
            out += all_paths(v, prefix + (str(i),))
    return out


def container_paths(doc, prefix=()):
    out = []
    if isinstance(doc, dict):
        out.append(prefix)
        for k, v in doc.items():
            out += container_paths(v, prefix + (k,))
    elif isinstance(doc, list):
        out.append(prefix)
        for i, v in enumerate(doc):
            out += container_paths(v, prefix + (str(i),))
    return out


def array_paths(doc):
    return [p for p in container_paths(doc) if isinstance(R.resolve(doc, list(p)), list)]


def ptr(segs):
    return R.make_pointer(list(segs))


def new_slot(r, doc, focus=None, keys=KEYS):
    """a location where `add` is applicable: new or existing member of an object, index 0..n or `-` of an array"""
    cs = container_paths(doc)
    if not cs:
        return None
    if focus is not None and focus in cs and r.random() < 0.7:
        p = focus
    else:
        p = r.choice(cs)
    c = R.resolve(doc, list(p))
    if isinstance(c, dict):
        return p + (r.choice(keys),)
    if r.random() < 0.3:
        return p + ("-",)
    return p + (str(r.randrange(len(c) + 1)),)


def existing(r, doc, focus=None, nonroot=True):
    ps = [p for p in all_paths(doc) if p or not nonroot]
    if not ps:
        return None
    if focus is not None and r.random() < 0.7:
        near = [p for p in ps if p[:len(focus)] == focus]
        if near:
            return r.choice(near)
    return r.choice(ps)


def missing(r, doc):
    """a location that does not exist (RFC: error for remove/replace/test/from)"""
    cs = container_paths(doc)
    k = r.random()
    if cs and k < 0.75:
        p = r.choice(cs)
        c = R.resolve(doc, list(p))
        if isinstance(c, dict):
            cand = [x for x in KEYS + ["nope", "a", "ab"] if x not in c]
            return p + (r.choice(cand),)
        return p + (r.choice([str(len(c)), str(len(c) + 1), str(len(c) + 7), "99", "4294967296", "18446744073709551616"]),)
    ps = all_paths(doc)
    p = r.choice(ps)
    return p + (r.choice(["zz", "0", "nope"]), r.choice(["y", "0", "-"]))


def gen_patch(r, doc, nops, ext=False, fail_rate=0.12, allow_root=True):
    """a patch program that is applicable up to (possibly) one deliberately failing operation.
    Returns (ops, failing index or None).  Works on the evolving reference state so that later operations
    address what earlier ones produced (same array several times, moved members, ...)."""
    cur = copy.deepcopy(doc)
    ops = []
    fail_at = None
    focus = None
    aps = array_paths(cur)
    if aps and r.random() < 0.6:
        focus = r.choice(aps)
    for i in range(nops):
        want_fail = fail_at is None and r.random() < fail_rate
        op = None
        for _ in range(8):
            op = one_op(r, cur, focus, ext, want_fail, allow_root)
            if op is not None and integral_f64(op.get("value")):
                op = None      # would be printed as an integer by the text entry point (e.g. 0.5 + 3.5)
            if op is not None:
                break
        if op is None:
            op = {"op": "test", "path": "", "value": copy.deepcopy(cur)}
        ops.append(op)
        try:
            cur = R.apply_op(cur, copy.deepcopy(op))
        except R.PatchError:
            if fail_at is None:
                fail_at = i
            # later operations are still generated against the last good state
        if focus is not None:
            try:
                if not isinstance(R.resolve(cur, list(focus)), (list, dict)):
                    focus = None
            except R.PatchError:
                focus = None
        if focus is None and r.random() < 0.5:
            aps = array_paths(cur)
            focus = r.choice(aps) if aps else None
    return ops, fail_at


def integral_f64(v):
    if isinstance(v, F64):
        return v.value == int(v.value)
    if isinstance(v, dict):
        return any(integral_f64(x) for x in v.values())
    if isinstance(v, list):
        return any(integral_f64(x) for x in v)
    return False


def one_op(r, cur, focus, ext, want_fail, allow_root):
    kinds = ["add", "add", "add", "remove", "remove", "replace", "replace", "move", "move", "copy", "copy", "test", "test"]
    if ext:
        kinds += ["increment", "increment", "add_create", "add_create", "swap", "swap"]
    kind = r.choice(kinds)
    if want_fail:
        return failing_op(r, cur, kind)
    if kind == "add":
        if allow_root and r.random() < 0.02:
            return {"op": "add", "path": "", "value": gen_doc(r, 2, container=True)}
        p = new_slot(r, cur, focus)
        if p is None:
            return None
        return {"op": "add", "path": ptr(p), "value": gen_doc(r, 2, top=False)}
    if kind == "remove":
        p = existing(r, cur, focus)
        return p and {"op": "remove", "path": ptr(p)}
    if kind == "replace":
        if allow_root and r.random() < 0.02:
            return {"op": "replace", "path": "", "value": gen_doc(r, 2, container=True)}
        p = existing(r, cur, focus)
        return p and {"op": "replace", "path": ptr(p), "value": gen_doc(r, 2, top=False)}
    if kind in ("move", "copy"):
        f = existing(r, cur, focus, nonroot=(kind == "move" or r.random() < 0.9))
        if f is None:
            return None
        # target computed in the document as it is after the removal (move) / as it is (copy)
        base = cur
        if kind == "move":
            base = copy.deepcopy(cur)
            try:
                base, _ = R._remove(base, list(f))
            except R.PatchError:
                return None
        if allow_root and r.random() < 0.02:
            return {"op": kind, "from": ptr(f), "path": ""}
        k = r.random()
        if k < 0.25:
            t = existing(r, base, focus)       # overwrite an existing location (object member) / insert before it
        else:
            t = new_slot(r, base, focus)
        if t is None:
            return None
        if kind == "move" and len(f) < len(t) and t[:len(f)] == f:
            return None
        return {"op": kind, "from": ptr(f), "path": ptr(t)}
    if kind == "test":
        p = existing(r, cur, focus, nonroot=r.random() < 0.85)
        if p is None:
            return None
        v = copy.deepcopy(R.resolve(cur, list(p)))
        if isinstance(v, dict) and len(v) > 1 and r.random() < 0.7:
            items = list(v.items())
            r.shuffle(items)
            v = dict(items)                      # member order must not matter
        return {"op": "test", "path": ptr(p), "value": v}
    if kind == "increment":
        nums = [p for p in all_paths(cur) if p and type(R.resolve(cur, list(p))) in (int, F64)]
        if not nums:
            return None
        p = r.choice(nums)
        t = R.resolve(cur, list(p))
        v = r.choice([1, -1, 5, 100, -1000, F64(0.5), F64(-2.25), F64(3.5), F64(-2.5)])
        if type(t) is int and r.random() < 0.3:
            # integer + integer beyond 2^53: the sum must be exact (no detour through a double)
            big = r.choice([(1 << 53) + 1, -(1 << 53) - 1, 1234567890123456789, -1234567890123456789, (1 << 62) + 3, (1 << 63) - 1 - abs(t)])
            if -(1 << 63) <= t + big < (1 << 63) or r.random() < 0.15:       # (an overflowing increment must be refused)
                v = big
        return {"op": "increment", "path": ptr(p), "value": v}
    if kind == "add_create":
        objs = [p for p in container_paths(cur) if isinstance(R.resolve(cur, list(p)), dict)]
        if not objs:
            return None
        p = r.choice(objs)
        extra = tuple(r.choice(["n1", "n2", "zz", "x", "foo"]) for _ in range(r.randrange(1, 4)))
        return {"op": "add_create", "path": ptr(p + extra), "value": gen_doc(r, 1, top=False)}
    if kind == "swap":
        f = existing(r, cur, focus)
        if f is None:
            return None
        if r.random() < 0.6:
            t = existing(r, cur, focus)
        else:
            t = new_slot(r, cur, focus)
        if t is None or f[:len(t)] == t or t[:len(f)] == f:
            return None
        # keep to the cases the extension's one-line description determines: both in different parents or
        # same parent; a move-style swap whose removal shifts the target array is left to the model comparison
        return {"op": "swap", "from": ptr(f), "path": ptr(t)}
    return None


def failing_op(r, cur, kind):
    """an operation RFC 6902 rejects in the current state: missing target, failed test, index beyond the end,
    move into own child, missing parent"""
    k = r.randrange(7)
    if k == 0:
        return {"op": "remove", "path": ptr(missing(r, cur))}
    if k == 1:
        return {"op": "replace", "path": ptr(missing(r, cur)), "value": scalar(r)}
    if k == 2:
        p = existing(r, cur, None, nonroot=False)
        v = copy.deepcopy(R.resolve(cur, list(p)))
        w = mutate(r, v)
        return {"op": "test", "path": ptr(p), "value": w}
    if k == 3:
        return {"op": r.choice(["move", "copy"]), "from": ptr(missing(r, cur)), "path": ptr(new_slot(r, cur) or ("x",))}
    if k == 4:
        aps = array_paths(cur)
        if not aps:
            return {"op": "test", "path": ptr(missing(r, cur)), "value": scalar(r)}
        p = r.choice(aps)
        n = len(R.resolve(cur, list(p)))
        return {"op": "add", "path": ptr(p + (str(n + r.choice([1, 2, 50])),)), "value": scalar(r)}
    if k == 5:
        ps = [p for p in container_paths(cur) if p]
        if not ps:
            return {"op": "remove", "path": ptr(missing(r, cur))}
        f = r.choice(ps)
        c = R.resolve(cur, list(f))
        t = f + ((r.choice(KEYS),) if isinstance(c, dict) else ("0",))
        return {"op": "move", "from": ptr(f), "path": ptr(t)}
    m = missing(r, cur)
    return {"op": "add", "path": ptr(m + ("deep",)), "value": scalar(r)}


def mutate(r, v):
    """a value different from v (JSON equality)"""
    if isinstance(v, dict):
        w = dict(v)
        if w and r.random() < 0.5:
            k = r.choice(list(w))
            if r.random() < 0.5:
                del w[k]
            else:
                w[k] = mutate(r, w[k])
        else:
            w["extra~"] = 1
        return w
    if isinstance(v, list):
        w = list(v)
        if w and r.random() < 0.6:
            i = r.randrange(len(w))
            if r.random() < 0.4:
                del w[i]
            elif len(w) > 1 and r.random() < 0.4 and not _same(w[0], w[-1]):
                w[0], w[-1] = w[-1], w[0]
            else:
                w[i] = mutate(r, w[i])
        else:
            w.append(None)
        return w
    if isinstance(v, bool):
        return not v
    if isinstance(v, int):
        x = r.random()
        if x < 0.3:
            # a different integer that looks equal once the difference is narrowed to 32 bits, or whose difference overflows
            w = v + r.choice([1, -1, 2, 3]) * (1 << r.choice([32, 32, 33, 40, 63]))
            if -(1 << 63) <= w < (1 << 63):
                return w
            w = v - (w - v)
            if -(1 << 63) <= w < (1 << 63):
                return w
        if x < 0.8:
            w = v + r.choice([1, -1])
            return w if -(1 << 63) <= w < (1 << 63) else v - (w - v)      # stay inside int64 (the wire form cannot say more)
        return str(v)
    if isinstance(v, str):
        return v + "x" if r.random() < 0.7 else (v[:-1] if v else 0)
    if isinstance(v, F64):
        return F64(v.value + 1.0)
    return r.choice([0, False, "", [], {}])


def _same(a, b):
    from ._jwire import jeq
    return jeq(a, b)
