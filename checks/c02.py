"""C02: cursors enumerate and address records in key order, whatever preceded."""
from vlib import common as C
from vlib.diff import Case, differential
from checks import kvgen as G, c01

LEVEL = "proof"
MODULE = "IwModel.Props.C02"
THEOREMS = [
    "IwModel.C02.scan_next",
    "IwModel.C02.scan_prev",
    "IwModel.C02.scan_next_fuel",
    "IwModel.C02.seek_eq_spec",
    "IwModel.C02.seek_ge_spec",
    "IwModel.C02.seek_lands",
    "IwModel.C02.cursor_set_spec",
    "IwModel.C02.cursor_del_spec",
    "IwModel.C02.cursor_write_nothing",
    "IwModel.C02.position_local",
    # bridge to C19: the same for the comparator the store uses, no comparator hypothesis
    "IwModel.C02.seek_eq_spec_on",
    "IwModel.C02.seek_ge_spec_on",
    "IwModel.C02.cursor_write_spec_on",
    "IwModel.C02.store_scan",
    "IwModel.C02.plain_scan_next",
    "IwModel.C02.compound_scan_next",
    "IwModel.C02.vnum_scan_next",
    "IwModel.C02.real_scan_next",
    "IwModel.C02.store_seek_eq",
    "IwModel.C02.store_seek_ge",
    "IwModel.C02.store_cursor_write",
]
# C functions this check's models mirror (source-text fingerprints are recorded in the evidence, see translate/funchash.py)
MODELLED_FUNCS = {'src/kv/iwkv.c': ['_cursor_to_lr', '_cursor_get_ge_idx', 'iwkv_cursor_open', 'iwkv_cursor_to', 'iwkv_cursor_to_key', 'iwkv_cursor_get', 'iwkv_cursor_copy_val', 'iwkv_cursor_copy_key', 'iwkv_cursor_is_matched_key', 'iwkv_cursor_seth', 'iwkv_cursor_del']}
MANIFEST = dict(
    level="proof",
    text=("Lean 4 theorems over the cursor state machine of the node-level KV model (scan order, EQ/GE as the code computes them, "
          "position-local reads/writes); tied to the code by cursor call sequences (moves past both ends and back, set/del without a "
          "preceding read, EQ/GE with absent keys next to node boundaries, all six key modes) replayed through the public cursor API "
          "and compared call by call with the compiled Lean model and with a python successor/predecessor oracle"),
    note=("trusted: Lean kernel, harness/generators, python oracle; modelled not verified: C control flow of the cursor functions; "
          "the oracle leaves reads in the gap after a cursor delete and moves after a failed move out of that gap unspecified"),
    technique="Lean 4 proof over cursor state machine + differential correspondence on cursor call sequences")


def near_key(r, fl, pool):
    k, c = r.choice(pool)
    if fl & G.VNUM:
        n = int.from_bytes(k, "little")
        n = max(0, min((1 << 63) - 1, n + r.choice([-1, 0, 0, 1, 2])))
        return n.to_bytes(8, "little"), c
    if r.random() < 0.5:
        return k, c + r.choice([0, 0, 1]) if fl & G.COMPOUND else c
    b = bytearray(k)
    x = r.random()
    if x < 0.4 and b:
        b[-1] = (b[-1] + r.choice([1, 255])) % 256
    elif x < 0.7:
        b.append(r.choice([0, 48, 255]))
    elif len(b) > 1:
        b.pop()
    return bytes(b), c


def gen_history(r, nbuild, ncur):
    fl = r.choice(G.FLAG_COMBOS)
    ops = ["open %d 1 0" % r.randrange(2), "db 1 %d" % fl]
    pool = G.make_pool(r, fl, r.choice([3, 40, 120, 300]))
    for _ in range(nbuild):
        k, c = r.choice(pool)
        if r.random() < 0.8:
            ops.append("put 1 %s %d %s 0 %d" % (G.H(k), c, G.H(G.gen_value(r, big=False)), G.gen_level(r)))
        else:
            ops.append("del 1 %s %d" % (G.H(k), c))
    ops += ["nodes 1"]
    opened = False
    for _ in range(ncur):
        x = r.random()
        if not opened or x < 0.03:
            y = r.random()
            if y < 0.4:
                ops.append("cur 0 open 1 %s" % r.choice(["bf", "al"]))
            else:
                k, c = near_key(r, fl, pool)
                ops.append("cur 0 open 1 %s %s %d" % (r.choice(["eq", "ge"]), G.H(k), c))
            opened = True
        elif x < 0.40:
            ops.append("cur 0 to %s" % r.choice(["next", "next", "prev", "prev", "next", "bf", "al"]))
        elif x < 0.55:
            k, c = near_key(r, fl, pool)
            ops.append("cur 0 tokey %s %s %d" % (r.choice(["eq", "ge", "ge"]), G.H(k), c))
        elif x < 0.75:
            sub = r.choice(["get", "key", "val", "cval %d" % r.choice([0, 3, 100]), "ckey %d" % r.choice([0, 3, 200])])
            ops.append("cur 0 " + sub)
        elif x < 0.80:
            k, c = near_key(r, fl, pool)
            ops.append("cur 0 match %s" % G.H(k))
        elif x < 0.90:
            ph = r.choice([0, 0, 0, 1, 2])
            ops.append("cur 0 set %s 0%s" % (G.H(G.gen_value(r, big=False)), " %d" % ph if ph else ""))
        elif x < 0.97:
            ops.append("cur 0 del")
        else:
            ops.append("dump 1")
    ops += ["cur 0 close", "dump 1", "nodes 1", "close"]
    return ops


def gen_seek_history(r, nbuild, nrounds):
    """one long-lived cursor: runs of deletes through the cursor (emptying nodes), puts through the database that create
    and recycle nodes, and EQ/GE seeks in between - positions are re-established by every seek, so the exact oracle applies"""
    fl = r.choice(G.FLAG_COMBOS)
    ops = ["open %d 1 0" % r.randrange(2), "db 1 %d" % fl]
    pool = G.make_pool(r, fl, r.choice([60, 150, 400]))
    for _ in range(nbuild):
        k, c = r.choice(pool)
        ops.append("put 1 %s %d %s 0 %d" % (G.H(k), c, G.H(G.gen_value(r, big=False)), G.gen_level(r)))
    ops.append("cur 0 open 1 bf")
    for _ in range(nrounds):
        k, c = r.choice(pool)
        ops.append("cur 0 tokey ge %s %d" % (G.H(k), c))
        for _ in range(r.choice([1, 3, 40, 90])):
            ops += ["cur 0 del", "cur 0 to next", "cur 0 key"]
        for _ in range(r.choice([5, 40, 120])):
            k, c = r.choice(pool)
            ops.append("put 1 %s %d %s 0 %d" % (G.H(k), c, G.H(G.gen_value(r, big=False)), G.gen_level(r)))
        for _ in range(r.choice([5, 30])):
            k, c = near_key(r, fl, pool)
            ops += ["cur 0 tokey %s %s %d" % (r.choice(["eq", "ge"]), G.H(k), c), "cur 0 key"]
        # the cursor stays where a seek put it while puts next to it fill and split its node: it must still address its record
        for _ in range(r.choice([0, 2, 6])):
            k, c = r.choice(pool)
            ops += ["cur 0 tokey ge %s %d" % (G.H(k), c), "cur 0 key"]
            for _ in range(r.choice([1, 8, 40])):
                k2, c2 = near_key(r, fl, pool)
                ops.append("put 1 %s %d %s 0 %d" % (G.H(k2), c2, G.H(G.gen_value(r, big=False)), G.gen_level(r)))
                if r.random() < 0.3:
                    ops.append("cur 0 get")
            ops += ["cur 0 key", "cur 0 to %s" % r.choice(["next", "prev"]), "cur 0 key"]
    ops += ["cur 0 close", "dump 1", "close"]
    return ops


def gen_scan(r, nbuild):
    """full forward and backward scans: the first sentence of the property"""
    fl = r.choice(G.FLAG_COMBOS)
    ops = ["open %d 1 0" % r.randrange(2), "db 1 %d" % fl]
    pool = G.make_pool(r, fl, r.choice([5, 60, 200]))
    n = 0
    for _ in range(nbuild):
        k, c = r.choice(pool)
        if r.random() < 0.85:
            ops.append("put 1 %s %d %s 0 %d" % (G.H(k), c, G.H(G.gen_value(r, big=False)), G.gen_level(r)))
        else:
            ops.append("del 1 %s %d" % (G.H(k), c))
    # sibling databases created / destroyed after the records exist (their headers neighbour this one in the chain)
    if r.random() < 0.6:
        ops.append("db 2 %d" % r.choice(G.FLAG_COMBOS))
        if r.random() < 0.5:
            ops.append("db 3 %d" % r.choice(G.FLAG_COMBOS))
            ops.append("dbdestroy 2")
        if r.random() < 0.3:
            ops += ["close", "open %d 0 0" % r.randrange(2), "db 1 %d" % fl]
    ops.append("cur 0 open 1 bf")
    for _ in range(len(pool) + 2):
        ops += ["cur 0 to next", "cur 0 get"]
    ops.append("cur 0 to al")
    for _ in range(len(pool) + 2):
        ops += ["cur 0 to prev", "cur 0 key"]
    ops += ["cur 0 close", "close"]
    return ops


def make_case(r, kind):
    if kind == "scan":
        ops = gen_scan(r, r.choice([0, 10, 150, 500]))
    elif kind == "seek":
        ops = gen_seek_history(r, r.choice([100, 400]), r.choice([2, 4]))
    else:
        ops = gen_history(r, r.choice([0, 5, 60, 300, 700]), r.choice([60, 200]))
    ref = G.Ref()
    exp = [ref.apply(l) for l in ops]

    def oracle(out, ops=ops, exp=exp):
        for i, (o, e) in enumerate(zip(out, exp)):
            if e is not None and o != e:
                return "op %d `%s`: cursor/store answered `%s`, reference says `%s`" % (i, ops[i][:120], o[:200], e[:200])
        return None
    return Case(kind, ops, oracle, key=hash(tuple(ops)))


def explore(ctx, h, drv, n, label):
    r = C.Rng(ctx.seed, "c02/" + label)
    cases = [make_case(r, "scan" if i % 4 == 0 else "seek" if i % 4 == 1 else "cursor") for i in range(n)]
    for c in cases[:2]:
        ctx.sample(dict(kind=c.kind, last_ops=c.ops[-12:], n_ops=len(c.ops)))
    for c in cases:
        for l in c.ops:
            w = l.split()
            ctx.hist("op:" + (w[0] if w[0] != "cur" else "cur-" + w[2] + ("-" + w[3] if w[2] in ("to", "tokey", "open") and len(w) > 3 and not w[3].isdigit() else "")))
    probs = differential(ctx, [h, C.scratch() + "/kv2-%s.db" % label], [drv, "kv"] if drv else None, cases, timeout=900)
    for c, p in probs:
        if p[0] == "diverge":
            ctx.corr_broken.append("model/implementation diverge at op %d `%s`: impl `%s` model `%s`" % (p[1], c.ops[p[1]][:100], p[2][:160], p[3][:160]))
            if len(ctx.corr_broken) <= 3:
                import os
                os.makedirs(ctx.replay_dir, exist_ok=True)
                open(os.path.join(ctx.replay_dir, "diverge-%d.txt" % len(ctx.corr_broken)), "w").write("\n".join(c.ops[:p[1] + 1] + ["close"]) + "\n")
                ctx.log("DIVERGE op", p[1], c.ops[p[1]][:100], "| impl:", p[2][:160], "| model:", p[3][:160])
        else:
            ops = c.ops
            if p[0] == "oracle" and len(ctx.violations) < 2:
                ops = c01.shrink(ctx, h, c)
            ctx.fail(c01.signature(c, p), dict(ops=ops, detail=p[1:]), str(p[1])[:400])
    return probs


def run(ctx):
    ctx.cov["rule"] = ("a case is a store built by a random put/delete history (0-700 ops, forced levels, one of six key modes) followed by a "
                       "cursor program of 60-200 calls (open bf/al/eq/ge, next/prev past both ends and back, tokey eq/ge with keys equal to / one byte "
                       "off stored keys, get/key/val/copy_val/copy_key/is_matched, set with and without handler, del) or by full NEXT and PREV scans; "
                       "distinct = distinct op text")
    ctx.translate()
    ok, drv_ok = ctx.prove(MODULE, THEOREMS)
    impl = C.build_impl("asan")
    h = C.build_harness(impl, *c01.HARNESS[:2], exclude=c01.HARNESS[2])
    drv = C.drv_path() if drv_ok else None
    explore(ctx, h, drv, 120 if ctx.tier == "quick" else 2000, "main")
    if (ctx.proof_broken or ctx.corr_broken) and not ctx.violations:
        for i in range(3):
            explore(ctx, h, drv, 150, "search%d" % i)


replay = c01.replay
