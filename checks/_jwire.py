"""Wire form of JSON documents (lean/IwModel/Model/JVal.lean, harness/hx_json.h) <-> python values.

python side: None, bool, int, F64(bits), str (UTF-8 on the wire), list, dict (insertion ordered, unique keys)."""
import binascii, struct


class F64:
    __slots__ = ("bits",)

    def __init__(self, x):
        self.bits = x if isinstance(x, int) else struct.unpack("<Q", struct.pack("<d", x))[0]

    @property
    def value(self):
        return struct.unpack("<d", struct.pack("<Q", self.bits))[0]

    def __eq__(self, o):
        return isinstance(o, F64) and o.bits == self.bits

    def __hash__(self):
        return hash(("F64", self.bits))

    def __repr__(self):
        return "F64(%r)" % self.value


def hx(b):
    return binascii.hexlify(b).decode() or "-"


def to_wire(v):
    out = []
    _w(v, out)
    return " ".join(out)


def _w(v, out):
    if v is None:
        out.append("n")
    elif v is True:
        out.append("t")
    elif v is False:
        out.append("f")
    elif isinstance(v, int):
        out.append("i%d" % v)
    elif isinstance(v, F64):
        out.append("d%016x" % v.bits)
    elif isinstance(v, str):
        out.append("s" + hx(v.encode("utf-8")))
    elif isinstance(v, bytes):
        out.append("s" + hx(v))
    elif isinstance(v, list):
        out.append("a%d" % len(v))
        for x in v:
            _w(x, out)
    elif isinstance(v, dict):
        out.append("o%d" % len(v))
        for k, x in v.items():
            out.append("k" + hx(k.encode("utf-8") if isinstance(k, str) else k))
            _w(x, out)
    elif isinstance(v, Pairs):
        out.append("o%d" % len(v.items))
        for k, x in v.items:
            out.append("k" + hx(k.encode("utf-8") if isinstance(k, str) else k))
            _w(x, out)
    else:
        raise TypeError(v)


class Pairs:
    """object with possibly duplicate keys (malformed stream only)"""

    def __init__(self, items):
        self.items = list(items)


def _unhex(s):
    return b"" if s == "-" else binascii.unhexlify(s)


def from_wire(text):
    toks = text.split() if isinstance(text, str) else list(text)
    v, rest = _r(toks, 0)
    if rest != len(toks):
        raise ValueError("trailing tokens")
    return v


def _txt(b):
    try:
        return b.decode("utf-8")
    except UnicodeDecodeError:
        return b


def _r(t, i):
    k = t[i]
    c, body = k[0], k[1:]
    if c == "n":
        return None, i + 1
    if c == "t":
        return True, i + 1
    if c == "f":
        return False, i + 1
    if c == "i":
        return int(body), i + 1
    if c == "d":
        return F64(int(body, 16)), i + 1
    if c == "s":
        return _txt(_unhex(body)), i + 1
    if c == "a":
        n, i, out = int(body), i + 1, []
        for _ in range(n):
            v, i = _r(t, i)
            out.append(v)
        return out, i
    if c == "o":
        n, i, out, dup = int(body), i + 1, {}, False
        items = []
        for _ in range(n):
            key = _txt(_unhex(t[i][1:]))
            v, i = _r(t, i + 1)
            dup = dup or key in out
            out[key] = v
            items.append((key, v))
        return (Pairs(items) if dup else out), i
    raise ValueError("bad token " + k)


def jeq(a, b):
    """JSON equality: objects unordered, bool is not int, F64 by bits."""
    if isinstance(a, bool) or isinstance(b, bool):
        return a is b
    if a is None or b is None:
        return a is b
    if isinstance(a, dict):
        return isinstance(b, dict) and a.keys() == b.keys() and all(jeq(a[k], b[k]) for k in a)
    if isinstance(a, list):
        return isinstance(b, list) and len(a) == len(b) and all(jeq(x, y) for x, y in zip(a, b))
    return type(a) is type(b) and a == b
