"""C19: number codecs round-trip and key comparators are total orders."""
import binascii
from fractions import Fraction
from vlib import common as C
from vlib.diff import Case, differential

LEVEL = "proof"
# C functions this check's models mirror (source-text fingerprints are recorded in the evidence, see translate/funchash.py)
MODELLED_FUNCS = {'src/utils/iwconv.c': ['iwitoa', 'iwatoi', 'iwatoi2', 'iwhex2bin', 'iwbin2hex', 'iwafcmp'], 'src/kv/iwkv.c': ['_cmp_keys_prefix', '_cmp_keys', '_lx_sblk_cmp_key']}
MANIFEST = dict(
    level="proof",
    text=("Lean 4 theorems over executable models of the vnum codec, iwitoa/iwatoi, hex codec and the six key comparators "
          "(round-trip, size, bounds, total-order laws, prefix agreement) for all inputs; the models are tied to the code by a "
          "differential run of the real functions (incl. file-static comparators and _lx_sblk_cmp_key through a real store) "
          "against the compiled Lean definitions on boundary-biased inputs, and constants/threshold tables are regenerated from the source"),
    note=("trusted: Lean kernel, translator, harness/generator, gcc+ASan/UBSan; modelled not verified: the C control flow of the "
          "functions named; fraction digits <= 15 and integer digits <= 18 in real-number keys (long double / int64 ranges)"),
    technique="Lean 4 proof over executable model + differential correspondence (C harness vs compiled Lean driver)")
MODULE = "IwModel.Props.C19"
THEOREMS = [
    "IwModel.C19.vnum_dec_enc", "IwModel.C19.vnum_size", "IwModel.C19.vnum_enc_wf", "IwModel.C19.vnum_thresholds_ok",
    "IwModel.C19.atoi_itoaSpec", "IwModel.C19.wrap64_id", "IwModel.C19.atoi_itoaSpec_wrap", "IwModel.C19.itoa_bounds",
    "IwModel.C19.itoa_bounds64", "IwModel.C19.itoa_refines_spec", "IwModel.C19.atoi_itoa", "IwModel.C19.itoaSpec_length_le", "IwModel.C19.atoi_itoa64", "IwModel.C19.ascii2hex_ok",
    "IwModel.C19.hex_roundtrip", "IwModel.C19.plain_antisymm", "IwModel.C19.plain_eq_iff", "IwModel.C19.plain_compound_eq_iff",
    "IwModel.C19.plain_trans", "IwModel.C19.plain_order", "IwModel.C19.vnum_numeric", "IwModel.C19.vnum_compound_numeric",
    "IwModel.C19.vnum_total", "IwModel.C19.real_total", "IwModel.C19.real_total_linear", "IwModel.C19.real_keys_total",
    "IwModel.C19.real_keys_total_both", "IwModel.C19.prefix_agrees_plain", "IwModel.C19.prefix_agrees_compound", "IwModel.C19.prefix_agrees_compound64",
    "IwModel.C19.prefix_agrees_short", "IwModel.C19.prefix_old_rule_disagrees_witness",
]

H = lambda b: binascii.hexlify(bytes(b)).decode() or "-"


def venc(n):
    out = []
    while n >= 128:
        out.append(255 - n % 128)
        n //= 128
    out.append(n)
    return bytes(out)


def boundary_u64(r):
    k = r.randrange(0, 10)
    base = 1 << (7 * k)
    return r.choice([0, 1, base - 1, base, base + 1, (1 << 63) - 1, r.randrange(0, 1 << 63), r.randrange(0, 1 << 20),
                     r.randrange(max(0, base - 300), base + 300)])


def boundary_i64(r):
    k = r.randrange(0, 64)
    v = r.choice([0, 1, 9, 10, 99, 100, (1 << k) - 1, 1 << k, 10 ** r.randrange(0, 19), 10 ** r.randrange(1, 19) - 1,
                  (1 << 63) - 1, r.randrange(0, 1 << 63)])
    v = min(v, (1 << 63) - 1)
    return -v if r.random() < 0.5 else v


# ---------------------------------------------------------------- case generators

def case_vnum(r):
    n = r.choice([boundary_u64(r), boundary_u64(r), r.choice([1 << 63, (1 << 64) - 1, (1 << 63) + r.randrange(1 << 20)])])

    def oracle(out, n=n):
        w = out[0].split()
        if n >= 1 << 63:
            return None if w[1] == "overflow" else "vnum accepted %d >= 2^63: %s" % (n, out[0])
        if w[1] == "overflow":
            return "vnum rejected %d" % n
        ln = len(w[1]) // 2
        if int(w[3]) != n:
            return "vnum %d decodes to %s" % (n, w[3])
        if int(w[4]) != ln or int(w[2]) != ln:
            return "vnum %d: encoded length %d, reported size %s, decode step %s" % (n, ln, w[2], w[4])
        return None
    return Case("vnum", ["vnum %d" % n], oracle)


def case_vdec(r):
    # arbitrary buffers (terminated or not): model/impl comparison only
    n = r.randrange(1, 12)
    b = bytearray(r.choice([r.randrange(128, 256), r.randrange(0, 256)]) for _ in range(n))
    # at most 8 continuation bytes: a 10th group would shift the macro's int64_t base to 2^63 (UB on an
    # input no encoder call can produce: values < 2^63 take at most 9 bytes), which is outside C19
    if n > 8 and all(x >= 128 for x in b[:9]):
        b[8] = r.randrange(0, 128)
    return Case("vdec", ["vdec " + H(bytes(b))])


def case_itoa(r):
    v = boundary_i64(r)
    if r.random() < 0.03:
        v = -(1 << 63)
    s = str(v)
    mx = r.choice([32, 24, 21, len(s) + 1, len(s) + 2, len(s), max(0, len(s) - 1), r.randrange(0, 24), r.randrange(0, 4)])

    def oracle(out, v=v, s=s, mx=mx):
        w = out[0].split()
        mem = bytes.fromhex(w[2])
        if mem[:8] != b"\xaa" * 8 or mem[8 + mx:] != b"\xaa" * 8:
            return "iwitoa(%d, buf, %d) stored outside buf[0..%d): guard cells %s|%s" % (v, mx, mx, mem[:8].hex(), mem[8 + mx:].hex())
        if mx > len(s):
            got = mem[8:8 + mx].split(b"\0")[0].decode("latin1")
            if got != s or int(w[1]) != len(s):
                return "iwitoa(%d, buf, %d) gave %r ret=%s" % (v, mx, got, w[1])
        a = out[1].split()
        if len(a) != 2 or int(a[1]) != v:
            return "iwatoi(%r) = %s" % (s, out[1])
        return None
    return Case("itoa", ["itoa %d %d" % (v, mx), "atoi " + H(s.encode())], oracle, key=("itoa", v, mx))


def case_atoi_text(r):
    # arbitrary numeric-looking text; <= 18 digits so that int64 arithmetic does not overflow (see C17 for the rest)
    s = r.choice(["", " ", "  \t", "\n"]) + r.choice(["", "-", "+", "--"]) + r.choice(["", "inf", "in", "0", "00"])
    s += "".join(r.choice("0123456789") for _ in range(r.randrange(0, 17))) + r.choice(["", "x", ".5", " 1", "e3"])
    return Case("atoi-text", ["atoi " + H(s.encode())])


def case_hex(r):
    b = bytes(r.randrange(256) for _ in range(r.randrange(0, 40)))
    hx = binascii.hexlify(b)
    if r.random() < 0.3:
        hx = hx.upper()
    mx = max(1, len(b) + r.choice([0, 1, 5]))

    def oracle(out, b=b):
        if out[0].split()[1] != H(binascii.hexlify(b)):
            return "iwbin2hex(%s) = %s" % (b.hex(), out[0])
        if len(b) and out[1].split()[1] != H(b):
            return "iwhex2bin(iwbin2hex(%s)) = %s" % (b.hex(), out[1])
        return None
    ops = ["bin2hex " + H(b), "hex2bin %s %d" % (H(hx), mx)]
    # odd length / non-hex characters / small max: model comparison only
    junk = bytes(r.choice(b"0123456789abcdefABCDEFgz /") for _ in range(r.randrange(1, 12)))
    ops.append("hex2bin %s %d" % (H(junk), r.randrange(1, 8)))
    return Case("hex", ops, oracle)


def gen_plain_keys(r):
    base = bytes(r.randrange(256) for _ in range(140))
    L = r.choice([1, 2, 5, 100, 113, 114, 115, 116, 117, 120, 130])

    def one():
        k = bytearray(base[:max(1, L + r.choice([-2, -1, 0, 0, 1, 2, 10]))])
        if r.random() < 0.6 and k:
            i = r.choice([len(k) - 1, r.randrange(len(k)), min(len(k) - 1, 114), min(len(k) - 1, 115)])
            k[i] = r.choice([0, 1, 127, 128, 255, r.randrange(256)])
        return bytes(k)
    return one


def gen_real_text(r, weird=False):
    s = r.choice(["", "", " ", "  "]) + r.choice(["", "", "-"])
    s += r.choice(["", "0", "00", "7", str(r.randrange(0, 1000)), str(r.randrange(0, 10 ** r.randrange(1, 18)))])
    if r.random() < 0.6:
        s += "." + "".join(r.choice("0123456789") for _ in range(r.randrange(0, 15)))
    s += r.choice(["", "", "", "x", " ", "0"])
    if not s:
        s = "0"
    return s.encode()


def real_value(b):
    """numeric value iwafcmp is meant to read: blanks, sign, digits, optional fraction (>=1 byte after '.')"""
    s = b.decode("latin1").lstrip("".join(chr(i) for i in range(33)) + "\x7f")
    sign = 1
    if s.startswith("-"):
        sign, s = -1, s[1:]
    i = 0
    while i < len(s) and s[i].isdigit():
        i += 1
    ip = int(s[:i] or "0")
    rest = s[i:]
    fr = Fraction(0)
    if len(rest) > 1 and rest[0] == ".":
        j = 1
        while j < len(rest) and rest[j].isdigit():
            j += 1
        if j > 1:
            fr = Fraction(int(rest[1:j]), 10 ** (j - 1))
    return sign * (ip + fr)


def case_cmp(r):
    mode = r.choice(["plain", "plain", "vnum", "real"])
    comp = r.randrange(2)
    if mode == "plain":
        g = gen_plain_keys(r)
        bodies = [g() for _ in range(3)]
    elif mode == "vnum":
        base = boundary_u64(r)
        bodies = [venc(min((1 << 63) - 1, max(0, base + r.choice([-1, 0, 1, 0, 128, r.randrange(1 << 40)])))) for _ in range(3)]
    else:
        bodies = [gen_real_text(r) for _ in range(3)]
        if r.random() < 0.3:
            bodies[1] = bodies[0] + r.choice([b"0", b" ", b".0"])
    cbase = boundary_u64(r) % (1 << 62)
    comps = [max(0, cbase + r.choice([-1, 0, 0, 1])) if comp else 0 for _ in range(3)]
    if mode == "plain" and comp and r.random() < 0.3:
        # F39: compound parts whose vnum encodings differ in length, bodies about as long as the body
        # part of the 115-byte cached prefix (115 - vnum size) and sharing it, decided by a late byte
        base = bytes(r.randrange(1, 255) for _ in range(140))
        sizes = [r.randrange(1, 10) for _ in range(3)]
        comps = [(128 ** (s - 1) if s > 1 else 0) + r.randrange(0, 100) for s in sizes]
        bodies = []
        for _ in range(3):
            b = bytearray(base[:r.choice([r.randrange(105, 117), r.randrange(117, 131)])])
            if r.random() < 0.7:
                b[-1] = (b[-1] + r.choice([1, 255])) % 256
            bodies.append(bytes(b))
    if comp and r.random() < 0.3:
        # same body, compound parts far apart: the difference does not fit an int (2^31, 2^32 and multiples, 2^62)
        bodies = [bodies[0]] * 3
        lo = r.choice([0, 1, cbase % (1 << 61)])
        comps = [lo] + [min((1 << 63) - 1, lo + r.choice([1, (1 << 31) - 1, 1 << 31, (1 << 31) + 1, (1 << 32) - 1, 1 << 32, (1 << 32) + 1,
                                                       3 << 31, 1 << 33, 5 << 32, 1 << 62, (1 << 62) + (1 << 32)])) for _ in range(2)]
        r.shuffle(comps)
    if r.random() < 0.3:
        bodies[2], comps[2] = bodies[0], comps[0]      # identical pair
    keys = list(zip(bodies, comps))
    ops = []
    for (sb, sc) in keys:
        for (kb, kc) in keys:
            st = (venc(sc) if comp else b"") + sb
            ops.append("cmp %s %d %s %s %d" % (mode, comp, H(st), H(kb), kc))
            ops.append("lxcmp %s %d %s %d %s %d" % (mode, comp, H(sb), sc, H(kb), kc))

    trip = [(i, j, k) for i in range(3) for j in range(3) for k in range(3) if i != j]
    trip = r.sample(trip, 6)
    for (i, j, k) in trip:
        ops.append("lxcmp2 %s %d %s %d %s %d %s %d" % (mode, comp, H(keys[i][0]), keys[i][1], H(keys[j][0]), keys[j][1], H(keys[k][0]), keys[k][1]))

    def oracle(out, keys=keys, mode=mode, trip=trip):
        full = [[0] * 3 for _ in range(3)]
        for i in range(3):
            for j in range(3):
                w = out[(i * 3 + j) * 2].split()
                lw = out[(i * 3 + j) * 2 + 1].split()
                full[i][j] = int(w[2])
                if lw[1] != w[2]:
                    return "cached-prefix comparison %s differs from full-key comparison %s for stored=%s key=%s (mode %s)" % (
                        lw[1], w[2], keys[i], keys[j], mode)
        for t, (i, j, k) in enumerate(trip):
            w = out[18 + t].split()
            exp = ["same", "same"] if full[i][j] == 0 else [str(full[j][k]), str(full[i][k])]
            if w[1:] != exp:
                return ("node holding %s and %s, one of them deleted again (cached first key refreshed): lookup key %s compares %s with the node, "
                        "full-key comparison with the remaining key says %s (mode %s)" % (keys[i], keys[j], keys[k], w[1:], exp, mode))
        for i in range(3):
            for j in range(3):
                same = keys[i] == keys[j]
                if full[i][j] != -full[j][i]:
                    return "not antisymmetric: cmp(%s,%s)=%d cmp(%s,%s)=%d (mode %s)" % (keys[i], keys[j], full[i][j], keys[j], keys[i], full[j][i], mode)
                if (full[i][j] == 0) != same:
                    return "cmp(%s,%s)=%d but keys %s (mode %s)" % (keys[i], keys[j], full[i][j], "identical" if same else "differ", mode)
                for k in range(3):
                    if full[i][j] > 0 and full[j][k] > 0 and not full[i][k] > 0:
                        return "not transitive on %s < %s < %s (mode %s)" % (keys[i], keys[j], keys[k], mode)
                if mode == "vnum":
                    ni, nj = vdec_py(keys[i][0]), vdec_py(keys[j][0])
                    exp = (nj > ni) - (nj < ni) or ((keys[j][1] > keys[i][1]) - (keys[j][1] < keys[i][1]))
                    if full[i][j] != exp:
                        return "vnum order: cmp(stored %d/%d, key %d/%d) = %d" % (ni, keys[i][1], nj, keys[j][1], full[i][j])
                if mode == "real":
                    vi, vj = real_value(keys[i][0]), real_value(keys[j][0])
                    if vi != vj and full[i][j] != ((vj > vi) - (vj < vi)):
                        return "real order: stored %r key %r cmp=%d" % (keys[i][0], keys[j][0], full[i][j])
        return None
    return Case("cmp-" + mode + ("-compound" if comp else ""), ops, oracle)


def vdec_py(b):
    n, base = 0, 1
    for x in b:
        if x < 128:
            return n + base * x
        n += base * (255 - x)
        base *= 128
    return n


def case_real_nul(r):
    # malformed stream: NUL bytes inside real-number keys (strncmp tie-break stops at NUL)
    a = gen_real_text(r) + b"\0" + bytes([r.randrange(1, 255)])
    b = a[:-1] + bytes([(a[-1] % 254) + 1])
    ops = ["afcmp %s %s" % (H(a), H(b)), "afcmp %s %s" % (H(b), H(a))]

    def oracle(out, a=a, b=b):
        x, y = int(out[0].split()[1]), int(out[1].split()[1])
        if a != b and (x == 0 or y == 0):
            return "distinct real-number keys %r and %r compare equal" % (a, b)
        return None
    return Case("real-nul", ops, oracle)


GENS = [(case_vnum, 3), (case_vdec, 1), (case_itoa, 4), (case_atoi_text, 1), (case_hex, 2), (case_cmp, 5), (case_real_nul, 0.3)]


def gen_cases(r, n):
    tot = sum(w for _, w in GENS)
    out = []
    for _ in range(n):
        x = r.random() * tot
        for g, w in GENS:
            x -= w
            if x <= 0:
                out.append(g(r))
                break
    return out


def signature(case, prob):
    if prob[0] == "crash":
        return dict(kind="crash", site=prob[1]["site"], what=prob[1]["kind"])
    op = case.kind
    msg = prob[1] if prob[0] == "oracle" else ""
    cls = ""
    if "stored outside" in msg:
        cls = "itoa-oob"
    elif "compare equal" in msg:
        cls = "real-nul-equal"
    return dict(kind=prob[0], op=op, cls=cls)


def explore(ctx, h, drv, n, label):
    r = C.Rng(ctx.seed, "c19/" + label)
    cases = gen_cases(r, n)
    for c in cases[:3]:
        ctx.sample(dict(kind=c.kind, ops=c.ops[:4]))
    probs = differential(ctx, [h, C.scratch() + "/c19.db"], [drv, "c19"] if drv else None, cases, timeout=600)
    for c, p in probs:
        if p[0] == "diverge":
            ctx.corr_broken.append("model/implementation diverge on `%s`: impl `%s` model `%s`" % (c.ops[p[1]], p[2], p[3]))
            if len(ctx.corr_broken) <= 5:
                ctx.log("DIVERGE", c.ops[p[1]], "| impl:", p[2], "| model:", p[3])
        else:
            ctx.fail(signature(c, p), dict(case=c.kind, ops=c.ops, impl=c.impl, detail=p[1:]), str(p[1])[:400])
    return probs


def run(ctx):
    ctx.cov["rule"] = ("cases drawn from boundary-biased generators (powers of 128 and 10, int64 limits, keys sharing 100-130 byte prefixes "
                       "around the 115-byte cache, numeric strings with signs/blanks/fractions, compound parts around vnum thresholds); "
                       "a case is a group of op lines with one oracle; distinct = distinct op text; every case is non-trivial (exercises a codec or a comparator)")
    ctx.assumptions += ["fraction parts of real-number keys have at most 15 digits (long-double accumulation is then order-exact; not proved)",
                        "integer parts have at most 18 digits (int64 arithmetic in iwafcmp/iwatoi does not overflow; longer inputs belong to C17)"]
    ctx.translate()
    ok, drv_ok = ctx.prove(MODULE, THEOREMS)
    impl = C.build_impl("asan")
    h = C.build_harness(impl, "h_c19", ["h_c19.c"], exclude=("iwkv.c",))
    drv = C.drv_path() if drv_ok else None
    n = 3000 if ctx.tier == "quick" else 40000
    explore(ctx, h, drv, n, "main")
    if (ctx.proof_broken or ctx.corr_broken) and not ctx.violations:
        ctx.log("obligation or correspondence broken: widening the search for a failing input")
        for i in range(4):
            explore(ctx, h, drv, 6000, "search%d" % i)
    return


def replay(ctx, obj):
    impl = C.build_impl("asan")
    h = C.build_harness(impl, "h_c19", ["h_c19.c"], exclude=("iwkv.c",))
    rc, o, e = C.run_lines([h, C.scratch() + "/c19.db"], obj["replay"]["ops"])
    print("\n".join(o))
    print(e[-2000:])
    ctx.case("replay")
    ctx.case("replay2")
