"""Reference implementations used as oracles: RFC 6901 pointers, RFC 6902 JSON Patch (+ the three iowow extensions as
their header comments describe them), RFC 7386 JSON Merge Patch.  Written from the RFC texts, independent of the
Lean model and of the C code.  Values: None, bool, int, F64, str, list, dict (see _jwire)."""
import copy
from ._jwire import F64, jeq


class PatchError(Exception):
    def __init__(self, reason, detail=""):
        Exception.__init__(self, reason + (": " + detail if detail else ""))
        self.reason = reason


# ---------------------------------------------------------------- RFC 6901

def parse_pointer(p):
    if p == "":
        return []
    if not p.startswith("/"):
        raise PatchError("pointer-syntax", p)
    segs = p[1:].split("/")
    out = []
    for s in segs:
        i = 0
        r = []
        while i < len(s):
            if s[i] == "~":
                if i + 1 < len(s) and s[i + 1] in "01":
                    r.append("~" if s[i + 1] == "0" else "/")
                    i += 2
                    continue
                raise PatchError("pointer-syntax", p)
            r.append(s[i])
            i += 1
        out.append("".join(r))
    return out


def escape(seg):
    return seg.replace("~", "~0").replace("/", "~1")


def make_pointer(segs):
    return "".join("/" + escape(s) for s in segs)


def array_index(seg, n, allow_end=False):
    """position denoted by `seg` in an array of length n; `-` only when allow_end"""
    if seg == "-":
        if allow_end:
            return n
        raise PatchError("dash-nonexistent")
    if seg == "" or not all(c in "0123456789" for c in seg) or (len(seg) > 1 and seg[0] == "0"):
        raise PatchError("index-syntax", seg)
    i = int(seg)
    if i > n or (i == n and not allow_end):
        raise PatchError("index-range", seg)
    return i


def resolve(doc, segs):
    cur = doc
    for s in segs:
        if isinstance(cur, dict):
            if s not in cur:
                raise PatchError("missing-member", s)
            cur = cur[s]
        elif isinstance(cur, list):
            cur = cur[array_index(s, len(cur))]
        else:
            raise PatchError("not-a-container", s)
    return cur


# ---------------------------------------------------------------- RFC 6902

def _add(doc, segs, value):
    if not segs:
        return value
    parent = resolve(doc, segs[:-1])
    last = segs[-1]
    if isinstance(parent, dict):
        parent[last] = value
    elif isinstance(parent, list):
        parent.insert(array_index(last, len(parent), allow_end=True), value)
    else:
        raise PatchError("not-a-container", last)
    return doc


def _remove(doc, segs):
    if not segs:
        raise PatchError("remove-root")
    parent = resolve(doc, segs[:-1])
    last = segs[-1]
    if isinstance(parent, dict):
        if last not in parent:
            raise PatchError("missing-member", last)
        return doc, parent.pop(last)
    if isinstance(parent, list):
        return doc, parent.pop(array_index(last, len(parent)))
    raise PatchError("not-a-container", last)


def num_add(t, v):
    """`increment` as the C header describes it ("Value increment"): number + number, keeping the target's kind"""
    if isinstance(t, bool) or isinstance(v, bool):
        raise PatchError("increment-type")
    if isinstance(t, int) and isinstance(v, int):
        r = t + v
        if not -(1 << 63) <= r < (1 << 63):
            raise PatchError("increment-overflow")
        return r
    if isinstance(t, F64) and isinstance(v, F64):
        return F64(t.value + v.value)
    if isinstance(t, F64) and isinstance(v, int):
        return F64(t.value + float(v))
    if isinstance(t, int) and isinstance(v, F64):
        if not (-9223372036854775808.0 <= v.value < 9223372036854775808.0):      # also false for NaN
            raise PatchError("increment-overflow")
        r = t + int(v.value)
        if not -(1 << 63) <= r < (1 << 63):
            raise PatchError("increment-overflow")
        return r
    raise PatchError("increment-type")


def apply_op(doc, op):
    """returns the new document; raises PatchError"""
    kind = op.get("op")
    if not isinstance(kind, str) or "path" not in op or not isinstance(op["path"], str):
        raise PatchError("malformed-op")
    path = parse_pointer(op["path"])
    if kind in ("add", "replace", "test", "increment", "add_create") and "value" not in op:
        raise PatchError("no-value")
    if kind in ("move", "copy", "swap"):
        if not isinstance(op.get("from"), str):
            raise PatchError("no-from")
        frm = parse_pointer(op["from"])
    if kind == "add":
        return _add(doc, path, copy.deepcopy(op["value"]))
    if kind == "remove":
        return _remove(doc, path)[0]
    if kind == "replace":
        resolve(doc, path)
        if not path:
            return copy.deepcopy(op["value"])
        doc, _ = _remove(doc, path)
        return _add(doc, path, copy.deepcopy(op["value"]))
    if kind == "move":
        if len(frm) < len(path) and path[:len(frm)] == frm:
            raise PatchError("move-into-self")
        v = resolve(doc, frm)
        if not frm:
            return doc if not path else _add(doc, path, v)      # from == path == "": nothing moves
        doc, v = _remove(doc, frm)
        return _add(doc, path, v)
    if kind == "copy":
        return _add(doc, path, copy.deepcopy(resolve(doc, frm)))
    if kind == "test":
        if not jeq(resolve(doc, path), op["value"]):
            raise PatchError("test-failed")
        return doc
    # ---- extensions (iwjson.h: "Value increment", "Create intermediate object nodes for missing path segments",
    #      "Swap values of two nodes")
    if kind == "increment":
        cur = resolve(doc, path)
        new = num_add(cur, op["value"])
        if not path:
            return new
        parent = resolve(doc, path[:-1])
        if isinstance(parent, dict):
            parent[path[-1]] = new
        else:
            parent[array_index(path[-1], len(parent))] = new
        return doc
    if kind == "add_create":
        try:
            resolve(doc, path[:-1])
        except PatchError:
            cur = doc
            for s in path[:-1]:
                if isinstance(cur, dict):
                    if s not in cur:
                        cur[s] = {}
                    cur = cur[s]
                elif isinstance(cur, list):
                    # "intermediate object nodes for missing path segments": an array on the way is not covered
                    raise PatchError("addcreate-unspecified")
                else:
                    raise PatchError("not-a-container", s)
        return _add(doc, path, copy.deepcopy(op["value"]))
    if kind == "swap":
        a = resolve(doc, frm)
        try:
            b = resolve(doc, path)
        except PatchError:
            if frm and isinstance(resolve(doc, frm[:-1]), list) and path[:len(frm) - 1] == frm[:-1]:
                # removing `from` shifts the indexes `path` goes through: "swap values of two nodes" does not say
                # whether path is read before or after
                raise PatchError("swap-unspecified")
            try:
                doc, v = _remove(doc, frm)
                return _add(doc, path, v)
            except PatchError:
                raise PatchError("swap-unspecified")
        if not frm or not path or frm[:len(path)] == path or path[:len(frm)] == frm:
            raise PatchError("swap-overlap")
        pa, pb = resolve(doc, frm[:-1]), resolve(doc, path[:-1])
        ka = frm[-1] if isinstance(pa, dict) else array_index(frm[-1], len(pa))
        kb = path[-1] if isinstance(pb, dict) else array_index(path[-1], len(pb))
        pa[ka], pb[kb] = b, a
        return doc
    raise PatchError("unknown-op", kind)


def apply_patch(doc, ops):
    """RFC 6902 section 3/5: all or nothing.  Returns (True, result, None) or (False, None, (index, reason))."""
    cur = copy.deepcopy(doc)
    for i, op in enumerate(ops):
        try:
            cur = apply_op(cur, copy.deepcopy(op))
        except PatchError as e:
            return False, None, (i, e.reason)
    return True, cur, None


# ---------------------------------------------------------------- RFC 7386

def merge_patch(target, patch):
    if isinstance(patch, dict):
        if not isinstance(target, dict):
            target = {}
        else:
            target = dict(target)
        for name, value in patch.items():
            if value is None:
                target.pop(name, None)
            else:
                target[name] = merge_patch(target.get(name), value)
        return target
    return copy.deepcopy(patch)
