"""C20: task executors run every accepted task exactly once and drain on shutdown."""
import os, re
from vlib import common as C
from vlib.diff import Case, differential

LEVEL = "proof"
# C functions this check's models mirror (source-text fingerprints are recorded in the evidence, see translate/funchash.py)
MODELLED_FUNCS = {'src/utils/iwstw.c': ['_worker_fn', 'iwstw_schedule', 'iwstw_schedule_only', 'iwstw_shutdown'], 'src/utils/iwtp.c': ['_worker_fn', 'iwtp_schedule', 'iwtp_shutdown']}
MANIFEST = dict(
    level="proof",
    text=("Lean 4 theorems (invariants over all interleavings, by induction on scheduler steps, any number of client threads / "
          "pool threads) about executable transition-system models of iwstw.c and iwtp.c with the mutex as atomicity boundary: "
          "accepted tasks are conserved (queued, running, finished or dropped - exactly once), the single worker starts tasks in "
          "acceptance order, a returning shutdown leaves nothing queued or running, non-waiting shutdown / schedule_only drop "
          "exactly the queue and report it to the discard callback, the bound on the queue, no lost wake-up, and deadlock "
          "freedom. The models are tied to the code by running the real executors under a deterministic scheduler (link-time "
          "--wrap of the pthread calls): the same schedule file drives the C code and the compiled Lean model and every critical "
          "section must produce the same events and the same struct state; free-running runs (ASan, TSan in thorough) are "
          "recorded and replayed through the model as well"),
    note=("trusted: Lean kernel, harness/scheduler/interposers, generators, gcc+ASan/TSan; modelled not verified: the C control flow "
          "of the functions named; schedules are sampled, not enumerated; liveness is stated as deadlock freedom (some thread can "
          "move), not as termination under fairness; use of an executor by a thread that is still inside a call when shutdown "
          "frees it is an open finding (reported, excluded from the theorems by the `uaf` flag)"),
    technique="Lean 4 proof over executable transition system + schedule-controlled differential correspondence and trace validation")
MODULE = "IwModel.Props.C20"
THEOREMS = ["IwModel.C20." + t for t in (
    "stw_inv stw_accepted_once stw_started_nodup stw_fifo stw_shutdown_drains stw_drop_exact stw_reported stw_bounded "
    "stw_full_policy stw_no_lost_wakeup stw_deadlock_free stw_disabled_step stw_unfixed_accepts_after_shutdown "
    "stw_unfixed_discard_crashes stw_uaf_reachable "
    "tp_inv tp_accepted_once tp_start_order tp_started_nodup tp_bounded tp_full_policy tp_no_lost_wakeup tp_deadlock_free "
    "tp_shutdown_drains tp_joins_all tp_drop_exact tp_never_reports tp_unfixed_accepts_after_shutdown "
    "tp_unfixed_overflow_thread_useless").split()]

WRAPS = ("pthread_mutex_lock", "pthread_mutex_unlock", "pthread_cond_wait", "pthread_cond_broadcast",
         "pthread_cond_signal", "pthread_create", "pthread_join", "pthread_detach")
SOURCES = ["h_c20.c", "h_c20_stw.c", "h_c20_tp.c"]
EXCLUDE = ("iwstw.c", "iwtp.c")


def build(variant="asan"):
    impl = C.build_impl(variant)
    return C.build_harness(impl, "h_c20", SOURCES, exclude=EXCLUDE, wraps=WRAPS)


# ---------------------------------------------------------------- schedule generators

def gen_case(r, tier="quick"):
    ex = r.choice(["stw", "stw", "stw", "tp", "tp"])
    ncl = r.choice([1, 2, 2, 3, 3, 4, 6, 8])
    if ex == "stw":
        limit = r.choice([0, 0, 1, 1, 2, 3])
        blocking = int(limit > 0 and r.random() < 0.55)
        cb = int(r.random() < 0.7)
        head = "new stw %d %d %d %d" % (limit, blocking, cb, ncl)
        nworkers = 1
        cfg = dict(ex=ex, limit=limit, blocking=blocking, cb=cb, ncl=ncl)
    else:
        nth = r.choice([1, 2, 2, 3, 4])
        limit = r.choice([0, 0, 1, 2, 3, 5])
        factor = r.choice([0, 0, 1, 2])
        head = "new tp %d %d %d %d" % (nth, limit, factor, ncl)
        nworkers = nth * (1 + factor)
        cfg = dict(ex=ex, limit=limit, nth=nth, factor=factor, ncl=ncl, blocking=0, cb=0)
    style = r.choice(["disciplined", "disciplined", "disciplined", "starved", "starved", "racy", "starved-racy"])
    nslots = r.choice([10, 25, 40, 70, 120]) if tier == "quick" else r.choice([10, 40, 120, 300])
    p_call = r.choice([0.15, 0.3, 0.5])
    ops = [head]
    tid = [0]
    wait = int(r.random() < 0.5)

    def call(i):
        tid[0] += 1
        x = r.random()
        if ex == "stw" and x < 0.08:
            return "call %d only %d" % (i, tid[0])
        if ex == "stw" and x < 0.18:
            return "call %d empty %d" % (i, tid[0])
        return "call %d sched %d" % (i, tid[0])

    def move():
        x = r.random()
        if x < 0.03:
            return "spur %s %d" % (r.choice("wc"), r.randrange(0, 4))
        if style.startswith("starved") and x < 0.75:
            return "step c %d %d" % (r.randrange(ncl), r.randrange(8))
        if x < 0.15:
            if r.random() < 0.5:
                return "step w %d %d" % (r.randrange(nworkers + 1), r.randrange(8))
            return "step c %d %d" % (r.randrange(ncl + 1), r.randrange(8))
        return "pick %d %d" % (r.randrange(64), r.randrange(8))

    sd_at = r.randrange(nslots // 2, nslots + 1)
    racy = style.endswith("racy")
    sd_done = False
    for k in range(nslots):
        if k == sd_at and r.random() < 0.85:
            if not racy:
                ops.append("settle")
            ops.append("call %d shutdown %d" % (r.randrange(ncl), wait))
            sd_done = True
            continue
        if r.random() < p_call and (racy or not sd_done):
            ops.append(call(r.randrange(ncl)))
        else:
            ops.append(move())
    if not racy and not sd_done and r.random() < 0.5:
        ops.append("settle")
        ops.append("call %d shutdown %d" % (r.randrange(ncl), wait))
        for _ in range(r.randrange(0, 12)):
            ops.append(move())
    ops.append("quiesce")
    ops.append("finish")
    kind = "%s-%s-%s" % (ex, "lim%d%s" % (min(cfg["limit"], 2), "b" if cfg["blocking"] else "") if cfg["limit"] else "unl", style)
    return Case(kind, ops, lambda out, ops=ops, cfg=cfg: oracle(cfg, ops, out))


# ---------------------------------------------------------------- oracle: the property on API-visible events

class Bad(Exception):
    pass


def parse_line(line):
    m = re.match(r"^(\S+?):? (?:(\S+) )?\| (.*)$", line)
    if not m:
        return None
    evs = [] if m.group(2) in ("-", None) else m.group(2).split(",")
    return m.group(1), evs, m.group(3)


def oracle(cfg, ops, out):
    """Reference bookkeeping at the level of the API: a FIFO of accepted tasks, fed with the events
    the harness observed (task start/end, discard callback, call returns, entry into pthread_join).
    Returns None or a message that starts with a class tag `[cls]`."""
    limit = cfg["limit"]
    queued = []            # accepted, neither started nor dropped, oldest first
    running = set()
    started, dropped = set(), set()
    pending = {}           # client -> (cmd, arg, begun after shutdown returned)
    recent_discards = []   # discard callbacks not yet attributed to a schedule_only / shutdown
    sd_client = None       # client whose shutdown call does the work
    sd_returned = False
    soft = []              # findings that do not stop the bookkeeping
    blocked = set()        # clients that have waited for room during their current call
    quiet_state = None

    def no_stray_discards(where):
        if recent_discards:
            raise Bad("[discard] discard callback reported %s outside schedule_only/shutdown (%s)" % (recent_discards, where))

    def drop_all(what):
        if cfg["cb"] and recent_discards != queued:
            raise Bad("[discard] %s dropped %s but the discard callback got %s" % (what, queued, recent_discards))
        if not cfg["cb"] and recent_discards:
            raise Bad("[discard] discard callback called though none was set")
        if not cfg["cb"] and queued and cfg["ex"] == "tp":
            soft.append("[tp-no-discard] %s dropped tasks %s without telling anyone (iwtp has no discard callback)" % (what, queued[:6]))
        dropped.update(queued)
        del queued[:]
        del recent_discards[:]

    try:
        if len(out) < len(ops):
            raise Bad("[protocol] %d result lines for %d ops" % (len(out), len(ops)))
        for op, line in zip(ops, out):
            w = op.split()
            p = parse_line(line)
            if p is None:
                raise Bad("[protocol] op `%s` answered `%s`" % (op, line[:200]))
            who, evs, state = p
            if w[0] == "call" and not evs:
                pending[int(w[1])] = (w[2], int(w[3]), sd_returned)
            if w[0] == "quiesce":
                quiet_state = state
            for e in evs:
                f = e.split(":")
                if f[0] == "start":
                    t = int(f[1])
                    no_stray_discards(e)
                    if t in started:
                        raise Bad("[twice] task %d started twice" % t)
                    if t in dropped:
                        raise Bad("[dropped-ran] task %d was dropped and then run" % t)
                    if t not in queued:
                        raise Bad("[unknown-task] task %d started but its scheduling call has not returned success" % t)
                    if queued[0] != t and cfg.get("free") and cfg["ex"] == "tp":
                        queued.remove(t)       # free-running pool: start lines of two workers may be logged out of pop order
                        queued.insert(0, t)
                    if queued[0] != t:
                        raise Bad("[order] task %d started before %d which was accepted earlier" % (t, queued[0]))
                    if sd_returned:
                        raise Bad("[late-run] task %d started after shutdown returned" % t)
                    queued.pop(0)
                    started.add(t)
                    running.add(t)
                elif f[0] == "fin":
                    t = int(f[1])
                    if t not in running:
                        raise Bad("[twice] task %d finished without running" % t)
                    running.discard(t)
                elif f[0] == "discard":
                    recent_discards.append(int(f[1]))
                elif f[0] == "join":
                    i = int(f[1])
                    c = pending.get(i)
                    if not c and w[0] == "finish":
                        c = pending[i] = ("shutdown", 1, sd_returned)      # issued by `finish` itself
                    if not c or c[0] != "shutdown":
                        raise Bad("[protocol] client %d joins without a shutdown call" % i)
                    if sd_client is None:
                        sd_client = i
                        if c[1]:
                            no_stray_discards("waiting shutdown")
                        else:
                            drop_all("non-waiting shutdown")
                    elif sd_client != i:
                        raise Bad("[double-shutdown] two shutdown calls both went on to join the workers")
                elif f[0] == "uaf":
                    i = int(f[1])
                    c = pending.pop(i, None)
                    if c and c[2]:
                        continue        # call begun after shutdown had returned: misuse by the caller; the harness held it back
                    soft.append("[uaf-" + ("blocked" if i in blocked else "entering") + "] client %d (%s) would use the executor after shutdown freed it, although its call began before shutdown returned"
                                % (i, "%s %d" % (c[0], c[1]) if c else "?"))
                    blocked.discard(i)
                elif f[0] == "ret":
                    i, rc, flag = int(f[1]), f[2], f[3] == "1"
                    c = pending.pop(i, None)
                    blocked.discard(i)
                    if c is None:
                        raise Bad("[protocol] client %d returned without a call" % i)
                    cmd, arg = c[0], c[1]
                    if cmd != "only":
                        no_stray_discards(e)
                    if rc == "other":
                        raise Bad("[rc] %s returned an unexpected error" % cmd)
                    if cmd == "shutdown":
                        if rc != "ok":
                            raise Bad("[rc] shutdown returned %s" % rc)
                        if sd_client == i:
                            sd_returned = True
                            if queued:
                                raise Bad("[not-drained] shutdown returned with accepted tasks %s neither run nor discarded" % queued[:5])
                            if running:
                                raise Bad("[not-drained] shutdown returned while tasks %s were running" % sorted(running)[:5])
                        elif sd_client is None:
                            raise Bad("[rc] a shutdown call returned although no shutdown was performed")
                    elif rc == "invalid-state":
                        if sd_client is None:
                            raise Bad("[rc] %s refused with invalid-state before any shutdown" % cmd)
                    elif rc == "overflow":
                        if not (limit and len(queued) >= limit and not cfg["blocking"] and cmd == "sched"):
                            raise Bad("[rc] %s rejected with overflow while %d of %d slots were used" % (cmd, len(queued), limit))
                    else:
                        if sd_client is not None and (cmd != "empty" or flag):
                            raise Bad("[accepted-after-shutdown] %s of task %d returned success after shutdown had begun" % (cmd, arg))
                        if cmd == "sched":
                            if limit and len(queued) >= limit:
                                raise Bad("[limit] task %d accepted while the queue held %d of %d" % (arg, len(queued), limit))
                            queued.append(arg)
                        elif cmd == "only":
                            drop_all("schedule_only")
                            queued.append(arg)
                        elif cmd == "empty":
                            if flag != (not queued):
                                raise Bad("[empty-only] schedule_empty_only reported scheduled=%d with %d tasks queued" % (flag, len(queued)))
                            if flag:
                                queued.append(arg)
                elif f[0] == "block":
                    blocked.add(int(f[1]))
                    if not (cfg["blocking"] and limit and len(queued) >= limit):
                        raise Bad("[block] a submitter was made to wait with %d of %d slots used" % (len(queued), limit))
        # ---- `quiesce` ran every thread that could move: no call may still be outstanding (whether or not a shutdown was made)
        if quiet_state is not None:
            cl = quiet_state.split(" c=")[1].split(",")
            if any(x != "I" for x in cl):
                raise Bad("[deadlock] nothing can move but a call has not returned: `%s`" % quiet_state[-160:])
        # ---- end of the case: `finish` issued a waiting shutdown (if none was under way) and ran every thread that could move
        p = parse_line(out[len(ops) - 1])
        state = p[2]
        cl = state.split(" c=")[1].split(",")
        ws = state.split(" w=")[1].split(" ")[0].split(",")
        if any(x != "I" for x in cl) or any(x != "X" for x in ws) or not state.startswith("freed"):
            raise Bad("[deadlock] no thread can move but calls are outstanding or workers alive: `%s`" % state[-160:])
        if queued or running:
            raise Bad("[not-drained] executor gone with tasks %s queued / %s running" % (queued[:5], sorted(running)[:5]))
    except Bad as b:
        return str(b)
    return soft[0] if soft else None


# ---------------------------------------------------------------- running

def signature(case, prob):
    if prob[0] == "crash":
        return dict(kind="crash", site=prob[1]["site"], what=prob[1]["kind"], ex=case.kind.split("-")[0])
    msg = prob[1] if prob[0] == "oracle" else ""
    m = re.match(r"\[([\w-]+)\]", msg)
    return dict(kind=prob[0], cls=m.group(1) if m else "", ex=case.kind.split("-")[0])


def explore(ctx, h, drv, n, label, tier=None):
    r = C.Rng(ctx.seed, "c20/" + label)
    cases = [gen_case(r, tier or ctx.tier) for _ in range(n)]
    for c in cases[:2]:
        ctx.sample(dict(kind=c.kind, ops=c.ops[:12]))
    probs = []
    # batches: a crashed/hung process loses at most one batch worth of parked threads
    B = 150
    for b in range(0, len(cases), B):
        probs += differential(ctx, [h], [drv, "c20"] if drv else None, cases[b:b + B], timeout=600)
    for c in cases:
        for line in (c.impl or []):
            for e in re.findall(r"(?<=[ ,])([a-z]+)(?=[:,]| \|)", " " + line.split(" | ")[0]):
                ctx.hist("ev:" + e)
    for c, p in probs:
        if p[0] == "diverge":
            ctx.corr_broken.append("model/implementation diverge in a %s case at op %d `%s`: impl `%s` model `%s`" % (
                c.kind, p[1], c.ops[p[1]] if p[1] < len(c.ops) else "?", p[2][:300], p[3][:300]))
            if len(ctx.corr_broken) <= 3:
                ctx.log("DIVERGE", c.kind, "op", p[1], "| impl:", p[2][:200], "| model:", p[3][:200])
        else:
            ctx.fail(signature(c, p), dict(case=c.kind, ops=c.ops, impl=(c.impl or [])[-5:], detail=p[1:]), str(p[1])[:400])
    return probs


def run(ctx):
    ctx.cov["rule"] = ("a case is one executor life: configuration (single worker: limit 0-3, blocking or rejecting, discard callback on/off; "
                       "pool: 1-4 threads, limit 0-5, overflow factor 0-2; 1-8 client threads) plus a schedule of 10-300 scheduler choices "
                       "(which thread runs its next critical section, which waiter a signal wakes, spurious wake-ups) mixed with API calls "
                       "(schedule, schedule_only, schedule_empty_only, shutdown waiting or not, disciplined or racing with submitters, "
                       "workers starved so that queues fill); every case ends by a waiting shutdown run to quiescence; distinct = distinct op text")
    ctx.assumptions += ["each critical section of the executor mutex is atomic (the harness serialises threads at lock acquisitions; TSan run in thorough tier looks for accesses outside the mutex)",
                        "task bodies do not call the executor themselves (self-shutdown from a task is a separate probe)"]
    ctx.translate()
    ok, drv_ok = ctx.prove(MODULE, THEOREMS)
    h = build("asan")
    drv = C.drv_path() if drv_ok else None
    n = 450 if ctx.tier == "quick" else 5000
    explore(ctx, h, drv, n, "main")
    run_selfsd(ctx, h)
    run_stress(ctx, h, drv, "asan")
    if ctx.tier == "thorough":
        ht = build("tsan")
        run_stress(ctx, ht, drv, "tsan", variant="tsan")
    if (ctx.proof_broken or ctx.corr_broken) and not ctx.violations:
        ctx.log("obligation or correspondence broken: widening the search for a failing input")
        for i in range(3):
            explore(ctx, h, drv, 600, "search%d" % i, tier="thorough")


def replay(ctx, obj):
    h = build("asan")
    ops = obj["replay"]["ops"]
    rc, o, e = C.run_lines([h], ops, timeout=120)
    print("\n".join(l[:300] for l in o[-40:]))
    print(e[-2000:])
    rc2, m, e2 = C.run_lines([C.drv_path(), "c20"], ops, timeout=120)
    d = C.first_diff(o, m)
    print("first difference to the model:", d)
    ctx.case("replay")
    ctx.case("replay2")


# ---------------------------------------------------------------- free-running runs: trace -> model path + oracle

FREE_MAXQ = 4


def trace_segments(lines, nsub):
    """Group the totally ordered trace into per-thread segments = model steps, ordered by the line on which the
    thread took the mutex.  Returns list of dict(ops=[...], ev=[...], snap=str|None, who=str)."""
    segs, cur, joins = [], {}, {}
    name = lambda T: ("w %d" % (T - 100)) if T >= 100 else ("c %d" % T)

    def new(T, ops, ev=None):
        s = dict(ops=ops, ev=list(ev or []), snap=None, T=T, who=name(T).replace(" ", ""))
        segs.append(s)
        cur[T] = s
        return s
    for ln in lines:
        f = ln.split()
        T, verb, a = int(f[0]), f[1], f[2:]
        if verb == "call":
            new(T, ["call %d %s %s" % (T, a[0], a[1])])["call"] = (a[0], int(a[1]))
            cur[T] = None
        elif verb == "lock":
            new(T, ["step %s 0" % name(T)])
        elif verb == "wake":
            new(T, ["spur %s" % name(T), "step %s 0" % name(T)])
        elif verb == "fin":
            new(T, ["step %s 0" % name(T)], ["fin:" + a[0]])
        elif verb == "joined":
            joins[T] = joins.get(T, 0) + 1      # the model's join steps are placed where the call returns (the free happens there)
        elif verb == "ret" and joins.get(T):
            new(T, ["step %s 0" % name(T)] * joins.pop(T), ["ret:%d:%s:%s" % (T, a[0], a[1])])
        else:
            s = cur.get(T)
            if s is None:
                raise Bad("[trace] line `%s` outside any section" % ln)
            if verb == "unlock":
                s["snap"] = " ".join(a)
            elif verb == "wait":
                s["snap"] = " ".join(a[1:])
                if a[0] == "q":
                    s["ev"].append("block:%d" % T)
            elif verb == "bcast":
                s["ev"].append("bcast:" + a[0])
            elif verb == "signal":
                s["ev"].append("signal")
            elif verb in ("start", "discard"):
                s["ev"].append("%s:%s" % (verb, a[0]))
            elif verb == "ret":
                s["ev"].append("ret:%d:%s:%s" % (T, a[0], a[1]))
            elif verb == "exit":
                s["ev"].append("exit:%d" % (T - 100))
            elif verb == "spawn":
                s["ev"].append("spawn:%d" % (int(a[0]) - 100))
            else:
                raise Bad("[trace] unknown line `%s`" % ln)
    return segs


def norm_model_line(line):
    """model result line -> (events without join/signal detail, struct part of the state with the queue abbreviated)"""
    p = parse_line(line)
    if p is None:
        return None, None
    evs = [("signal" if e.startswith("signal:") else e) for e in p[1] if not e.startswith("join:")]
    st = p[2]
    if st.startswith("freed"):
        return evs, "freed"
    st = st.split(" w=")[0]
    m = re.match(r"q=(\S+) (.*)", st)
    q = [] if m.group(1) == "-" else m.group(1).split(",")
    qs = ",".join(q[:FREE_MAXQ]) or "-"
    if len(q) > FREE_MAXQ:
        qs += "+%d" % (len(q) - FREE_MAXQ)
    return evs, "q=%s %s" % (qs, m.group(2))


def validate_trace(cfg, head, lines, nsub, drv):
    """returns (divergence message or None, oracle message or None, number of model steps)"""
    try:
        segs = trace_segments(lines, nsub)
    except Bad as b:
        return str(b), None, 0
    ops = [head]
    idx = []
    for s in segs:
        idx.append((len(ops), len(ops) + len(s["ops"])))
        ops += s["ops"]
    div = None
    if drv:
        rc, out, err = C.run_lines([drv, "c20"], ops, timeout=300)
        if len(out) != len(ops):
            div = "model driver produced %d lines for %d ops" % (len(out), len(ops))
        else:
            for s, (k0, k1) in zip(segs, idx):
                evs, st = [], None
                for k in range(k0, k1):
                    e, st = norm_model_line(out[k])
                    if not ops[k].startswith("spur"):
                        evs += e or []
                if "call" in s:
                    if evs:
                        div = "model refuses `%s`: %s" % (ops[k0], out[k0][:200])
                        break
                    continue
                if evs != s["ev"] or (s["snap"] is not None and st != s["snap"]):
                    div = "trace section of %s: impl events %s state `%s`, model `%s`" % (s["who"], s["ev"], s["snap"], out[k1 - 1][:300])
                    break
    # oracle on the same sections (API-level events only), in section order
    o_ops, o_out = [head], ["new | -"]
    sd_marked = False
    workers_exited = 0
    for s in segs:
        ev = list(s["ev"])
        if s["T"] == nsub and not sd_marked and "bcast:w" in ev:
            ev.insert(ev.index("bcast:w") + 1 if "bcast:q" not in ev else ev.index("bcast:q") + 1, "join:%d" % nsub)
            sd_marked = True
        workers_exited += sum(1 for e in ev if e.startswith("exit:"))
        o_ops.append(s["ops"][-1].replace("step c", "step c").replace("  ", " "))
        o_out.append("%s: %s | %s w=- c=-" % (s["who"], ",".join(ev) or "-", s["snap"] or "-"))
    o_ops.append("finish")
    o_out.append("finish: - | freed w=%s c=I" % ",".join(["X"] * max(1, workers_exited)))
    msg = oracle(dict(cfg, free=True), o_ops, o_out)
    return div, msg, len(segs)


def stress_specs(r, tier):
    specs = []
    n = 8 if tier == "quick" else 60
    for _ in range(n):
        ex = r.choice(["stw", "stw", "tp"])
        nsub = r.choice([1, 2, 4, 6, 8])
        ntasks = r.choice([30, 80, 150]) if tier == "quick" else r.choice([50, 200, 600])
        spin = r.choice([0, 200, 3000, 20000])
        sdmode = r.randrange(4)
        if ex == "stw":
            limit = r.choice([0, 1, 2, 3])
            blocking = int(limit > 0 and r.random() < 0.6)
            cb = int(r.random() < 0.7)
            a, b, c = limit, blocking, cb
            cfg = dict(ex=ex, limit=limit, blocking=blocking, cb=cb)
        else:
            nth, limit, factor = r.choice([1, 2, 4]), r.choice([0, 0, 2, 5]), r.choice([0, 1, 2])
            a, b, c = nth, limit, factor
            cfg = dict(ex=ex, limit=limit, blocking=0, cb=0)
        specs.append((cfg, "stress %s %d %d %d %d %d %d %d %d" % (ex, a, b, c, nsub, ntasks, spin, sdmode, r.randrange(1 << 30)),
                      "new %s %d %d %d %d" % (ex, a, b, c, nsub + 1), nsub))
    return specs


def run_stress(ctx, h, drv, label, variant="asan"):
    r = C.Rng(ctx.seed, "c20/stress/" + label)
    for cfg, op, head, nsub in stress_specs(r, ctx.tier):
        rc, out, err = C.run_lines([h], [op], timeout=240, env={"TSAN_OPTIONS": "halt_on_error=0:exitcode=0:second_deadlock_stack=1"})
        kind = "free-%s-%s" % (cfg["ex"], variant)
        ctx.case(op)
        ctx.hist(kind)
        if variant == "tsan" and "WARNING: ThreadSanitizer" in err:
            # only reports with an access inside the repository's sources count (the harness's own bookkeeping does not)
            hit = None
            for rep in err.split("WARNING: ThreadSanitizer")[1:]:
                tops = re.findall(r"(?:Read|Write|Previous read|Previous write|Previous atomic \w+|Atomic \w+) of size[^\n]*\n\s+#0 (\w+) ([^\s:]+)", rep)
                lib = [(fn, path) for fn, path in tops if "/src/" in path and "/harness/" not in path]
                if lib or not tops:
                    hit = (rep.split("\n")[0].strip(": "), lib[0][0] if lib else "?", rep[:2500])
                    break
            if hit:
                ctx.fail(dict(kind="tsan", what=hit[0][:60], site=hit[1], ex=cfg["ex"]), dict(ops=[op], stderr=hit[2]),
                         "ThreadSanitizer: %s in %s during `%s`" % (hit[0][:80], hit[1], op))
                continue
        if rc != 0 or not out or not out[0].startswith("stress-begin") or out[-1] != "stress-end":
            from vlib.diff import san_site
            k, fn = san_site(err)
            ctx.fail(dict(kind="crash", site=fn, what=k, ex=cfg["ex"]), dict(ops=[op], stderr=err[-3000:], tail=out[-5:]),
                     "free-running run `%s` ended with rc=%s %s in %s" % (op, rc, k, fn))
            continue
        if "overflow=1" in out[0] or "freed=0" in out[0]:
            ctx.fail(dict(kind="oracle", cls="trace-incomplete", ex=cfg["ex"]), dict(ops=[op], head=out[0]), "stress run incomplete: " + out[0])
            continue
        div, msg, nsteps = validate_trace(cfg, head, out[1:-1], nsub, drv)
        ctx.hist("free-sections", nsteps)
        if drv:
            ctx.cov["traces_validated_against_impl"] += 1
        if div:
            ctx.corr_broken.append("free-running trace is not a path of the model (`%s`): %s" % (op, div[:500]))
            if len(ctx.corr_broken) <= 3:
                ctx.log("DIVERGE(free)", op, div[:400])
        if msg:
            m = re.match(r"\[([\w-]+)\]", msg)
            ctx.fail(dict(kind="oracle", cls=m.group(1) if m else "", ex=cfg["ex"]), dict(ops=[op], detail=msg), msg[:400])


def run_selfsd(ctx, h):
    for ex in ("stw", "tp"):
        rc, out, err = C.run_lines([h], ["selfsd " + ex], timeout=60)
        ctx.case("selfsd " + ex)
        ctx.hist("selfsd")
        want = "selfsd %s rc=assertion b-ran=1 done" % ex
        if not out or out[0] != want:
            ctx.fail(dict(kind="oracle", cls="self-shutdown-hang" if out and "hang" in out[0] else "self-shutdown", ex=ex),
                     dict(ops=["selfsd " + ex], out=out[:2], stderr=err[-1500:]),
                     "a task calling shutdown on its own executor: expected `%s`, got `%s`" % (want, (out or ["<nothing>"])[0]))
