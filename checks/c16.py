"""C16: JSON Merge Patch gives the RFC 7386 result."""
import copy, json
from vlib import common as C
from vlib.diff import Case, differential
from ._jwire import to_wire, from_wire, jeq, F64, hx
from . import _binn as B
from . import _rfc as R
from . import _jgen as G

LEVEL = "proof"
# C functions this check's models mirror (source-text fingerprints are recorded in the evidence, see translate/funchash.py)
MODELLED_FUNCS = {'src/json/iwjson.c': ['_jbl_merge_patch_node', 'jbn_merge_patch', 'jbn_merge_patch_from_json', 'jbl_merge_patch', 'jbl_merge_patch_jbl', 'jbn_merge_patch_path', '_jbl_node_from_binn', '_jbl_binn_from_node', '_jbl_from_node_impl']}
MANIFEST = dict(
    level="proof",
    text=("Lean 4 theorems over an executable model of iowow's JSON Merge Patch (the recursive member walk of "
          "_jbl_merge_patch_node and its seven entry points, incl. the path form that wraps a value in nested objects): the "
          "model equals MergePatch(target, patch) of RFC 7386 for every pair of documents, member by member (null deletes, "
          "objects merge recursively, anything else replaces), and the path form equals merging the wrapped value; jbl_merge_patch "
          "and jbl_merge_patch_jbl are also modelled on the binn BYTES as the composition C14 reader -> merge -> C14 writer -> swap "
          "(jbl_merge_bytes*): for every holder whose bytes decode to a well-formed document and every patch, the new bytes are the "
          "writer's encoding of MergePatch(decoded old bytes, patch), decode to it and are well-formed again (iterated over a list of "
          "patches: jbl_merge_bytes_seq); a result the binary form cannot hold => JBL_ERROR_CREATION; any error => bytes unchanged; the model is "
          "tied to the code by a differential run of jbn_merge_patch (pool and heap), jbn_merge_patch_from_json, jbn_patch_auto, "
          "jbl_merge_patch, jbl_merge_patch_jbl, jbn_merge_patch_path and iwjsreg_merge against the compiled Lean definitions, with an "
          "independent python RFC 7386 function as oracle - the two binary entry points also byte for byte (binn bytes in, the "
          "holder's buffer out, single calls and sequences on one holder; python binn decoder in the oracle); heap mode runs under "
          "ASan (double free / use after free)"),
    note=("trusted: Lean kernel, harness/generator, python oracle, gcc+ASan/UBSan; modelled not verified: the C control flow of "
          "the functions named; documents have unique keys (ignoring ASCII case), no NUL bytes (results violating the key "
          "conditions: byte-level theorems and stream - refused, bytes unchanged); hypotheses of the byte-level theorems: patch "
          "integers fit int64, strings/keys NUL free (leafOk), encoded result shorter than 2^31-9 bytes; JSON text print/parse of "
          "the patch is taken as the identity (C13; for jbl_merge_patch_jbl: the text of the patch holder reads back as the "
          "document it holds, C13/C14 print_agree); memory ownership of the heap mode is "
          "observed by ASan only (leaks are not checked)"),
    technique="Lean 4 proof over executable model + differential correspondence (C harness vs compiled Lean driver) + python RFC 7386 oracle")
MODULE = "IwModel.Props.C16"
THEOREMS = ["IwModel.C16.merge_rfc", "IwModel.C16.merge_rfc_absent", "IwModel.C16.merge_nonobject_replaces",
            "IwModel.C16.merge_members", "IwModel.C16.merge_entry_points", "IwModel.C16.merge_patch_root",
            "IwModel.C16.merge_path", "IwModel.C16.merge_path_root",
            "IwModel.C16.jbl_merge_bytes_atomic", "IwModel.C16.merge_result_leafOk", "IwModel.C16.jbl_merge_bytes",
            "IwModel.C16.jbl_merge_jbl_bytes", "IwModel.C16.jbl_merge_bytes_seq"]

BIN = ("jbl", "jbljbl")
MODES = ["node", "heap", "njson", "auto", "jbl", "jbljbl"]


class MCase(Case):
    __slots__ = ("meta",)


class Special(str):
    pass


def parse_out(line):
    w = line.split()
    rc, flag, body = w[0], w[-1], w[1:-1]
    if body == ["NOCONTAINER"] or body == ["NONE"]:
        return rc, Special(body[0]), flag
    return rc, from_wire(body), flag


def gen_merge_patch(r, target, depth=3):
    """a patch document aimed at the branches of the merge: existing keys (merge / replace / delete), new keys,
    nested nulls, type changes in both directions, empty objects, keys that are prefixes of one another"""
    if depth <= 0 or not isinstance(target, dict) and r.random() < 0.3:
        return G.gen_doc(r, 2, top=False)
    p = {}
    keys = list(target.keys()) if isinstance(target, dict) else []
    n = r.choice([0, 1, 1, 2, 2, 3, 4])
    for _ in range(n):
        if keys and r.random() < 0.6:
            k = r.choice(keys)
        else:
            k = r.choice(G.KEYS)
        if k in p:
            continue
        t = target.get(k) if isinstance(target, dict) else None
        c = r.random()
        if c < 0.22:
            p[k] = None
        elif c < 0.55:
            p[k] = gen_merge_patch(r, t if t is not None else {}, depth - 1)      # object patch member (merge or type change)
        elif c < 0.65:
            p[k] = {}
        elif c < 0.75:
            p[k] = [None, {"a": None}, G.scalar(r)]                               # nulls inside arrays are kept
        elif c < 0.85 and isinstance(t, dict):
            p[k] = G.scalar(r)                                                    # object -> scalar
        else:
            p[k] = G.gen_doc(r, 2, top=False)
    return p


def make_oracle(mode, target, patch):
    def oracle(out):
        rc, got, flag = parse_out(out[0])
        exp = R.merge_patch(target, patch)
        if mode in ("node", "heap") and not isinstance(target, dict):
            # jbn_merge_patch is defined on object targets only: the failure must be reported, the target kept
            if rc == "ok":
                return "[cls=nonobject-target-accepted] jbn_merge_patch on a non-object target reported success: %s" % json.dumps(got, default=repr)[:200]
            return None if jeq(got, target) else "[cls=failed-merge-changed-target] rc=%s but the target changed" % rc
        if rc != "ok":
            return "[cls=rejected] merge patch was rejected with %s; RFC 7386 result %s" % (rc, json.dumps(exp, default=repr)[:200])
        if isinstance(got, Special):
            if not isinstance(exp, (dict, list)):
                return None
            return "[cls=wrong-result] holder is no container, RFC 7386 prescribes %s" % json.dumps(exp, default=repr)[:200]
        if not jeq(got, exp):
            return "[cls=wrong-result] result %s, RFC 7386 prescribes %s" % (json.dumps(got, default=repr)[:200], json.dumps(exp, default=repr)[:200])
        return None
    return oracle


def case_merge(r):
    mode = r.choice(MODES)
    binary = mode in BIN
    k = r.random()
    if binary or k < 0.85:
        target = G.gen_doc(r, depth=r.choice([2, 3, 4]), container=True)
        if not binary and not isinstance(target, dict) and r.random() < 0.7:
            target = {"a": target}
    else:
        target = G.gen_doc(r, depth=2)
    k = r.random()
    if k < 0.8 or mode == "auto":
        patch = gen_merge_patch(r, target)
    elif k < 0.9:
        patch = G.gen_doc(r, 2, container=(mode == "jbljbl"))
    else:
        patch = G.scalar(r) if mode != "jbljbl" else [G.scalar(r)]
    if mode == "jbljbl" and not isinstance(patch, (dict, list)):
        patch = {}
    if mode == "auto" and not isinstance(patch, dict):
        patch = {"a": patch}         # arrays are JSON Patch programs for jbn_patch_auto (C15), scalars invalid
    if isinstance(patch, F64) or G.integral_f64(patch):
        patch = {}
    c = MCase("merge-" + mode, ["merge %s %s | %s" % (mode, to_wire(target), to_wire(patch))], make_oracle(mode, target, patch))
    c.meta = (mode, target, patch)
    return c


def case_path(r):
    mode = r.choice(["pool", "heap", "reg"])
    target = G.gen_doc(r, depth=r.choice([2, 3]), container=True)
    if not isinstance(target, dict) or r.random() < 0.1:
        target = {"a": target, "b": {"c": {"d": 1}}}
    k = r.random()
    objs = [p for p in G.container_paths(target) if isinstance(R.resolve(target, list(p)), dict)]
    if k < 0.5:
        segs = r.choice(objs) + (r.choice(G.KEYS),)
    elif k < 0.8:
        ps = [p for p in G.all_paths(target) if p and all(not isinstance(R.resolve(target, list(p[:i])), list) for i in range(len(p)))]
        segs = r.choice(ps) if ps else ("a",)
    elif k < 0.93:
        segs = r.choice(objs) + tuple(r.choice(["n1", "n2", "zz", "x"]) for _ in range(r.randrange(1, 4)))
        if r.random() < 0.4:
            # an empty token (the legal member name "") in front of the last one: `/a//b` addresses a[""].b
            i = r.randrange(len(segs))
            segs = segs[:i] + ("",) + segs[i:]
    else:
        segs = ()
    k = r.random()
    noval = False
    if k < 0.2:
        val = None                         # JSON null: deletes
    elif k < 0.3:
        val, noval = None, True            # no value node at all: an empty object is put at the end of the path
    elif k < 0.6:
        val = G.scalar(r)
    else:
        val = G.gen_doc(r, 2, top=False)
    if G.integral_f64(val):
        val = 7
    ptr = G.ptr(segs) if segs or r.random() < 0.5 else "/"
    vw = "-" if noval else to_wire(val)

    def oracle(out, target=target, segs=segs, val=val, noval=noval):
        rc, got, flag = parse_out(out[0])
        if noval and not segs:
            return None if rc != "ok" and jeq(got, target) else "[cls=novalue-accepted] no patch at all was accepted"
        wrapped = {} if noval else val
        for s in reversed(segs):
            wrapped = {s: wrapped}
        exp = R.merge_patch(target, wrapped)
        if rc != "ok":
            return "[cls=rejected] merge along %s was rejected with %s" % (G.ptr(segs), rc)
        if not jeq(got, exp):
            return "[cls=wrong-result] merge along %s: result %s, RFC 7386 on the wrapped patch prescribes %s" % (
                G.ptr(segs), json.dumps(got, default=repr)[:200], json.dumps(exp, default=repr)[:200])
        return None
    c = MCase("path-" + mode, ["mergepath %s %s %s | %s" % (mode, hx(ptr.encode("utf-8")), to_wire(target), vw)], oracle)
    c.meta = (mode, target, (ptr, val))
    return c


BAD_TEXTS = ['{"a":', '{"a" 1}', '[1,', 'nul', '{"a":1', '{a:1}', '"abc', '{"a":tru}', '[1 2', '']


def case_badtext(r):
    """the text entry points with a text that is not JSON: the failure must be reported and nothing may change"""
    mode = r.choice(["njson", "jbl"])
    target = G.gen_doc(r, depth=2, container=True)
    text = r.choice(BAD_TEXTS)

    def oracle(out, target=target):
        rc, got, flag = parse_out(out[0])
        if rc == "ok":
            return "[cls=bad-text-accepted] patch text %r is not JSON but the call reported success" % text
        if isinstance(got, Special) or not jeq(got, target) or flag == "same=0":
            return "[cls=failed-merge-changed-target] patch text %r rejected but the target changed" % text
        return None
    c = MCase("badtext-" + mode, ["mergetext %s %s %s" % (mode, hx(text.encode()), to_wire(target))], oracle)
    c.meta = (mode, target, text)
    return c


# ---- byte-level stream: target (and for jbl_merge_patch_jbl the patch) go in as binn BYTES, the holder's bytes come out ----

def parse_bout(line):
    w = line.split()
    rcs = w[0].split(",")
    if len(w) >= 3 and w[1] == "scalar":
        return rcs, None, from_wire(w[2:])
    if len(w) != 2:
        raise ValueError("unexpected answer " + line[:80])
    return rcs, bytes.fromhex("" if w[1] == "-" else w[1]), None


def make_byte_oracle(target, inbytes, patches):
    """RFC 7386 on decode(input bytes), patch by patch: a result the binary form can hold must be accepted and the bytes
    that come out must decode to it; one it cannot hold must be refused with `creation`; when no call succeeded the
    bytes must be exactly the bytes that went in."""
    def oracle(out):
        try:
            rcs, got, scalar = parse_bout(out[0])
        except ValueError as e:
            return "[cls=bad-answer] %s" % e
        if len(rcs) != len(patches):
            return "[cls=bad-answer] %d return codes for %d patches" % (len(rcs), len(patches))
        cur, changed = target, False
        for i, (patch, rc) in enumerate(zip(patches, rcs)):
            if not isinstance(cur, (dict, list)):
                return None
            exp = R.merge_patch(cur, patch)
            if B.fits(exp):
                if rc != "ok":
                    return "[cls=rejected] call %d: merge patch was rejected with %s; RFC 7386 result %s" % (i, rc, json.dumps(exp, default=repr)[:200])
                cur, changed = exp, True
            elif rc == "ok":
                return "[cls=accepted-unholdable] call %d reported success but the binary form cannot hold %s" % (i, json.dumps(exp, default=repr)[:200])
        if not changed:
            if got != inbytes:
                return "[cls=failed-merge-changed-bytes] no call succeeded (%s) but the holder's bytes changed" % ",".join(rcs)
            return None
        if not isinstance(cur, (dict, list)):
            return None if got is None and jeq(scalar, cur) else "[cls=wrong-result] holder %r, RFC 7386 prescribes the scalar %r" % (scalar if got is None else got.hex()[:80], cur)
        if got is None:
            return "[cls=wrong-result] holder is the scalar %r, RFC 7386 prescribes %s" % (scalar, json.dumps(cur, default=repr)[:200])
        try:
            val = B.dec(got)
        except (B.BadBinn, IndexError, ValueError) as e:
            return "[cls=bytes-malformed] the bytes that came out are not a well-formed document (%s): %s" % (e, got.hex()[:160])
        if not jeq(val, cur):
            return "[cls=wrong-result] the bytes decode to %s, RFC 7386 prescribes %s" % (json.dumps(val, default=repr)[:200], json.dumps(cur, default=repr)[:200])
        return None
    return oracle


def clean_patch(patch, container):
    if isinstance(patch, F64) or G.integral_f64(patch):
        return {}
    if container and not isinstance(patch, (dict, list)):
        return {}
    return patch


NOFIT_KEYS = ["A", "FOO", "Ab", "aB", "Q", "X", "É", "L" * 255, "L" * 256, "w" * 300]


def unholdable_patch(r, target):
    """a patch whose RFC result has a key over 255 bytes or two keys equal ignoring ASCII case (or just not quite)"""
    objs = [p for p in G.container_paths(target) if isinstance(R.resolve(target, list(p)), dict)
            and all(not isinstance(R.resolve(target, list(p[:i])), list) for i in range(len(p)))]
    p = r.choice(objs) if objs else ()
    o = R.resolve(target, list(p)) if objs else {}
    k = r.choice(list(o)) if o and r.random() < 0.6 else None
    c = r.randrange(4)
    if k is not None and c < 2:
        inner = {r.choice([k.upper(), k.capitalize()]): G.scalar(r) if r.random() < 0.8 else 1}
        if c == 1:
            inner[k] = None          # the lower-case twin is deleted by the same patch: holdable
    elif c == 2:
        inner = {"zz": {"kk": 1, r.choice(["KK", "kK", "kk2"]): 2}}
    else:
        inner = {r.choice(NOFIT_KEYS): r.choice([1, {"n1": None}, [None]])}
    for s in reversed(p):
        inner = {s: inner}
    return inner


def case_bytes(r):
    mode = r.choice(["jbl", "jbl", "jbljbl"])
    target = G.gen_doc(r, depth=r.choice([2, 3, 4]), container=True)
    k = r.random()
    if k < 0.7:
        patch = gen_merge_patch(r, target)
    elif k < 0.8:
        patch = G.gen_doc(r, 2, container=(mode == "jbljbl"))
    elif k < 0.9:
        patch = unholdable_patch(r, target)
    else:
        patch = G.scalar(r) if mode != "jbljbl" else [G.scalar(r)]
    patch = clean_patch(patch, mode == "jbljbl")
    inb = B.enc(target, r if r.random() < 0.3 else None)
    if mode == "jbljbl":
        try:
            pw = hx(B.enc(patch, r if r.random() < 0.3 else None))
        except B.Creation:
            patch, pw = {}, hx(B.enc({}))
    else:
        pw = to_wire(patch)
    c = MCase("bytes-" + mode, ["bmerge %s %s | %s" % (mode, hx(inb), pw)], make_byte_oracle(target, inb, [patch]))
    c.meta = ("b" + mode, target, patch)
    return c


def case_bytes_seq(r):
    target = G.gen_doc(r, depth=r.choice([2, 3]), container=True)
    cur, patches = target, []
    for _ in range(r.randrange(2, 6)):
        if not isinstance(cur, (dict, list)):
            break
        patch = clean_patch(unholdable_patch(r, cur) if r.random() < 0.3 else gen_merge_patch(r, cur), False)
        patches.append(patch)
        exp = R.merge_patch(cur, patch)
        if B.fits(exp):
            cur = exp
    inb = B.enc(target, r if r.random() < 0.3 else None)
    c = MCase("bytes-seq", ["bmseq %s | %s" % (hx(inb), " | ".join(to_wire(p) for p in patches))], make_byte_oracle(target, inb, patches))
    c.meta = ("bseq", target, patches[0])
    return c


GENS = [(case_merge, 6), (case_path, 2), (case_badtext, 0.3), (case_bytes, 2.2), (case_bytes_seq, 0.6)]


def gen_cases(r, n):
    tot = sum(w for _, w in GENS)
    out = []
    for _ in range(n):
        x = r.random() * tot
        for g, w in GENS:
            x -= w
            if x <= 0:
                out.append(g(r))
                break
    return out


def signature(case, prob):
    mode, target, patch = case.meta
    pk = "path" if case.kind.startswith("path") else "text" if case.kind.startswith("badtext") else ("object" if isinstance(patch, dict) else "non-object")
    if prob[0] == "crash":
        return dict(kind="crash", site=prob[1]["site"], what=prob[1]["kind"], mode=mode, patch=pk)
    msg = prob[1] if prob[0] == "oracle" else ""
    cls = msg[5:msg.index("]")] if msg.startswith("[cls=") else ""
    return dict(kind=prob[0], mode=mode, cls=cls, patch=pk)


def count_nulls(v, depth=0):
    if isinstance(v, dict):
        return sum((1 if x is None and depth > 0 else 0) + count_nulls(x, depth + 1) for x in v.values())
    return 0


def tally(ctx, cases):
    for c in cases:
        mode, target, patch = c.meta
        ctx.hist("mode:" + c.kind)
        if c.kind.startswith("merge"):
            ctx.hist("patch:" + type(patch).__name__)
            ctx.hist("target:" + type(target).__name__)
            if isinstance(patch, dict):
                if not patch:
                    ctx.hist("patch:empty-object")
                if count_nulls(patch):
                    ctx.hist("patch:nested-null")
                if isinstance(target, dict):
                    for k, v in patch.items():
                        if k in target:
                            t = target[k]
                            if v is None:
                                ctx.hist("member:delete")
                            elif isinstance(v, dict) and isinstance(t, dict):
                                ctx.hist("member:merge")
                            elif isinstance(v, dict):
                                ctx.hist("member:%s->object" % ("array" if isinstance(t, list) else "scalar"))
                            elif isinstance(t, dict):
                                ctx.hist("member:object->other")
                            else:
                                ctx.hist("member:replace")
                        else:
                            ctx.hist("member:delete-absent" if v is None else "member:new")
        if c.impl:
            for rc in c.impl[0].split()[0].split(",")[:8]:
                ctx.hist("rc:" + rc)
            if c.kind.startswith("bytes"):
                inhex = c.ops[0].split()[1 if c.kind == "bytes-seq" else 2]
                ctx.hist("bytes-out:" + ("scalar" if " scalar " in c.impl[0] else "unchanged" if c.impl[0].split()[-1] == inhex else "new"))


CHUNK = 1000


def explore(ctx, h, drv, n, label):
    r = C.Rng(ctx.seed, "c16/" + label)
    cases = gen_cases(r, n)
    for c in cases[:4]:
        ctx.sample(dict(kind=c.kind, ops=[o[:600] for o in c.ops]))
    probs = []
    for i in range(0, len(cases), CHUNK):
        part = cases[i:i + CHUNK]
        ps = differential(ctx, [h], [drv, "c16"] if drv else None, part, timeout=120)
        tally(ctx, part)
        probs += ps
        for c, p in ps:
            if p[0] == "diverge":
                ctx.corr_broken.append("model/implementation diverge on `%s`: impl `%s` model `%s`" % (c.ops[p[1]][:300], p[2][:200], p[3][:200]))
                if len(ctx.corr_broken) <= 5:
                    ctx.log("DIVERGE", c.ops[p[1]][:400], "| impl:", p[2][:300], "| model:", p[3][:300])
            else:
                ctx.fail(signature(c, p), dict(case=c.kind, ops=c.ops, impl=c.impl, detail=p[1:]), str(p[1])[:400])
        if len(ctx.violations) >= 8 or len(ctx.corr_broken) > 2000:
            ctx.log("enough failing inputs found; stopping the exploration early")
            break
    return probs


def selftest_note(ctx):
    import json, os
    f = os.path.join(C.ROOT, "mutants", "C16", "RESULTS.json")
    if os.path.exists(f):
        r = json.load(open(f))
        ok = [k for k, v in r.items() if v.get("caught")]
        ctx.notes.append("last sensitivity self-test (mutants/C16/*.diff on the fixed tree, quick tier): %d of %d mutants caught with a failing input (%d of them also pass the repo's own json tests)" % (
            len(ok), len(r), sum(1 for v in r.values() if v.get("caught") and v.get("repo_tests_pass"))))


def build(ctx):
    impl = C.build_impl("asan")
    return C.build_harness(impl, "h_c16", ["h_c16.c"], exclude=("iwjsreg.c",))


def run(ctx):
    ctx.cov["rule"] = ("a case = one target document x one patch document sent to one of the entry points (jbn_merge_patch pool/heap, "
                       "jbn_merge_patch_from_json, jbn_patch_auto, jbl_merge_patch, jbl_merge_patch_jbl, jbn_merge_patch_path pool/heap, iwjsreg_merge); "
                       "patches are generated from the target so that members are deleted, merged, replaced across types in both "
                       "directions, added, with nested nulls, empty objects, nulls inside arrays, keys that are prefixes of one another; "
                       "also non-object patches and non-object targets; byte-level streams: target (and for jbl_merge_patch_jbl the patch) "
                       "handed over as binn bytes, the holder's buffer compared byte for byte with the composed Lean model, single calls and "
                       "2-5 merges on one holder, incl. patches whose result the binary form cannot hold (keys of 255/256+ bytes, keys equal "
                       "ignoring ASCII case); distinct = distinct op line; every case performs a merge")
    ctx.assumptions += ["documents have unique member names (also ignoring ASCII case) and no NUL bytes in keys/strings (what the binary form can hold, C14)",
                        "doubles are not integer-valued (their text form would read back as an integer in the text entry points)",
                        "heap-mode leaks are not checked (ASan leak detection is off); double free / use after free are",
                        "byte-level ops: input buffers are well-formed documents (malformed buffers are C17's); the oracle decodes the output with its own binn reader and compares values, bytes are compared with the Lean model only; a holder whose root became a scalar is compared as a value"]
    selftest_note(ctx)
    ctx.translate()
    ok, drv_ok = ctx.prove(MODULE, THEOREMS)
    h = build(ctx)
    drv = C.drv_path() if drv_ok else None
    n = 60000 if ctx.tier == "quick" else 400000
    explore(ctx, h, drv, n, "main")
    if (ctx.proof_broken or ctx.corr_broken) and not ctx.violations:
        ctx.log("obligation or correspondence broken: widening the search for a failing input")
        for i in range(3):
            if len(ctx.violations) >= 8:
                break
            explore(ctx, h, drv, 5000, "search%d" % i)


def replay(ctx, obj):
    h = build(ctx)
    rc, o, e = C.run_lines([h], obj["replay"]["ops"])
    print("\n".join(x[:2000] for x in o))
    print(e[-2000:])
    ctx.case("replay")
    ctx.case("replay2")
