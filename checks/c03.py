"""C03: a cleanly closed store reopens with identical contents."""
import os, re
from vlib import common as C
from vlib.diff import Case, differential
from checks import kvgen as G, c01, c06

LEVEL = "proof"
MODULE = "IwModel.Props.C03"
THEOREMS = ["IwModel.C03." + t for t in (
    "sblk_roundtrip_over", "sblk_roundtrip", "sblk_enc_bytes", "kvindex_roundtrip", "kv_roundtrip",
    "dbhdr_roundtrip_over", "dbhdr_roundtrip", "fsmhdr_roundtrip", "fsm_layout_total",
    "holds_after_writes", "node_roundtrip", "node_contents_roundtrip", "reopen_contents", "reopen_records", "reopen_db")]
# C functions this check's models mirror (source-text fingerprints are recorded in the evidence, see translate/funchash.py)
MODELLED_FUNCS = {'src/kv/iwkv.c': ['_sblk_sync_mm', '_sblk_at2', '_kvblk_sync_mm', '_kvblk_at_mm', '_db_save', '_db_at', '_db_load_chain', 'iwkv_open', 'iwkv_close'], 'src/fs/iwfsmfile.c': ['_fsm_write_meta_lw', '_fsm_read_meta_lr']}
MANIFEST = dict(
    level="proof",
    text=("Reopen is modelled as 'read the closed file'. The writer side of the file format is written in Lean field by field "
          "after the C writers (_sblk_sync_mm, _kvblk_sync_mm, _kvblk_addkv, _db_save, _fsm_write_meta_lw; Model/FormatEnc.lean) and "
          "the reader that parses real files (Model/Format.lean) is defined through the shared decoders. Theorems: every record "
          "round-trips over arbitrary stale content (sblk/kvindex/kv/dbhdr/fsmhdr_roundtrip), a node filled the way _kvblk_addkv "
          "fills a block is read back in pi order (node_contents_roundtrip), and a whole database - a list of nodes with levels "
          "and records as in the key-value model, placed by any layout whose regions are inside the file and pairwise disjoint - "
          "written over arbitrary old content is returned by the reader with the same id, flags, nodes, records and metadata "
          "(reopen_contents, reopen_db). The encoders are tied byte for byte to real files (`drv fmt reenc`: parse, re-encode, "
          "compare with the bytes the C code wrote), the reader to the python reference, and the check cuts generated histories by "
          "close/reopen cycles (WAL on/off, read-only, trim/no-trim, create/destroy between cycles) comparing ids, flags, metadata "
          "and records after every reopen with the Lean KV model and the reference"),
    note=("trusted: Lean kernel/compiler, harness, generators, python reference, OS file semantics; the theorems are about the Lean "
          "writer, which is tied to the C writer by byte comparison on explored files only (not by proof over the C code); "
          "the allocator's choice of addresses is a parameter (any disjoint layout), WAL replay is covered by C04/C05"),
    technique="Lean 4 writer/reader of the file format with round-trip theorems + byte-exact re-encoding of real files + differential correspondence on close/reopen cycles")


def gen_history(r, ncycles, nops):
    ops = []
    dbs = {}
    nextid = [1]
    wal = r.randrange(2)
    ops.append("open %d 1 0" % wal)
    metas = {}
    for cyc in range(ncycles):
        ro = cyc > 0 and r.random() < 0.3
        if cyc > 0:
            wal = r.randrange(2)
            notrim = r.randrange(2)
            if ro:
                ops.append("fhash")
            ops.append("open %d 0 %d %d" % (wal, 1 if ro else 0, notrim))
            for i, (fl, _) in dbs.items():
                ops.append("db %d %d" % (i, fl))
                ops.append("dump %d" % i)
                ops.append("mget %d 4000 %d" % (i, metas.get(i, 0)))
            if r.random() < 0.1 and dbs:
                i = r.choice(list(dbs))
                ops.append("db %d %d" % (i, dbs[i][0] ^ G.VNUM))      # wrong flags
        if not ro:
            for _ in range(r.choice([0, 1, 1, 2]) if cyc else r.choice([1, 2, 3])):
                if nextid[0] < 30:
                    i = nextid[0]
                    nextid[0] += 1
                    fl = r.choice(G.FLAG_COMBOS)
                    dbs[i] = (fl, G.make_pool(r, fl, r.choice([10, 50, 200])))
                    ops.append("db %d %d" % (i, fl))
        for _ in range(r.randrange(0, nops)):
            if not dbs:
                break
            i = r.choice(list(dbs))
            fl, pool = dbs[i]
            k, c = r.choice(pool)
            x = r.random()
            if x < 0.5:
                ops.append("put %d %s %d %s 0 %d" % (i, G.H(k), c, G.H(G.gen_value(r, True)), G.gen_level(r)))
            elif x < 0.7:
                ops.append("del %d %s %d" % (i, G.H(k), c))
            elif x < 0.8:
                ops.append("get %d %s %d" % (i, G.H(k), c))
            elif x < 0.86:
                m = bytes(r.randrange(256) for _ in range(r.choice([1, 100, 129, 700])))
                if not ro:
                    metas[i] = len(m)
                ops.append("mset %d %s" % (i, G.H(m)))
            elif x < 0.9 and not ro and len(dbs) > 1:
                ops.append("dbdestroy %d" % i)
                del dbs[i]
            elif x < 0.93:
                ops.append("sync")
            else:
                ops.append("dump %d" % i)
        for i in dbs:
            ops.append("dump %d" % i)
        ops.append("close")
        if ro:
            ops.append("fhash")
        ops.append("image @IMG%d" % cyc)
        ops.append("fsize")
    if r.random() < 0.3:
        ops += ["open %d 1 0" % r.randrange(2)] + ["db %d %d" % (i, fl) for i, (fl, _) in list(dbs.items())[:2]] + ["dump %d" % i for i in list(dbs)[:2]] + ["close"]
    return ops


def make_case(r, label, idx):
    return finish_case(gen_history(r, r.choice([2, 3, 5]), r.choice([20, 80, 200])), label, idx)


def finish_case(ops, label, idx):
    d = os.path.join(C.scratch(), "img")
    os.makedirs(d, exist_ok=True)
    ops = [l.replace("@IMG", os.path.join(d, "%s-%d-" % (label, idx))) for l in ops]
    ref = G.Ref()
    exp = []
    for l in ops:
        exp.append(None if l.startswith(("image", "fhash", "fsize")) else ref.apply(l))

    def oracle(out, ops=ops, exp=exp):
        last_hash = None
        for i, (l, o, e) in enumerate(zip(ops, out, exp)):
            if e is not None and o != e:
                return "op %d `%s`: store answered `%s`, reference says `%s`" % (i, l[:100], o[:200], e[:200])
            if l == "fhash":
                if ops[i - 1] == "close" and last_hash is not None and o != last_hash:
                    return "read-only session changed the file: before `%s` after `%s`" % (last_hash, o)
                last_hash = o
            if l == "fsize" and o.split()[1] not in ("-1",) and int(o.split()[1]) % 4096 != 0:
                return "file size after close %s is not page aligned" % o
        return None
    return Case("cycles", ops, oracle, key=hash(tuple(ops)))


def make_trim_case(r, label, idx, mblocks, nrec, wal):
    """trim at close with the file's last used block at every parity: metadata of `mblocks` 128-byte blocks (the only odd-sized
    allocation of the store) in front of `nrec` records, close with trim, reopen (read-only or not), everything must be there"""
    ops = ["open %d 1 0" % wal, "db 1 0", "mset 1 %s" % G.H(bytes(r.randrange(256) for _ in range(mblocks * 128 - r.choice([0, 1, 127]))))]
    for j in range(nrec):
        ops.append("put 1 %s 0 %s 0 0" % (G.H(b"k%05d" % j), G.H(G.gen_value(r, False))))
    ops += ["dump 1", "close", "image @IMG0", "fsize", "open %d 0 %d 0" % (r.randrange(2), r.randrange(2)), "db 1 0", "dump 1"]
    ops += ["get 1 %s 0" % G.H(b"k%05d" % j) for j in r.sample(range(nrec), min(nrec, 5))] + ["close", "image @IMG1", "fsize"]
    return finish_case(ops, label, idx)


def explore(ctx, h, drv, n, label, trim=0):
    r = C.Rng(ctx.seed, "c03/" + label)
    cases = [make_case(r, label, i) for i in range(n)]
    if trim:
        wal = r.randrange(2)
        for j, nrec in enumerate([3, 40, 150]):
            ctx.hist("trim-sweep:nrec=%d" % nrec)
            cases += [make_trim_case(r, label, n + 64 * j + m, m, nrec, wal if m % trim else 1 - wal) for m in range(1, 65)]
    for c in cases[:2]:
        ctx.sample(dict(kind="cycles", n_ops=len(c.ops), opens=[l for l in c.ops if l.startswith("open")][:6]))
    for c in cases:
        for l in c.ops:
            if l.startswith("open"):
                w = l.split()
                ctx.hist("open wal=%s trunc=%s ro=%s" % (w[1], w[2], w[3]))
    canon = lambda l: l.split()[0] if l.startswith(("image ", "fhash ")) else l
    probs = differential(ctx, [h, C.scratch() + "/kv3-%s.db" % label], [drv, "kv"] if drv else None, cases, timeout=900, canon=canon)
    for c, p in probs:
        if p[0] == "diverge":
            if c.ops[p[1]].startswith("fsize"):
                continue
            ctx.corr_broken.append("model/implementation diverge at op %d `%s`: impl `%s` model `%s`" % (p[1], c.ops[p[1]][:100], p[2][:160], p[3][:160]))
            if len(ctx.corr_broken) <= 3:
                ctx.log("DIVERGE op", p[1], c.ops[p[1]][:100], "| impl:", p[2][:160], "| model:", p[3][:160])
        else:
            ctx.fail(c01.signature(c, p), dict(ops=c.ops, detail=p[1:]), str(p[1])[:400])
    if drv:
        c06.audit_images(ctx, drv, cases)


def run(ctx):
    ctx.cov["rule"] = ("a case is a history cut by 2-5 close/reopen cycles: WAL on/off per session, 30 % read-only sessions (with writes attempted), "
                       "trim/no-trim, databases created/destroyed between cycles, wrong-flag reopen of a database, final truncate-open; after every "
                       "reopen all databases are dumped and metadata read; every closed file is parsed by the Lean reader; distinct = distinct op text")
    ctx.translate()
    ok, drv_ok = ctx.prove(MODULE, THEOREMS)
    impl = C.build_impl("asan")
    h = C.build_harness(impl, *c01.HARNESS[:2], exclude=c01.HARNESS[2])
    drv = C.drv_path() if drv_ok else None
    explore(ctx, h, drv, 60 if ctx.tier == "quick" else 1500, "main", trim=7)
    if (ctx.proof_broken or ctx.corr_broken) and not ctx.violations:
        explore(ctx, h, drv, 100, "search")


replay = c01.replay
