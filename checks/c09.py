"""C09: iterating while the store changes never skips, repeats or resurrects a record."""
import time
from vlib import common as C
from vlib.diff import Case, differential
from checks import kvgen as G, c01

LEVEL = "proof"
MODULE = "IwModel.Props.C09"
THEOREMS = ["IwModel.C09." + t for t in (
    "next_spec", "prev_spec", "scan_from", "scan_back_from", "ahead_at",
    "put_new_keeps_cursors", "put_overwrite_keeps_cursors", "cursor_set_keeps_cursors",
    "del_keeps_cursors", "cursor_del_keeps_cursors", "cursVia_lookup",
    "history_keeps_cursor", "history_forward", "scan_through_history", "scan_back_through_history",
    "returned_is_live", "untouched_once", "f38_witness")]
# C functions this check's models mirror (source-text fingerprints are recorded in the evidence, see translate/funchash.py)
MODELLED_FUNCS = {'src/kv/iwkv.c': ['_sblk_addkv', '_sblk_addkv2', '_sblk_rmkv', '_sblk_updatekv', '_lx_split_addkv', '_lx_del_sblk_lw', '_sblk_sync_mm', '_cursor_to_lr']}
MANIFEST = dict(
    level="proof",
    text=("Lean 4 theorems over the cursor fix-ups of the node-level KV model (insert, remove, split at the pivot, node removal) "
          "for any number of open cursors; tied to the code by single-threaded interleavings of 1-4 cursors with puts/deletes that split, "
          "empty and remove nodes, compared call by call with the compiled Lean model, and judged by an oracle that follows the wording "
          "of the property (a move returns a live record strictly ahead and skips no record that existed throughout)"),
    note=("trusted: Lean kernel, harness/generators, python oracle; modelled not verified: C control flow of the fix-up code; the model "
          "gives every cursor a fresh view of its node, stale private copies in the implementation show up as divergences"),
    technique="Lean 4 invariant proof over cursor fix-ups + differential correspondence on cursor/put/delete interleavings")


def gen_history(r, nops):
    fl = r.choice([0, 0, 0, G.VNUM, G.VNUM, G.COMPOUND, G.REAL])
    ops = ["open %d 1 0" % r.randrange(2), "db 1 %d" % fl]
    pool = G.make_pool(r, fl, r.choice([20, 45, 70, 70, 150, 400]))
    for _ in range(r.choice([0, 30, 200, 600])):
        k, c = r.choice(pool)
        ops.append("put 1 %s %d %s 0 %d" % (G.H(k), c, G.H(G.gen_value(r, big=False)), G.gen_level(r)))
    nc = r.choice([1, 1, 2, 3, 4])
    for ci in range(nc):
        ops.append("cur %d open 1 %s" % (ci, r.choice(["bf", "al"])))
    wdel = r.choice([0.0, 0.15, 0.3])
    live = set(range(nc))
    wclose = r.choice([0.0, 0.01, 0.03]) if nc > 1 else 0.0
    for _ in range(nops):
        x = r.random()
        ci = r.randrange(nc)
        k, c = r.choice(pool)
        if ci not in live:                       # a closed slot: open a new cursor in it (it goes to the front of db->cursors)
            ops.append("cur %d open 1 %s" % (ci, r.choice(["bf", "al"])))
            live.add(ci)
        elif r.random() < wclose:                # close one cursor (any place in the list) while the others go on
            ops.append("cur %d close" % ci)
            live.discard(ci)
        elif x < 0.30:
            ops.append("put 1 %s %d %s 0 %d" % (G.H(k), c, G.H(G.gen_value(r, big=False)), G.gen_level(r)))
        elif x < 0.30 + wdel:
            ops.append("del 1 %s %d" % (G.H(k), c))
        elif x < 0.85:
            ops += ["cur %d to %s" % (ci, r.choice(["next", "next", "prev", "prev"])), "cur %d key" % ci]
        elif x < 0.91:
            ops.append("cur %d del" % ci)
        elif x < 0.94:
            ops.append("cur %d set %s 0" % (ci, G.H(G.gen_value(r, big=False))))
        elif x < 0.97:
            ops.append("cur %d tokey %s %s %d" % (ci, r.choice(["eq", "ge"]), G.H(k), c))
        else:
            ops.append("cur %d to %s" % (ci, r.choice(["bf", "al"])))
    for ci in r.sample(sorted(live), len(live)):
        ops.append("cur %d close" % ci)
    ops += ["dump 1", "close"]
    return ops


def judge(ops, out):
    """replays the reference sequentially with access to the implementation's answers"""
    ref = G.Ref()
    ref.lenient = True
    for i, l in enumerate(ops):
        if i >= len(out):
            break
        e = ref.apply(l, out[i])
        if ref.viol:
            return "op %d `%s`: %s" % (i, l[:100], ref.viol[0])
        if e is not None and out[i] != e:
            return "op %d `%s`: store answered `%s`, reference says `%s`" % (i, l[:100], out[i][:160], e[:160])
    return None


def gen_split_history(r):
    """cursors spread over neighbouring nodes of a chain built from sequential keys; puts into the gaps fill and split the nodes
    under and next to them (middle splits, new nodes in front and behind); then every cursor walks back and forth"""
    ops = ["open %d 1 0" % r.randrange(2), "db 1 0"]
    n = r.choice([70, 110, 160])
    key = lambda i: G.H(b"k%06d" % i)
    order = list(range(n))
    if r.random() < 0.3:
        order.reverse()
    for i in order:
        ops.append("put 1 %s 0 %s 0 %d" % (key(i * 10), G.H(G.gen_value(r, big=False)), G.gen_level(r)))
    nc = r.choice([2, 3, 4])
    base = r.randrange(5, n - 40)
    pos = [base + r.choice([0, 3, 7, 11, 16, 17, 18, 25, 31, 33]) for _ in range(nc)]
    for ci, p in enumerate(pos):
        ops.append("cur %d open 1 eq %s 0" % (ci, key(p * 10)))
    for _ in range(r.choice([20, 45, 80])):
        i = r.randrange(max(0, base - 20), min(n, base + 50))
        ops.append("put 1 %s 0 %s 0 %d" % (key(i * 10 + r.randrange(1, 10)), G.H(G.gen_value(r, big=False)), G.gen_level(r)))
        if r.random() < 0.25:
            ci = r.randrange(nc)
            ops += ["cur %d to %s" % (ci, r.choice(["prev", "prev", "next"])), "cur %d key" % ci]
    if nc > 1 and r.random() < 0.5:
        # the cursor opened last deletes its way through whole nodes (node removal by cursor_del) while the others stand in the
        # nodes around it
        d = nc - 1
        step = r.choice(["next", "prev"])
        for _ in range(r.choice([20, 40, 70])):
            ops += ["cur %d del" % d, "cur %d to %s" % (d, step), "cur %d key" % d]
            if r.random() < 0.15:
                ci = r.randrange(nc - 1)
                ops += ["cur %d key" % ci]
    for ci in range(nc):
        for _ in range(r.choice([4, 10])):
            ops += ["cur %d to prev" % ci, "cur %d key" % ci]
        for _ in range(r.choice([3, 8])):
            ops += ["cur %d to next" % ci, "cur %d key" % ci]
    for ci in range(nc):
        ops.append("cur %d close" % ci)
    ops += ["dump 1", "close"]
    return ops


def make_case(r, nops):
    ops = gen_split_history(r) if r.random() < 0.15 else gen_history(r, nops)
    return Case("interleave", ops, lambda out, ops=ops: judge(ops, out), key=hash(tuple(ops)))


def shrink(h, ops, cls=None):
    head = [l for l in ops if l.split()[0] in ("open", "db")]
    body = [l for l in ops if l.split()[0] not in ("open", "db", "close")]
    deadline = time.time() + 90

    def fails(sub):
        o2 = head + sub + ["close"]
        if time.time() > deadline:
            return False
        rc, o, e = C.run_lines_stall([h, C.scratch() + "/kv9-shrink.db"], o2, timeout=30, stall=5)
        if rc != 0 or len(o) < len(o2):
            return False
        m = judge(o2, o)
        return m is not None and (cls is None or classify(m) == cls)
    return head + C.ddmin(body, fails, budget=250) + ["close"]


def classify(msg):
    for k in ("gap-newborn-behind", "skipped", "not a live record", "does not lie ahead", "not-found although", "store answered"):
        if k in msg:
            return k
    return "other"


def explore(ctx, h, drv, n, nops, label):
    r = C.Rng(ctx.seed, "c09/" + label)
    cases = [make_case(r, nops) for _ in range(n)]
    for c in cases[:2]:
        ctx.sample(dict(kind=c.kind, last_ops=c.ops[-10:], n_ops=len(c.ops)))
    probs = differential(ctx, [h, C.scratch() + "/kv9-%s.db" % label], [drv, "kv"] if drv else None, cases, timeout=900)
    for c, p in probs:
        if p[0] == "diverge":
            ctx.corr_broken.append("model/implementation diverge at op %d `%s`: impl `%s` model `%s`" % (p[1], c.ops[p[1]][:100], p[2][:160], p[3][:160]))
            if len(ctx.corr_broken) <= 3:
                import os
                os.makedirs(ctx.replay_dir, exist_ok=True)
                open(os.path.join(ctx.replay_dir, "diverge-%d.txt" % len(ctx.corr_broken)), "w").write("\n".join(c.ops[:p[1] + 1] + ["close"]) + "\n")
                ctx.log("DIVERGE op", p[1], c.ops[p[1]][:100], "| impl:", p[2][:160], "| model:", p[3][:160])
        elif p[0] == "oracle":
            ops = shrink(h, c.ops, classify(p[1])) if len(ctx.violations) < 3 and not ctx._match(dict(kind="oracle", cls=classify(p[1]))) else c.ops
            ctx.fail(dict(kind="oracle", cls=classify(p[1])), dict(ops=ops, detail=p[1]), p[1][:400])
        else:
            ctx.fail(c01.signature(c, p), dict(ops=c.ops, detail=p[1:]), str(p[1])[:400])
    return probs


def run(ctx):
    ctx.cov["rule"] = ("a case is one history: a store built by 0-600 puts (forced levels), 1-4 cursors opened at either end, then an interleaving of "
                       "puts, deletes (0/15/30 %), cursor moves (each followed by a key read), cursor deletes/sets and repositionings; distinct = distinct op text")
    ctx.translate()
    ok, drv_ok = ctx.prove(MODULE, THEOREMS)
    impl = C.build_impl("asan")
    h = C.build_harness(impl, *c01.HARNESS[:2], exclude=c01.HARNESS[2])
    drv = C.drv_path() if drv_ok else None
    if ctx.tier == "quick":
        explore(ctx, h, drv, 200, 350, "main")
    else:
        explore(ctx, h, drv, 1200, 400, "main")
        explore(ctx, h, drv, 20, 8000, "long")
    if (ctx.proof_broken or ctx.corr_broken) and not ctx.violations:
        explore(ctx, h, drv, 150, 300, "search")


def replay(ctx, obj):
    impl = C.build_impl("asan")
    h = C.build_harness(impl, *c01.HARNESS[:2], exclude=c01.HARNESS[2])
    ops = obj["replay"]["ops"]
    rc, o, e = C.run_lines([h, C.scratch() + "/kv-replay.db"], ops)
    for l, got in zip(ops, o):
        print(l[:100], "|", got[:160])
    print("oracle:", judge(ops, o))
    ctx.case("replay"); ctx.case("replay2")
