#!/bin/bash
# usage: tools/harmcheck.sh <name (harmless/<name>.diff)> <Cxx> [<Cxx> ...]
# applies a behaviour-preserving patch to a scratch worktree of /repo and runs the given checks (quick) against it:
# every check must stay quiet (exit 0, no VIOLATION line)
cd "$(dirname "$0")/.."
n=$1; shift
wt=/tmp/harmv-$n
git -C /repo worktree remove --force $wt 2>/dev/null; rm -rf $wt
git -C /repo worktree add -q --detach $wt HEAD || exit 2
git -C $wt apply "$PWD/harmless/$n.diff" || { echo "$n: patch does not apply"; git -C /repo worktree remove --force $wt; exit 2; }
for c in "$@"; do
  out=$(VERIF_REPO=$wt timeout 3000 ./vcheck $c --tier quick 2>&1); rc=$?
  echo "$n $c rc=$rc $(echo "$out" | grep -c '^VIOLATION') violations | $(echo "$out" | grep '^VIOLATION' | head -2 | tr '\n' ' ' | cut -c1-200) $(echo "$out" | tail -1 | cut -c1-160)"
done
git -C /repo worktree remove --force $wt
