#!/bin/bash
# Re-runs every registered quick command on /repo (seed 1) so that the committed evidence files describe quick runs.
cd "$(dirname "$0")/.."
export VERIF_SEED=${VERIF_SEED:-1}
for p in $(python3 -c "import json; print(' '.join(c['property_id'] for c in json.load(open('MANIFEST.json'))['checks']))"); do
  s=$(date +%s); out=$(timeout 2400 ./vcheck $p --tier quick 2>&1); rc=$?
  echo "$p rc=$rc $(( $(date +%s) - s ))s $(echo "$out" | grep -c '^VIOLATION') violations | $(echo "$out" | tail -1 | cut -c1-150)"
done
python3-vt - <<'PY'
import json, glob, jsonschema
s = json.load(open('/root/.vp/EVIDENCE.schema.json'))
for f in sorted(glob.glob('evidence/*.json')):
    try: jsonschema.validate(json.load(open(f)), s)
    except Exception as e: print("INVALID", f, str(e)[:120])
print("evidence validated")
PY
