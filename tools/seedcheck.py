#!/usr/bin/env python3
"""Confirms a seeded change written by an independent agent and runs our checks against it.
usage: tools/seedcheck.py <seed-id> <Cxx> <agent-worktree> [--checks C01,C06] [--tier quick|thorough]
Steps (all in scratch worktrees; /repo is patched only for the duration of the check and restored):
 1. copy <agent-worktree>/_seed -> /verif/seeded/<seed-id>/
 2. scratch worktree of /repo HEAD: build, demo must pass (exit 0); apply patch, build, ctest must pass 100 %, demo must fail
 3. git -C /repo apply patch; ./vcheck for each check; git -C /repo checkout -- .
 4. write meta.json"""
import json, os, shutil, subprocess, sys, time
ROOT = os.path.dirname(os.path.dirname(os.path.abspath(__file__)))
sid, pid, awt = sys.argv[1:4]
checks = [pid]; tiers = ["quick"]
for i, a in enumerate(sys.argv):
    if a == "--checks": checks = sys.argv[i + 1].split(",")
    if a == "--tier": tiers = sys.argv[i + 1].split(",")
dst = os.path.join(ROOT, "seeded", sid)
if os.path.isdir(os.path.join(awt, "_seed")):
    shutil.rmtree(dst, ignore_errors=True)
    shutil.copytree(os.path.join(awt, "_seed"), dst)
def sh(cmd, **kw):
    p = subprocess.run(cmd, shell=True, stdout=subprocess.PIPE, stderr=subprocess.STDOUT, text=True, errors="replace", **kw)
    return p.returncode, p.stdout
meta = dict(id=sid, property=pid, ran=[])
wt = "/tmp/seedverify-" + sid
sh("git -C /repo worktree remove --force %s; rm -rf %s" % (wt, wt))
sh("git -C /repo worktree add -q --detach %s HEAD" % wt)
try:
    shutil.copytree(dst, wt + "/_seed")
    cm = "cmake -G Ninja -S %s -B %s/_b -DCMAKE_BUILD_TYPE=RelWithDebInfo -DBUILD_TESTS=ON -DBUILD_EXAMPLES=OFF >/dev/null 2>&1 && cmake --build %s/_b > %s/_b/build.log 2>&1" % (wt, wt, wt, wt)
    rc, o = sh(cm); meta["build_unpatched"] = rc
    rc0, o0 = sh("cd %s/_seed && timeout 300 bash ./run.sh %s/_b" % (wt, wt)); meta["demo_unpatched_exit"] = rc0
    rc, o = sh("git -C %s apply %s/patch.diff" % (wt, dst)); meta["patch_applies"] = rc == 0
    rc, o = sh("cmake --build %s/_b > %s/_b/build.log 2>&1" % (wt, wt)); meta["build_patched"] = rc
    rc, o = sh("ctest --test-dir %s/_b -j8 --timeout 900 2>&1 | grep -E 'tests passed|tests failed'" % wt); meta["ctest_patched"] = o.strip()
    rc1, o1 = sh("cd %s/_seed && timeout 300 bash ./run.sh %s/_b" % (wt, wt)); meta["demo_patched_exit"] = rc1
    meta["demo_patched_output_tail"] = o1[-400:]
except Exception as ex:
    meta["error"] = str(ex)
meta["confirmed"] = bool(meta.get("patch_applies") and meta.get("demo_unpatched_exit") == 0 and meta.get("demo_patched_exit") != 0 and "100% tests passed" in meta.get("ctest_patched", ""))
print("confirmed:", meta["confirmed"], {k: meta.get(k) for k in ("demo_unpatched_exit", "demo_patched_exit", "ctest_patched")})
try:
    if meta["confirmed"]:
        # the patched scratch worktree stands in for /repo (VERIF_REPO), so that concurrent work on /repo is not disturbed;
        # equivalent to `git -C /repo apply patch.diff; ./vcheck ...; git -C /repo checkout -- .`
        sh("rm -rf %s/_b %s/_seed" % (wt, wt))
        meta["how"] = "VERIF_REPO=<scratch worktree of /repo HEAD with patch.diff applied> ./vcheck <check> --tier <tier>"
        for c in checks:
            for t in tiers:
                t0 = time.time()
                rc, o = sh("cd %s && VERIF_REPO=%s timeout 3000 ./vcheck %s --tier %s 2>&1 | cut -c1-400 | grep -v '^KNOWN' | grep -E '^VIOLATION|violation:|obligations' | tail -12" % (ROOT, wt, c, t))
                viol = [l for l in o.splitlines() if l.startswith("VIOLATION")]
                res = dict(check=c, tier=t, caught=bool(viol), no_failing_input=any("no-failing-input-found" in l for l in viol) and not any("no-failing-input-found" not in l for l in viol),
                           wall_s=round(time.time() - t0), tail=o[-700:])
                meta["ran"].append(res)
                print(c, t, "caught" if viol else "MISSED", "(no-failing-input-found)" if res["no_failing_input"] else "")
                if viol: break
finally:
    sh("git -C /repo worktree remove --force %s; rm -rf %s" % (wt, wt))
try:
    s = json.load(open(os.path.join(ROOT, "seeded", "sites.json"))).get(sid)
    if s:
        meta["site"], meta["needs"], meta["history"] = s
except Exception:
    pass
json.dump(meta, open(os.path.join(dst, "meta.json"), "w"), indent=1)
