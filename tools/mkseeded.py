#!/usr/bin/env python3
"""Writes design_notes/01_seeded.md from seeded/*/meta.json (+ notes.md first lines)."""
import json, os, glob
ROOT = os.path.dirname(os.path.dirname(os.path.abspath(__file__)))
rows = []
for d in sorted(glob.glob(os.path.join(ROOT, "seeded", "*"))):
    mp = os.path.join(d, "meta.json")
    if not os.path.exists(mp):
        continue
    m = json.load(open(mp))
    hist = m.get("history", [])
    res = "; ".join("%s %s: %s%s" % (r["check"], r["tier"], "caught" if r["caught"] else "MISSED", " (no-failing-input-found)" if r.get("no_failing_input") else "") for r in m.get("ran", []))
    rows.append("| `%s` | %s | %s | %s | %s | %s |" % (os.path.basename(d), m["property"], m.get("site", ""), m.get("needs", ""), "yes" if m.get("confirmed") else "NO", res + (" — earlier: " + "; ".join(hist) if hist else "")))
out = ["## Seeded changes written by independent agents (`/verif/seeded/`)\n",
       "Each change was produced by a fresh sub-agent that saw only the property text and a scratch worktree of /repo (nothing from /verif). "
       "`tools/seedcheck.py` confirmed each in a scratch worktree (demo passes unpatched, fails patched; the 23 ctest entries pass with the patch) and then ran "
       "the registered checks against the patched tree (`VERIF_REPO=<scratch worktree with patch.diff applied>`, equivalent to applying the patch to /repo and "
       "reverting it; done this way because other work was using /repo at the same time).\n",
       "| seed | property | patched site | needs to manifest | confirmed | our checks |", "|---|---|---|---|---|---|"] + rows + [""]
open(os.path.join(ROOT, "design_notes", "01_seeded.md"), "w").write("\n".join(out))
print(len(rows), "seeds")
