#!/usr/bin/env python3
"""Rewrites `commit` ids in findings/*.json from agent fix-branch hashes to the cherry-picked hashes on /repo main (matched by subject)."""
import json, os, subprocess, glob, re
ROOT = os.path.dirname(os.path.dirname(os.path.abspath(__file__)))
def log(rev):
    return [l.split(" ", 1) for l in subprocess.check_output(["git", "-C", "/repo", "log", "--format=%h %s", rev]).decode().splitlines()]
main = {s: h for h, s in log("main")}
allc = {}
for br in subprocess.check_output(["git", "-C", "/repo", "branch", "--format=%(refname:short)"]).decode().split():
    for h, s in log(br):
        allc[h] = s
for f in glob.glob(os.path.join(ROOT, "findings", "*.json")):
    fs = json.load(open(f)); ch = False
    for e in fs:
        c = e.get("commit", "")
        for h in re.findall(r"\b[0-9a-f]{7,40}\b", c):
            s = allc.get(h[:7])
            if s and s in main and main[s] != h[:7]:
                e["commit"] = c.replace(h, main[s]); e["line"] = e.get("line", "").replace(h, main[s]); ch = True; c = e["commit"]
    if ch:
        json.dump(fs, open(f, "w"), indent=1); print("updated", os.path.basename(f))
