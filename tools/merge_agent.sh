#!/bin/bash
# merge an agent branch: union-resolve lean/Driver.lean, regenerate MANIFEST/known_findings
n=$1
git merge --no-edit agent-$n > /var/tmp/merge-$n.log 2>&1
python3 - <<'PY'
import re,subprocess
u=subprocess.run(['git','diff','--name-only','--diff-filter=U'],capture_output=True,text=True).stdout.split()
for f in u:
    if f in ('MANIFEST.json','known_findings.json') or f.startswith('evidence/'):
        subprocess.check_call(['git','checkout','--ours',f])
    elif f=='lean/Driver.lean':
        out=[]; seen=set()
        for l in open(f):
            if l.startswith(('<<<<<<<','=======','>>>>>>>')): continue
            key=l.strip()
            if key and key in seen and (key.startswith('import') or key.startswith('|')): continue
            seen.add(key); out.append(l)
        # keep the usage/default arm last
        body=[l for l in out if not l.strip().startswith('| _ =>')]
        dflt=[l for l in out if l.strip().startswith('| _ =>')][:1]
        open(f,'w').write("".join(body+dflt))
    else:
        print("UNRESOLVED", f)
PY
python3 tools/mkmanifest.py | tail -1
git add -A && git commit -qm "merge agent-$n" && echo merged $n
