#!/usr/bin/env python3
"""Rebuilds Part II ("as built") of DESIGN.md from design_notes/*.md; Part I (the design) is kept verbatim."""
import os, glob
ROOT = os.path.dirname(os.path.dirname(os.path.abspath(__file__)))
MARK = "\n<!-- PART II GENERATED FROM design_notes/ BY tools/mkdesign.py -->\n"
p = os.path.join(ROOT, "DESIGN.md")
t = open(p).read().split(MARK)[0].rstrip() + "\n"
out = [t, MARK, "\n# Part II — as built\n\n", open(os.path.join(ROOT, "design_notes", "00_overview.md")).read(), "\n"]
if os.path.exists(os.path.join(ROOT, "design_notes", "01_seeded.md")):
    out += [open(os.path.join(ROOT, "design_notes", "01_seeded.md")).read(), "\n"]
for f in sorted(glob.glob(os.path.join(ROOT, "design_notes", "C*.md"))):
    out += ["\n----------------------------------------------------------------------------\n\n", open(f).read().replace("\n# ", "\n## ").replace("# C", "## C", 1) if False else open(f).read()]
open(p, "w").write("".join(out))
print("DESIGN.md:", sum(len(x) for x in out), "bytes")
