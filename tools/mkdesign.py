#!/usr/bin/env python3
"""Rebuilds Part II ("as built") of DESIGN.md from design_notes/*.md; Part I (the design) is kept verbatim."""
import os, glob
ROOT = os.path.dirname(os.path.dirname(os.path.abspath(__file__)))
MARK = "\n<!-- PART II GENERATED FROM design_notes/ BY tools/mkdesign.py -->\n"
p = os.path.join(ROOT, "DESIGN.md")
t = open(p).read().split(MARK)[0].rstrip() + "\n"
out = [t, MARK, "\n# Part II — as built\n\n", open(os.path.join(ROOT, "design_notes", "00_overview.md")).read(), "\n"]
# status table
import importlib, json, sys
sys.path.insert(0, ROOT)
props = [json.loads(l) for l in open(os.path.join(ROOT, "properties.jsonl"))]
kf = json.load(open(os.path.join(ROOT, "known_findings.json")))["findings"]
seeds = {}
for d in glob.glob(os.path.join(ROOT, "seeded", "*", "meta.json")):
    m = json.load(open(d)); seeds.setdefault(m["property"], []).append(m)
rows = ["## Status per property (generated)\n", "| id | title | theorems audited | findings fixed / open | seeded changes caught |", "|---|---|---|---|---|"]
for pr in props:
    pid = pr["id"]
    try:
        mod = importlib.import_module("checks." + pid.lower()); nth = len(getattr(mod, "THEOREMS", []))
    except Exception:
        nth = 0
    fx = sum(1 for f in kf if f["property"] == pid and f["status"] == "fixed"); op = [f["id"] for f in kf if f["property"] == pid and f["status"] == "open"]
    ss = seeds.get(pid, [])
    caught = sum(1 for m in ss if any(r["caught"] for r in m.get("ran", [])))
    rows.append("| %s | %s | %d | %d / %s | %d of %d |" % (pid, pr["title"], nth, fx, ", ".join(op) or "0", caught, len(ss)))
out += ["\n".join(rows), "\n\n"]
try:
    import subprocess
    log = subprocess.check_output(["git", "-C", "/repo", "log", "--reverse", "--format=%h %s", "e6d95ae..HEAD"]).decode().splitlines()
    out += ["## Repairs committed to /repo (`fix:` commits, oldest first; %d)\n\n" % len(log),
            "Every one is a minimal unguarded commit for a genuine defect found by a check, a proof attempt or a model/implementation divergence; "
            "the 23 ctest entries (79 baseline tests) pass with all of them. No hook commits exist: the checks reach internals by `#include` of the .c file, "
            "`-Wl,--wrap` and the existing `IW_TESTS` switch, so `-DIOWOW_VERIF=1` currently guards nothing.\n\n",
            "\n".join("* `%s` %s" % tuple(l.split(" ", 1)) for l in log), "\n\n"]
except Exception as ex:
    out += ["(fix list unavailable: %s)\n" % ex]
if os.path.exists(os.path.join(ROOT, "design_notes", "01_seeded.md")):
    out += [open(os.path.join(ROOT, "design_notes", "01_seeded.md")).read(), "\n"]
for f in sorted(glob.glob(os.path.join(ROOT, "design_notes", "C*.md"))):
    out += ["\n----------------------------------------------------------------------------\n\n", open(f).read().replace("\n# ", "\n## ").replace("# C", "## C", 1) if False else open(f).read()]
open(p, "w").write("".join(out))
print("DESIGN.md:", sum(len(x) for x in out), "bytes")
