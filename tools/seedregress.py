#!/usr/bin/env python3
"""Re-runs every seeded change against the current checks (quick tier, seed 1): scratch worktree of /repo HEAD + patch.diff,
`VERIF_REPO=<worktree> ./vcheck <check> --tier quick`. Writes seeded/REGRESSION.json. usage: tools/seedregress.py [-j N] [ids...]"""
import json, os, subprocess, sys, glob, concurrent.futures as cf
ROOT = os.path.dirname(os.path.dirname(os.path.abspath(__file__)))
args = sys.argv[1:]
jobs = 3
if "-j" in args:
    i = args.index("-j"); jobs = int(args[i + 1]); del args[i:i + 2]
ids = args or sorted(os.path.basename(os.path.dirname(f)) for f in glob.glob(os.path.join(ROOT, "seeded", "*", "patch.diff")))


def checks_for(sid):
    f = os.path.join(ROOT, "seeded", sid, "meta.json")
    m = json.load(open(f)) if os.path.exists(f) else {"property": sid.split("-")[1]}
    cs = [x["check"] for x in m.get("ran", []) if x.get("caught")]
    return sorted(set(cs)) or [m["property"]]


def one(sid):
    wt = "/tmp/seedreg-" + sid
    sh = lambda c: subprocess.run(c, shell=True, stdout=subprocess.PIPE, stderr=subprocess.STDOUT, text=True, errors="replace")
    sh("git -C /repo worktree remove --force %s; rm -rf %s" % (wt, wt))
    sh("git -C /repo worktree add -q --detach %s HEAD" % wt)
    res = dict(id=sid, runs=[])
    try:
        p = sh("git -C %s apply %s" % (wt, os.path.join(ROOT, "seeded", sid, "patch.diff")))
        if p.returncode:
            res["stale"] = True
            return res
        for c in checks_for(sid):
            p = sh("cd %s && VERIF_REPO=%s timeout 1500 ./vcheck %s --tier quick" % (ROOT, wt, c))
            v = [l for l in p.stdout.splitlines() if l.startswith("VIOLATION")]
            res["runs"].append(dict(check=c, caught=bool(v), no_failing_input=bool(v) and all(l.rstrip().endswith("no-failing-input-found") for l in v)))
    finally:
        sh("git -C /repo worktree remove --force %s" % wt)
    return res


out = []
with cf.ThreadPoolExecutor(jobs) as ex:
    for r in ex.map(one, ids):
        out.append(r)
        print(r["id"], "stale" if r.get("stale") else " ".join("%s:%s%s" % (x["check"], "caught" if x["caught"] else "MISSED", "(nfi)" if x["no_failing_input"] else "") for x in r["runs"]), flush=True)
f = os.path.join(ROOT, "seeded", "REGRESSION.json")
old = {x["id"]: x for x in (json.load(open(f)) if os.path.exists(f) else [])}
old.update({x["id"]: x for x in out})
json.dump([old[k] for k in sorted(old)], open(f, "w"), indent=1)
