#!/usr/bin/env python3
"""Regenerates MANIFEST.json (from the MANIFEST dict of every checks/cXX.py) and known_findings.json
(from findings/*.json). Run after adding/changing a check; both outputs are committed."""
import importlib, json, os, sys
ROOT = os.path.dirname(os.path.dirname(os.path.abspath(__file__)))
sys.path.insert(0, ROOT)
props = [json.loads(l) for l in open(os.path.join(ROOT, "properties.jsonl"))]
checks, na = [], []
for p in props:
    pid = p["id"]
    path = os.path.join(ROOT, "checks", pid.lower() + ".py")
    m = None
    if os.path.exists(path):
        m = getattr(importlib.import_module("checks." + pid.lower()), "MANIFEST", None)
    if not m:
        na.append(dict(property_id=pid, reason="check not built yet (work in progress; the design for it is in DESIGN.md section 5)"))
        continue
    if m.get("not_applicable"):
        na.append(dict(property_id=pid, reason=m["not_applicable"]))
        continue
    checks.append(dict(
        property_id=pid, quick_cmd="./vcheck %s --tier quick" % pid, thorough_cmd="./vcheck %s --tier thorough" % pid,
        evidence_file="/verif/evidence/%s.json" % pid, replay_cmd_template="./vcheck %s --replay {path}" % pid,
        engine="lean4-model+correspondence",
        level_claimed=dict(category=m.get("level", "proof"), text=m["text"], design_ref="DESIGN.md section 5, " + pid),
        level_note=m["note"], technique=m.get("technique", "Lean 4 theorems about an executable model + differential correspondence with the C implementation")))
hooks = json.load(open(os.path.join(ROOT, "tools", "hooks.json")))
man = dict(
    version=1,
    setup_cmd="cd lean && lake build IwModel Drv drv",
    hooks=hooks,
    engines=[dict(name="lean4-model+correspondence", path="/verif/vcheck", serves_properties=[c["property_id"] for c in checks],
                  kind_free_text="Lean 4 (core + single Mathlib modules) theorems about hand-written executable models; translator regenerates constants/tables from /repo on every run; C harnesses (ASan/UBSan/TSan) drive the real code on the same op files as the compiled Lean driver and outputs are diffed; property oracles search for a failing input when a proof or the correspondence breaks")],
    checks=checks, not_applicable=na,
    notes="Every check rebuilds /repo's working tree (content-hash cached under /var/tmp/iwverif-cache), regenerates lean/IwModel/Gen, rebuilds and audits the Lean theorems, then runs the correspondence. See DESIGN.md.")
json.dump(man, open(os.path.join(ROOT, "MANIFEST.json"), "w"), indent=1)
fs = []
fd = os.path.join(ROOT, "findings")
for f in sorted(os.listdir(fd)):
    if f.endswith(".json"):
        fs += json.load(open(os.path.join(fd, f)))
json.dump(dict(comment="Genuine defects of Softmotions/iowow found by the checks. `open` entries are reported as KNOWN-FINDING and suppress only inputs matching `match`; `fixed` entries suppress nothing. Aggregated from findings/*.json by tools/mkmanifest.py; never written at run time.",
               findings=fs), open(os.path.join(ROOT, "known_findings.json"), "w"), indent=1)
print("checks:", [c["property_id"] for c in checks], "not_applicable:", [n["property_id"] for n in na], "findings:", len(fs))
