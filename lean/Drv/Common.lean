import IwModel.Model.Bytes
/-! Line-protocol plumbing shared by all model drivers. -/
namespace Drv
open IwModel

def words (line : String) : List String :=
  (line.trimAscii.toString.splitOn " ").filter (· ≠ "")

/-- run a stateful step function over stdin, one output line per input line -/
partial def loop {σ : Type} (step : σ → List String → σ × String) (s : σ) : IO Unit := do
  let stdin ← IO.getStdin
  let stdout ← IO.getStdout
  let rec go (s : σ) : IO Unit := do
    let line ← stdin.getLine
    if line.isEmpty then
      stdout.flush
      return ()
    let (s', out) := step s (words line)
    stdout.putStrLn out
    go s'
  go s

def pureLoop (f : List String → String) : IO Unit :=
  loop (fun (_ : Unit) ws => ((), f ws)) ()

def hexArg (s : String) : Bytes := (ofHex s).getD []

def intArg (s : String) : Int := s.toInt?.getD 0
def natArg (s : String) : Nat := s.toNat?.getD 0

end Drv
