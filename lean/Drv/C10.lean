import Drv.Common
import IwModel.Model.Fsm
import IwModel.Model.FsmScan
/-! Driver for the allocator model (`drv c10`, also used by C11). Protocol: see harness/h_c10.c. -/
namespace Drv.C10
open IwModel IwModel.Fsm Drv

/-- the two `double` computations of `_fsm_blk_allocate_lw`, with the same operations in the same order -/
def floatHeur : Heur where
  over st rest :=
    let d := Float.ofNat st.sum / Float.ofNat st.num - Float.ofNat rest
    let s := Float.ofNat st.var / Float.ofNat st.num * 6.0
    s > 1 && d > 0 && d * d > s
  varInc st len :=
    let avg := Float.ofNat st.sum / Float.ofNat st.num
    let t := (Float.ofNat len - avg) * (Float.ofNat len - avg)
    -- `(uint64_t) (t + 0.5L)`: the sum is exact in long double
    let fl := t.floor
    let r := if t - fl ≥ 0.5 then fl + 1 else fl
    r.toUInt64.toNat

structure Live where
  addr : Nat
  len : Nat
deriving Inhabited

structure DSt where
  s : St := { bpow := 6, aunit := 4096 }
  opened : Bool := false
  live : Array Live := #[]
  noTrim : Bool := false
  pat : Bool := false
deriving Inhabited

def extStr (l : List Ext) : String :=
  if l.isEmpty then "-" else ",".intercalate (l.map fun (o, n) => s!"{o}:{n}")

def stateLine (d : DSt) : String :=
  let s := d.s
  s!"st bmoff={s.bmoff} bmlen={s.bmlen} lf={s.lfoff},{s.lflen} fsize={s.fsize} crz={s.stats.num},{s.stats.sum},{s.stats.var} tree={extStr s.tree} runs={extStr (runs s.bits)} live=ok"

/-- address operand: `N`, `#j`, `#j+N`, `#j-N`, `bm+N`, `end+N` -/
def addrSpec (d : DSt) (w : String) : Nat :=
  match w.splitOn "+" with
  | [a] =>
    match w.splitOn "-" with
    | [a, b] => base a - natArg b
    | _ => base a
  | [a, b] => base a + natArg b
  | _ => 0
where
  base (a : String) : Nat :=
    if a.startsWith "#" then
      if d.live.size = 0 then 0 else (d.live[(natArg (a.drop 1).toString) % d.live.size]!).addr
    else if a == "bm" then d.s.bmoff
    else if a == "end" then nbits d.s * bsz d.s
    else natArg a

def liveIdx (d : DSt) (w : String) : Option Nat :=
  if d.live.size = 0 then none else some (natArg (w.drop 1).toString % d.live.size)

def patWrite (d : DSt) (addr len : Nat) : DSt :=
  if d.pat ∧ len > 0 then { d with s := ensureSize d.s (addr + len) } else d

def hexWords (h : String) : List FsmScan.Word :=
  let bs := hexArg h
  let rec go (bs : List Nat) (fuel : Nat) : List FsmScan.Word :=
    match fuel, bs with
    | 0, _ => []
    | _, [] => []
    | f + 1, bs =>
      let w := (bs.take 8).zipIdx.foldl (fun acc (b, i) => acc + b * 256 ^ i) 0
      BitVec.ofNat 64 w :: go (bs.drop 8) f
  go bs (bs.length + 1)

/-- the `pool.copy` call of `reallocate`: `cp=<from>,<n>,<to>` (model: `some (from, to, n)`) -/
def cpText : Option (Nat × Nat × Nat) → String
  | some (src, dst, n) => s!"cp={src},{n},{dst}"
  | none => "cp=-"

def optStr : Option Nat → String
  | some n => s!"1 {n}"
  | none => "0 0"

def step (d : DSt) (ws : List String) : DSt × String :=
  match ws with
  | ["open", bpow, hdrlen, bmlen, _mmapall, strict, _lsnr, notrim, pat] =>
    let (s, rc) := openNew (natArg bpow) 4096 (natArg hdrlen) (natArg bmlen) (strict == "1")
    ({ s := s, opened := rc = .ok, live := #[], noTrim := notrim == "1", pat := pat == "1" }, s!"open {rc.name}")
  | ["scan", dir, h, off, lim] =>
    let w := hexWords h
    (d, "scan " ++ optStr (if dir == "next" then FsmScan.findNext w (natArg off) (natArg lim)
                           else FsmScan.findPrev w (natArg off) (natArg lim)))
  | ["ffs", h] => (d, s!"ffs {FsmScan.ffs (BitVec.ofNat 64 (natArg h))}")
  | ["rev", h] => (d, s!"rev {(FsmScan.rev64 (BitVec.ofNat 64 (natArg h))).toNat}")
  | ["load", h] => (d, "load " ++ extStr (FsmScan.load (hexArg h)))
  | _ =>
    if !d.opened then (d, "bad-op") else
    match ws with
    | ["alloc", len, hint, flags] =>
      let (s, rc, addr, olen) := allocate floatHeur d.s (natArg len) (addrSpec d hint) (Flags.ofNat (natArg flags))
      let d := { d with s := s }
      if rc = .ok then
        let out := s!"alloc 0 {addr} {olen} {s.fsize} bm={s.bmoff},{s.bmlen}"
        (patWrite { d with live := d.live.push ⟨addr, olen⟩ } addr olen, out)
      else (d, s!"alloc {rc.name} 0 0 {s.fsize} bm={s.bmoff},{s.bmlen}")
    | "dealloc" :: j :: rest =>
      match liveIdx d j with
      | none => (d, "dealloc none")
      | some i =>
        let r := d.live[i]!
        let bs := bsz d.s
        let lblk := r.len / bs
        let (s', n') := match rest with
          | [sw, nw] =>
            let s' := natArg sw % lblk
            (s', 1 + (natArg nw - 1) % (lblk - s'))
          | _ => (0, lblk)
        let a := r.addr + s' * bs
        let l := n' * bs
        let (s, rc) := deallocate d.s a l
        if rc = .ok then
          let live := d.live
          let live := if s' + n' < lblk then live.push ⟨a + l, r.len - (s' + n') * bs⟩ else live
          let live := if s' > 0 then live.set! i ⟨r.addr, s' * bs⟩ else live.eraseIdx! i
          ({ d with s := s, live := live }, s!"dealloc 0 {a} {l}")
        else ({ d with s := s }, s!"dealloc {rc.name} {a} {l}")
    | ["rawdealloc", a, l] =>
      let (s, rc) := deallocate d.s (addrSpec d a) (natArg l)
      ({ d with s := s }, s!"rawdealloc {rc.name}")
    | ["realloc", j, nlen, flags] =>
      match liveIdx d j with
      | none => (d, "realloc none")
      | some i =>
        let r := d.live[i]!
        -- without pattern bytes the harness first makes the old region file-backed (copying from past EOF is C12's subject)
        let d := if d.pat then d else { d with s := ensureSize d.s (r.addr + r.len) }
        let (s, rc, addr, len, cp) := reallocate floatHeur d.s (natArg nlen) r.addr r.len (Flags.ofNat (natArg flags))
        let d := { d with s := s }
        if rc = .ok then
          let d := if len = 0 then { d with live := d.live.eraseIdx! i } else { d with live := d.live.set! i ⟨addr, len⟩ }
          (patWrite d addr len, s!"realloc 0 {r.addr} {r.len} {addr} {len} pat=ok bm={s.bmoff},{s.bmlen} {cpText cp}")
        else (d, s!"realloc {rc.name} {r.addr} {r.len} {r.addr} {r.len} pat=ok bm={s.bmoff},{s.bmlen} {cpText cp}")
    | ["rawrealloc", a, olen, nlen, flags] =>
      let (s, rc, addr, len, cp) := reallocate floatHeur d.s (natArg nlen) (addrSpec d a) (natArg olen) (Flags.ofNat (natArg flags))
      ({ d with s := s }, if rc = .ok then s!"rawrealloc 0 {addr} {len} {cpText cp}" else s!"rawrealloc {rc.name} 0 0 {cpText cp}")
    | ["status", a, l, al] =>
      let addr := addrSpec d a
      let len := if l == "=" then (match liveIdx d a with | some i => (d.live[i]!).len | none => 0) else natArg l
      (d, s!"status {(checkStatus d.s addr len (al == "1")).name}")
    | ["check"] => (d, stateLine d)
    | ["sync"] => ({ d with s := sync d.s }, "sync 0")
    | ["reopen"] =>
      let (s, rc) := reopen d.s d.noTrim
      ({ d with s := s }, s!"reopen {rc.name} {s.fsize}")
    | ["clear", trim] =>
      let (s, rc) := clear d.s (trim == "1")
      ({ d with s := s, live := #[] }, s!"clear {rc.name}")
    | _ => (d, "bad-op")

end Drv.C10
