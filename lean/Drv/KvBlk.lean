import Drv.Common
import IwModel.Model.Format
import IwModel.Model.KvBlk
/-! `drv kvblk`: replays a single-node history (the op lines of harness/h_kv.c: `open`, `db`, `put`, `del`,
`cur c open <db> eq <key> 0`, `cur c set <val> 0`, `cur c close`, `close`) on the data-block writer model
`IwModel.KvBlk` and, at every `image <path>` line, compares the model block with the data block of the only node
in that file image: size power, cached index size, all 32 (off, len) pairs, the records of all used slots, and
the bytes of every live range (header + index, each record) of `KvBlk.serialize`.
Answers are the harness's answers (`put ok`, `del ok|notfound`, `cur ok|notfound|nocursor`, `dump` without contents); `image` when the
block agrees, `image UNREADABLE|BAD <reason>` when the independent reader / audit of Model/Format.lean rejects the file (the property
itself fails), `image DIFF <what>` when the file is well-formed but differs from the model block. -/
namespace Drv.KvBlk
open IwModel IwModel.FormatEnc IwModel.Format IwModel.KvBlk

structure St where
  blk : Option KvBlk := none
  cur : Option Bytes := none
  isOpen : Bool := false
  trace : Bool := false      -- `drv kvblk-trace`: no image reading, every answer carries the branch taken
  nimg : Nat := 0            -- images seen: every 8th one (and every image of a closed store) gets the full audit incl. the ledger

/-- which branch of `_kvblk_addkv` a call takes -/
def addTag (b : KvBlk) (k v : Bytes) : String :=
  let psz := recSize k v
  if b.zidx.isNone then "add:full" else
  if ¬ msz b < rsz b psz then "add:fits"
  else if compactedOffset b ≠ b.maxoff then
    (if ¬ msz (compact b) < rsz (compact b) psz then "add:compact-fits" else "add:compact-grow")
  else "add:grow"

/-- which branch of `_kvblk_rmkv` -/
def rmTag (b : KvBlk) (i : Nat) : String :=
  let b1 := rmkv b i true
  (if (b.slots.getD i Slot.free).off ≥ b.maxoff then "rm:top" else "rm:inner") ++
  (if b.szpow > Gen.KVBLK_INISZPOW then
    (if 2 ^ b.szpow ≥ 2 * compactedDsize b1 then
      (if compactedOffset b1 = b1.maxoff then " rm:shrink" else " rm:shrink-compact") ++
      (if shrinkPow (b.szpow - 1) (compactedDsize b1) < b.szpow - 1 then " rm:shrink-many" else "") ++
      (if 2 ^ b.szpow = 2 * compactedDsize b1 then " rm:shrink-exact-half" else "") ++
      (if 2 ^ (shrinkPow (b.szpow - 1) (compactedDsize b1)) = compactedDsize b1 then " rm:shrink-exact-fit" else "")
     else " rm:big-keep")
   else "")

/-- which branch of `_kvblk_updatev` -/
def updTag (b : KvBlk) (i : Nat) (v : Bytes) : String :=
  let kvp := b.slots.getD i Slot.free
  let rsize := recSize kvp.key v
  if rsize = kvp.len then "upd:same"
  else if rsize < kvp.len then "upd:shrink"
  else if ¬ (kvp.off - prevOff b.slots kvp.off ≥ rsize) then
    (if kvp.off - prevOff b.slots kvp.off + 1 = rsize then "upd:move upd:gap-short1 " else "upd:move ") ++ addTag (rmkv b i true) kvp.key v
  else if 2 ^ b.szpow - Gen.KVBLK_HDRSZ - b.idxsz - b.maxoff + vn kvp.len < vn rsize then "upd:gap-noidx " ++ addTag (rmkv b i true) kvp.key v
  else if kvp.off - prevOff b.slots kvp.off = rsize then "upd:gap upd:gap-exact" else "upd:gap"

def findKey (b : KvBlk) (k : Bytes) : Option Nat := b.slots.findIdx? fun s => s.len ≠ 0 ∧ s.key = k

def usedIdx (b : KvBlk) : List Nat := (List.range b.slots.length).filter fun i => (b.slots.getD i Slot.free).len ≠ 0

def dropEmpty (b : KvBlk) : Option KvBlk := if (usedIdx b).isEmpty then none else some b

/-- `iwkv_put` / `iwkv_cursor_set` on a store with one node -/
def putKv0 (st : St) (k v : Bytes) : St × String :=
  match st.blk with
  | none =>
    match addkv (create Gen.KVBLK_INISZPOW) k v with
    | .ok b _ => ({ st with blk := some (sync b) }, "ok")
    | .full => (st, "FULL")
    | .maxkvsz => (st, "maxkvsz")
  | some b =>
    match findKey b k with
    | some i =>
      match updatev b i v with
      | .ok b' _ => ({ st with blk := some (sync b') }, "ok")
      | .failed b' _ => ({ st with blk := some (sync b') }, "maxkvsz")
    | none =>
      match addkv b k v with
      | .ok b' _ => ({ st with blk := some (sync b') }, "ok")
      | .full => (st, "FULL")
      | .maxkvsz => (st, "maxkvsz")

def putKv (st : St) (k v : Bytes) : St × String :=
  let r := putKv0 st k v
  if !st.trace then r else
  let tag := match st.blk with
    | none => "new " ++ addTag (create Gen.KVBLK_INISZPOW) k v
    | some b => match findKey b k with
      | some i => updTag b i v
      | none => addTag b k v
  (r.1, r.2 ++ " " ++ tag)

def delKv (st : St) (k : Bytes) : St × String :=
  match st.blk with
  | none => (st, "notfound")
  | some b =>
    match findKey b k with
    | none => (st, "notfound")
    | some i => ({ st with blk := dropEmpty (sync (rmkv b i false)) },
                 if st.trace then "ok " ++ rmTag b i ++ (if (dropEmpty (sync (rmkv b i false))).isNone then " rm:last" else "") else "ok")

def cmpNode (m : Img) (s : Sblk) (b : KvBlk) : Option String :=
  if s.szpow ≠ b.szpow then some s!"szpow file {s.szpow} model {b.szpow}"
  else if s.slots ≠ pairs b then some s!"slots file {s.slots} model {pairs b}"
  else if s.idxsz ≠ b.idxsz then some s!"idxsz file {s.idxsz} model {b.idxsz}"
  else if (s.pi.mergeSort fun a c => a ≤ c) ≠ usedIdx b then some s!"pi {s.pi} used {usedIdx b}"
  else if s.pi.length ≠ s.recs.length then some "recs"
  else
    match (s.pi.zip s.recs).find? fun x => let sl := b.slots.getD x.1 Slot.free; (sl.key, sl.val) ≠ x.2 with
    | some x => some s!"record of slot {x.1}: file key {toHex x.2.1} model key {toHex (b.slots.getD x.1 Slot.free).key}"
    | none =>
      let ka := s.kblk * bs
      let img := serialize b
      match (blockWrites b).find? fun w => slice m (ka + w.1) w.2.length ≠ peek img w.1 w.2.length with
      | some w => some s!"bytes at block offset {w.1}"
      | none => none

def cmpImage (st : St) (path : String) : IO String := do
  let m := imgOf (← IO.FS.readBinFile path)
  -- first the independent reader + audit (the property itself), then the comparison with the model block
  let full := st.nimg % 8 = 0 || !st.isOpen
  let res := if full then audit m else (parse m).map fun f => (f, f.dbs.flatMap checkDb)
  match res with
  | .error e => return s!"image UNREADABLE {e}"
  | .ok (f, errs) =>
    match errs with
    | e :: _ => return s!"image BAD {e}"
    | [] =>
    match f.dbs with
    | [d] =>
      match d.nodes, st.blk with
      | [], none => return "image"
      | [s], some b =>
        match cmpNode m s b with
        | none => return "image"
        | some e => return s!"image DIFF {e}"
      | ns, b => return s!"image DIFF nodes in file {ns.length}, model has a block: {b.isSome}"
    | ds => return s!"image DIFF databases {ds.length}"

def step (st : St) (ws : List String) : IO (St × String) := do
  match ws with
  | "open" :: _ => return ({ isOpen := true, trace := st.trace }, "open ok")
  | ["close"] => return ({ st with isOpen := false, cur := none }, if st.isOpen then "close ok" else "close invalid_state")
  | ["image", path] => if st.trace then return (st, "image") else return ({ st with nimg := st.nimg + 1 }, ← cmpImage st path)
  | ["db", _, _] => return (st, "db ok")
  | ["dump", _] => return (st, "dump")
  | ["put", _, k, _, v, _, _] =>
    let (st', r) := putKv st (Drv.hexArg k) (Drv.hexArg v)
    return (st', "put " ++ r)
  | ["del", _, k, _] =>
    let (st', r) := delKv st (Drv.hexArg k)
    return (st', "del " ++ r)
  | ["cur", _, "open", _, "eq", k, _] =>
    match st.blk.bind (findKey · (Drv.hexArg k)) with
    | some _ => return ({ st with cur := some (Drv.hexArg k) }, "cur ok")
    | none => return ({ st with cur := none }, "cur notfound")
  | ["cur", _, "set", v, _] =>
    match st.cur with
    | none => return (st, "cur nocursor")
    | some k =>
      let (st', r) := putKv st k (Drv.hexArg v)
      return (st', "cur " ++ r)
  | ["cur", _, "close"] =>
    match st.cur with
    | none => return (st, "cur nocursor")
    | some _ => return ({ st with cur := none }, "cur ok")
  | _ => return (st, "bad-op")

partial def main (trace : Bool := false) : IO Unit := do
  let stdin ← IO.getStdin
  let stdout ← IO.getStdout
  let rec go (st : St) : IO Unit := do
    let line ← stdin.getLine
    if line.isEmpty then return ()
    let (st', out) ← step st (Drv.words line)
    stdout.putStrLn out
    stdout.flush
    go st'
  go { trace }
end Drv.KvBlk
