import Drv.Common
import IwModel.Model.Conv
import IwModel.Model.Cmp
namespace Drv.C19
open IwModel Drv

def modeOf (s : String) : Cmp.Mode := if s == "vnum" then .vnum else if s == "real" then .real else .plain

def step (ws : List String) : String :=
  match ws with
  | ["vnum", n] =>
    match Vnum.enc64 (natArg n) with
    | some bs =>
      match Vnum.dec bs with
      | some (d, st) => s!"vnum {hexOut bs} {Vnum.size (natArg n)} {d} {st}"
      | none => s!"vnum {hexOut bs} {Vnum.size (natArg n)} none"
    | none => s!"vnum overflow {Vnum.size (natArg n)}"
  | ["vdec", h] =>
    match Vnum.dec (hexArg h) with
    | some (n, st) => s!"vdec {n} {st}"
    | none => "vdec none"
  | ["itoa", v, mx] =>
    let (ret, m) := Conv.itoa (intArg v) (natArg mx)
    s!"itoa {ret} {hexOut m}"
  | ["atoi", h] => s!"atoi {Conv.wrap64 (Conv.atoi (hexArg h))}"
  | ["bin2hex", h] => s!"bin2hex {hexOut (Conv.bin2hex (hexArg h))}"
  | ["hex2bin", h, mx] => s!"hex2bin {hexOut (Conv.hex2bin (hexArg h) (natArg mx))}"
  | ["afcmp", a, b] => s!"afcmp {sgn (Cmp.afcmp (hexArg a) (hexArg b))}"
  | ["cmp", mode, comp, v1, k, c2] =>
    let m := modeOf mode
    let cp := comp == "1"
    s!"cmp {sgn (Cmp.cmpPrefix m cp (hexArg v1) (hexArg k) (natArg c2))} {sgn (Cmp.cmpKeys m cp (hexArg v1) (hexArg k) (natArg c2))}"
  | ["lxcmp", mode, comp, sk, sc, k, c2] =>
    let m := modeOf mode
    let cp := comp == "1"
    let full := Cmp.stored cp (hexArg sk) (natArg sc)
    s!"lxcmp {sgn (Cmp.lxCmp m cp full (hexArg k) (natArg c2))}"
  | ["lxcmp2", mode, comp, s1, c1, s2, c2, k, kc] =>
    -- two stored keys in one node, one of them deleted again: the node compares like the remaining key
    let m := modeOf mode
    let cp := comp == "1"
    let f1 := Cmp.stored cp (hexArg s1) (natArg c1)
    let f2 := Cmp.stored cp (hexArg s2) (natArg c2)
    if Cmp.cmpKeys m cp f1 (hexArg s2) (natArg c2) == 0 then "lxcmp2 same same"
    else s!"lxcmp2 {sgn (Cmp.lxCmp m cp f2 (hexArg k) (natArg kc))} {sgn (Cmp.lxCmp m cp f1 (hexArg k) (natArg kc))}"
  | _ => "bad-op"

end Drv.C19
