import Drv.Common
import IwModel.Model.HMap
import IwModel.Model.Arr
import IwModel.Model.Avl
import IwModel.Model.Ring
import IwModel.Model.XStr
import IwModel.Model.XStrMem
import IwModel.Model.Pool
/-! `drv c18`: the container models behind the op-line protocol of harness/h_c18.c. -/
namespace Drv.C18
open IwModel Drv

structure St where
  hmKind : Nat := 0                       -- 0 u32, 1 u64, 2 str, 3 ptr
  hmM : Nat := 0
  hmS : Nat := 1
  hmN : Option (HMap.Map Nat) := none
  hmB : Option (HMap.Map Bytes) := none
  ulUs : Nat := 1
  ul : Option (Arr.UList Bytes) := none
  pl : Option (Arr.PList Bytes) := none
  sa : Option (List Int) := none
  av : Avl.Tree := .nil
  rbUs : Nat := 1
  rb : Option (Ring.Ring Bytes) := none
  xs : Option XStr.XStr := none          -- user data slot of the iwxstr
  xm : Option XStr.XMem := none          -- its buffer, statement-level model
  po : Option Pool.Sys := none

def joinWith (sep : String) (xs : List String) : String := sep.intercalate xs
def dashIfEmpty (s : String) : String := if s.isEmpty then "-" else s

def hashN (s : St) (k : Nat) : Nat :=
  if s.hmKind = 0 then HMap.hashU32Key k
  else if s.hmKind = 1 then HMap.hashU64Key k
  else HMap.u32 ((if s.hmM ≠ 0 then k % s.hmM else k) * s.hmS)

def tokN (t : HMap.Tok Nat) : String := match t with | .k k => s!"k{k}" | .v v => s!"v{v}"
def tokB (t : HMap.Tok Bytes) : String := match t with | .k k => s!"k{hexOut k}" | .v v => s!"v{v}"
def freeStr (ts : List String) : String := " free=" ++ dashIfEmpty (joinWith "," ts)

def rawStr {κ : Type} (m : HMap.Map κ) (show_ : κ → String) : String :=
  let bs := (m.buckets.zipIdx.filter fun (b, _) => b.total ≠ 0 ∨ b.ents.length ≠ 0).map
    fun (b, i) => s!"{i}:{b.ents.length}/{b.total}"
  s!"raw mask={m.mask} cnt={m.count} lru={if m.lru.isEmpty then "none" else joinWith "," (m.lru.map show_)} b={joinWith ";" bs}"

def iterStr {κ : Type} [DecidableEq κ] (m : HMap.Map κ) (show_ : κ → String) : String :=
  "iter" ++ String.join ((HMap.toList m).map fun (k, v) => s!" {show_ k}={v}")

def hmStep (s : St) (ws : List String) : St × String :=
  match ws with
  | "new" :: kind :: rest =>
    let k := if kind == "u32" then 0 else if kind == "u64" then 1 else if kind == "str" then 2 else 3
    let s := { s with hmKind := k, hmM := natArg (rest.getD 0 "0"), hmS := if rest.length > 1 then natArg (rest.getD 1 "1") else 1 }
    if k = 2 then ({ s with hmB := some (HMap.empty true), hmN := none }, "ok")
    else ({ s with hmN := some (HMap.empty (k = 3)), hmB := none }, "ok")
  | _ =>
  match s.hmN, s.hmB with
  | some m, _ =>
    let h := hashN s
    match ws with
    | ["lru", n] => ({ s with hmN := some (HMap.lruInit m (natArg n)) }, "ok")
    | ["put", k, v] =>
      let (m', t) := HMap.put h m (natArg k) (natArg v)
      ({ s with hmN := some m' }, s!"put 0 n={m'.count}" ++ freeStr (t.map tokN))
    | ["get", k] =>
      let (m', v) := HMap.get h m (natArg k)
      ({ s with hmN := some m' }, if v = 0 then "get nil" else s!"get {v}")
    | ["rm", k] =>
      let (m', b, t) := HMap.remove h m (natArg k)
      ({ s with hmN := some m' }, s!"rm {if b then 1 else 0} n={m'.count}" ++ freeStr (t.map tokN))
    | ["ren", a, b] =>
      let (m', t) := HMap.rename h m (natArg a) (natArg b)
      ({ s with hmN := some m' }, s!"ren 0 n={m'.count}" ++ freeStr (t.map tokN))
    | ["clear"] =>
      let (m', t) := HMap.clear m
      ({ s with hmN := some m' }, s!"clear n={m'.count}" ++ freeStr (t.map tokN))
    | ["count"] => (s, s!"count {m.count}")
    | ["iter"] => (s, iterStr m toString)
    | ["raw"] => (s, rawStr m toString)
    | ["destroy"] => ({ s with hmN := none }, "destroy" ++ freeStr ((HMap.destroy m).map tokN) ++ " leak=0")
    | _ => (s, "bad-op")
  | none, some m =>
    let h := HMap.hashStrKey
    match ws with
    | ["lru", n] => ({ s with hmB := some (HMap.lruInit m (natArg n)) }, "ok")
    | ["put", k, v] =>
      let (m', t) := HMap.put h m (hexArg k) (natArg v)
      ({ s with hmB := some m' }, s!"put 0 n={m'.count}" ++ freeStr (t.map tokB))
    | ["get", k] =>
      let (m', v) := HMap.get h m (hexArg k)
      ({ s with hmB := some m' }, if v = 0 then "get nil" else s!"get {v}")
    | ["rm", k] =>
      let (m', b, t) := HMap.remove h m (hexArg k)
      ({ s with hmB := some m' }, s!"rm {if b then 1 else 0} n={m'.count}" ++ freeStr (t.map tokB))
    | ["ren", a, b] =>
      let (m', t) := HMap.rename h m (hexArg a) (hexArg b)
      ({ s with hmB := some m' }, s!"ren 0 n={m'.count}" ++ freeStr (t.map tokB))
    | ["clear"] =>
      let (m', t) := HMap.clear m
      ({ s with hmB := some m' }, s!"clear n={m'.count}" ++ freeStr (t.map tokB))
    | ["count"] => (s, s!"count {m.count}")
    | ["iter"] => (s, iterStr m hexOut)
    | ["raw"] => (s, rawStr m hexOut)
    | ["destroy"] => ({ s with hmB := none }, "destroy" ++ freeStr ((HMap.destroy m).map tokB) ++ " leak=0")
    | _ => (s, "bad-op")
  | none, none => (s, "no-map")

def unitOf (us : Nat) (h : String) : Bytes := ((hexArg h) ++ List.replicate us 0).take us

def bytesLe : Bytes → Bytes → Bool := Arr.UList.bytesLe

def listStr (xs : List Bytes) : String := "[" ++ joinWith "," (xs.map hexOut) ++ "]"
def ulDump (l : Arr.UList Bytes) : String := s!" s={l.start} a={l.anum} n={l.num} {listStr l.window}"
def plDump (l : Arr.PList Bytes) : String := s!" s={l.start} a={l.anum} n={l.num} {listStr l.window}"
def err (ok : Bool) : Nat := if ok then 0 else 1

def ulStep (s : St) (ws : List String) : St × String :=
  match ws with
  | ["new", us, ini] => ({ s with ulUs := natArg us, ul := some (Arr.UList.create [] (natArg ini)) }, "ok")
  | _ =>
  match s.ul with
  | none => (s, "no-list")
  | some l =>
    let us := s.ulUs
    let upd (tag : String) (r : Option (Arr.UList Bytes × Bool)) : St × String :=
      match r with
      | none => (s, "FAULT")
      | some (l', ok) => ({ s with ul := some l' }, s!"{tag} {err ok}")
    match ws with
    | ["push", h] => upd "push" ((l.push [] (unitOf us h)).map (·, true))
    | ["unshift", h] => upd "unshift" ((l.unshift [] (unitOf us h)).map (·, true))
    | ["pop"] => upd "pop" (l.pop [])
    | ["shift"] => upd "shift" (l.shift [])
    | ["insert", i, h] => upd "insert" (l.insert [] (natArg i) (unitOf us h))
    | ["set", i, h] => upd "set" (l.set (natArg i) (unitOf us h))
    | ["rm", i] => upd "rm" (l.remove [] (natArg i))
    | ["rmby", h] =>
      match l.removeFirstBy [] (unitOf us h) with
      | none => (s, "FAULT")
      | some (l', ok) => ({ s with ul := some l' }, s!"rmby {if ok then 1 else 0}")
    | ["find", h] => (s, match l.findFirst (unitOf us h) with | some i => s!"find {i}" | none => "find -1")
    | ["get", i] => (s, match l.get (natArg i) with | none => "get nil" | some none => "FAULT" | some (some x) => s!"get {hexOut x}")
    | ["len"] => (s, s!"len {l.num}")
    | ["clear"] => ({ s with ul := some (l.clear []) }, "clear 0")
    | ["reset"] => ({ s with ul := some l.reset }, "reset")
    | ["sort"] => ({ s with ul := some (l.sort bytesLe) }, "sort")
    | ["clone"] => (s, "clone" ++ ulDump (l.clone []))
    | ["copy"] => (s, match l.copyInto [] (Arr.UList.create [] 1) with | none => "FAULT" | some t => "copy 0" ++ ulDump t)
    | ["dump"] => (s, "dump" ++ ulDump l)
    | ["destroy"] => ({ s with ul := none }, "destroy leak=0")
    | _ => (s, "bad-op")

def itemStr (tag : String) (r : Option (Option Bytes)) : String :=
  match r with | none => s!"{tag} nil" | some none => "FAULT" | some (some x) => s!"{tag} {hexOut x}"

def plStep (s : St) (ws : List String) : St × String :=
  match ws with
  | ["new", an] => ({ s with pl := some (Arr.PList.create [] (natArg an)) }, "ok")
  | _ =>
  match s.pl with
  | none => (s, "no-list")
  | some l =>
    let upd (tag : String) (r : Option (Arr.PList Bytes × Bool)) : St × String :=
      match r with
      | none => (s, "FAULT")
      | some (l', ok) => ({ s with pl := some l' }, s!"{tag} {err ok}")
    match ws with
    | ["push", h] => upd "push" ((l.push [] (hexArg h)).map (·, true))
    | ["unshift", h] => upd "unshift" ((l.unshift [] (hexArg h)).map (·, true))
    | ["insert", i, h] => upd "insert" (l.insert [] (natArg i) (hexArg h))
    | ["set", i, h] => upd "set" (l.set (natArg i) (hexArg h))
    | ["pop"] => let (l', r) := l.pop; ({ s with pl := some l' }, itemStr "pop" r)
    | ["shift"] => (match l.shift with | none => (s, "FAULT") | some (l', r) => ({ s with pl := some l' }, itemStr "shift" r))
    | ["rm", i] => (match l.remove (natArg i) with | none => (s, "FAULT") | some (l', r) => ({ s with pl := some l' }, itemStr "rm" r))
    | ["get", i] => (s, itemStr "get" (l.get (natArg i)))
    | ["len"] => (s, s!"len {l.num}")
    | ["sort"] => ({ s with pl := some (l.sort bytesLe) }, "sort")
    | ["clone"] => (s, "clone" ++ plDump (l.clone []))
    | ["dump"] => (s, "dump" ++ plDump l)
    | ["destroy"] => ({ s with pl := none }, "destroy leak=0")
    | _ => (s, "bad-op")

def saStep (s : St) (ws : List String) : St × String :=
  match ws with
  | ["new"] => ({ s with sa := some [] }, "ok")
  | _ =>
  match s.sa with
  | none => (s, "no-arr")
  | some a =>
    match ws with
    | ["ins", v, sk] => let (a', i) := Arr.sortedInsert a (intArg v) (sk == "1"); ({ s with sa := some a' }, s!"ins {i}")
    | ["rm", v] => let (a', i) := Arr.sortedRemove a (intArg v); ({ s with sa := some a' }, s!"rm {i}")
    | ["find", v] =>
      let (j, f) := Arr.sortedFind2 a (intArg v)
      (s, s!"find {Arr.sortedFind a (intArg v)} {j} {if f then 1 else 0}")
    | ["dump"] => (s, "dump [" ++ joinWith "," (a.map toString) ++ "]")
    | ["destroy"] => ({ s with sa := none }, "destroy")
    | _ => (s, "bad-op")

def avDump : Avl.Tree → String
  | .nil => "."
  | .node l k b r =>
    let c := if b < 0 then "-" else if b = 0 then "=" else "+"
    match l, r with
    | .nil, .nil => s!"({k}{c})"
    | _, _ => s!"({k}{c}{avDump l}{avDump r})"

def keysStr (tag : String) (ks : List Int) : String := tag ++ String.join (ks.map fun k => s!" {k}")
def optStr (o : Option Int) : String := match o with | some k => toString k | none => "nil"

def avStep (s : St) (ws : List String) : St × String :=
  match ws with
  | ["new"] => ({ s with av := .nil }, "ok")
  | ["ins", k] => let (t, b) := Avl.insert s.av (intArg k); ({ s with av := t }, s!"ins {if b then 1 else 0}")
  | ["rm", k] => let (t, b) := Avl.remove s.av (intArg k); ({ s with av := t }, s!"rm {if b then 1 else 0}")
  | ["has", k] => (s, s!"has {if Avl.mem (intArg k) s.av then 1 else 0}")
  | ["bounds", k] => let (lb, ub) := Avl.lookupBounds s.av (intArg k); (s, s!"bounds {optStr lb} {optStr ub}")
  | ["dump"] => (s, "dump " ++ avDump s.av)
  | ["iter"] => (s, keysStr "iter" (Avl.toList s.av))
  | ["riter"] => (s, keysStr "riter" (Avl.toList s.av).reverse)
  | ["post"] => (s, keysStr "post" (Avl.postorder s.av))
  | ["destroy"] => ({ s with av := .nil }, "destroy leak=0")
  | _ => (s, "bad-op")

def rbStep (s : St) (ws : List String) : St × String :=
  match ws with
  | ["new", us, len] => ({ s with rbUs := natArg us, rb := some (Ring.create [] (natArg len)) }, "ok")
  | _ =>
  match s.rb with
  | none => (s, "no-rb")
  | some r =>
    match ws with
    | ["put", h] => ({ s with rb := some (Ring.put r (unitOf s.rbUs h)) }, "put")
    | ["back"] => ({ s with rb := some (Ring.back r) }, "back")
    | ["peek"] => (s, match Ring.peek r with | some x => s!"peek {hexOut x}" | none => "peek nil")
    | ["num"] => (s, s!"num {Ring.numCached r}")
    | ["clear"] => ({ s with rb := some (Ring.clear r) }, "clear")
    | ["iter"] => (s, "iter" ++ String.join ((Ring.iterList r).map fun x => s!" {hexOut x}"))
    | ["destroy"] => ({ s with rb := none }, "destroy leak=0")
    | _ => (s, "bad-op")

def XJUNK : Nat := 256     -- an uninitialised cell: no byte value, in particular not a NUL

def xsDump (x : XStr.XMem) : String :=
  s!" size={x.size} asize={x.asize} {hexOut x.data} term={if x.term then 1 else 0}"
def udFree (ids : List Nat) : String := freeStr (ids.map fun i => s!"u{i}")

/-- the buffer of the iwxstr lives in the statement-level model `XStr.XMem` (a memory fault prints `FAULT`);
the user-data slot in the abstract `XStr` -/
def xsStep (s : St) (ws : List String) : St × String :=
  match ws with
  | ["new", siz] =>
    (match XStr.mcreate XJUNK (natArg siz) with
     | some m => ({ s with xs := some (XStr.create (natArg siz)), xm := some m }, "ok")
     | none => (s, "FAULT"))
  | ["wrap", h, as] =>
    (match XStr.mwrap XJUNK (hexArg h) (natArg as) with
     | some m => ({ s with xs := some (XStr.wrap (hexArg h) (natArg as)), xm := some m }, "ok")
     | none => (s, "FAULT"))
  | _ =>
  match s.xs, s.xm with
  | some x, some m =>
    let upd (tag : String) (r : Option XStr.XMem) : St × String :=
      match r with
      | none => (s, "FAULT")
      | some m' => ({ s with xm := some m' }, tag)
    let updOk (tag : String) (r : Option (XStr.XMem × Bool)) : St × String :=
      match r with
      | none => (s, "FAULT")
      | some (m', ok) => ({ s with xm := some m' }, s!"{tag} {err ok}")
    match ws with
    | ["cat", h] => upd "cat 0" (XStr.mcat XJUNK m (hexArg h) (hexArg h).length)
    | ["cat2", h] => upd "cat2 0" (XStr.mcat XJUNK m (hexArg h) (hexArg h).length)
    | ["unshift", h] => upd "unshift 0" (XStr.munshift XJUNK m (hexArg h) (hexArg h).length)
    | ["shift", n] => upd "shift" (XStr.mshift m (natArg n))
    | ["pop", n] => upd "pop" (XStr.mpop m (natArg n))
    | ["insert", p, h] => updOk "insert" (XStr.minsert XJUNK m (natArg p) (hexArg h) (hexArg h).length)
    | ["printf", h, v] =>
      -- through the 1024-byte stack buffer / heap buffer switch of `iwxstr_printf_va`
      upd "printf 0" (XStr.mprintf XJUNK m (XStr.fmt (hexArg h) (intArg v)))
    | ["iprintf", p, h, v] => updOk "iprintf" (XStr.minsertPrintf XJUNK m (natArg p) (XStr.fmt (hexArg h) (intArg v)))
    | ["clear"] => upd "clear" (XStr.mclear m)
    | ["setsize", n] => let m' := XStr.msetSize XJUNK m (natArg n); ({ s with xm := some m' }, s!"setsize 0 size={m'.size} asize={m'.asize}")
    | ["clone"] => (s, match XStr.mclone XJUNK m with | some c => "clone" ++ xsDump c | none => "FAULT")
    | ["ud", id] => let (x', f) := XStr.udSet x (natArg id); ({ s with xs := some x' }, "ud" ++ udFree f)
    | ["udget"] => (s, s!"udget {x.ud.getD 0}")
    | ["uddetach"] => let (x', id) := XStr.udDetach x; ({ s with xs := some x' }, s!"uddetach {id}")
    | ["dump"] => (s, "dump" ++ xsDump m)
    | ["destroy"] => ({ s with xs := none, xm := none }, "destroy" ++ udFree (XStr.destroy x) ++ " leak=0")
    | ["keep"] => ({ s with xs := none, xm := none }, "keep ptr" ++ udFree (XStr.destroy x) ++ " leak=0")
    | _ => (s, "bad-op")
  | _, _ => (s, "no-xstr")

def poStat (p : Pool.Pool) : String := s!" usiz={p.usiz} asiz={p.asiz}"

/-- the pool family is finished once the main pool and every orphan are gone: the heap is balanced again -/
def poDone (s : St) (y : Pool.Sys) (line : String) : St × String :=
  if y.gone ∧ y.orphans.isEmpty then ({ s with po := none }, line ++ " leak=0") else ({ s with po := some y }, line)

/-- calls through a child handle (attached child or orphan); they work after the main pool is gone too -/
def poChildStep (s : St) (y : Pool.Sys) (ws : List String) : Option (St × String) :=
  match ws with
  | ["calloc2", c, n] =>
    match Pool.lookup y (natArg c) with
    | none => some (s, "calloc2 nochild")
    | some q =>
      let (q', u, o) := Pool.alloc q (natArg n)
      some ({ s with po := some (Pool.setAny y (natArg c) q') }, s!"calloc2 {u}:{o}" ++ poStat q')
  | ["cud", c, id] =>
    match Pool.kidUdSet y (natArg c) (natArg id) with
    | none => some (s, "cud nochild")
    | some (y', f) => some ({ s with po := some y' }, "cud" ++ udFree f)
  | ["cref", c] =>
    match Pool.refKid y (natArg c) with
    | none => some (s, "cref nochild")
    | some (y', k) => some ({ s with po := some y' }, s!"cref {k}")
  | ["cdestroy", c] =>
    match Pool.destroyKid y (natArg c) with
    | (_, none, _) => some (s, "cdestroy nochild")
    | (y', some b, f) =>
      let line := (if b then "cdestroy 1" else "cdestroy 0") ++ udFree f
      some (if b then poDone s y' line else ({ s with po := some y' }, line))
  | _ => none

def poStep (s : St) (ws : List String) : St × String :=
  match ws with
  | ["new", siz] => let p := Pool.create (natArg siz); ({ s with po := some { main := p } }, "ok" ++ poStat p)
  | ["newempty"] => ({ s with po := some { main := Pool.createEmpty } }, "ok" ++ poStat Pool.createEmpty)
  | _ =>
  match s.po with
  | none => (s, "no-pool")
  | some y =>
  match poChildStep s y ws with
  | some r => r
  | none =>
  if y.gone then (s, "no-pool") else
    let p := y.main
    let setMain (q : Pool.Pool) : St := { s with po := some { y with main := q } }
    let allocOut (tag : String) (n : Nat) (extra : String) : St × String :=
      let (q, u, o) := Pool.alloc p n
      (setMain q, s!"{tag} {u}:{o}{extra}" ++ poStat q)
    match ws with
    | ["alloc", n] => allocOut "alloc" (natArg n) ""
    | ["calloc", n] => allocOut "calloc" (natArg n) " zero=1"
    | ["strdup", h] => allocOut "strdup" ((hexArg h).length + 1) (" " ++ hexOut (hexArg h))
    | ["strndup", h, k] =>
      let b := (hexArg h).take (natArg k)
      allocOut "strndup" (b.length + 1) (" " ++ hexOut b)
    | ["printf", h, v] =>
      let (size, b) := Pool.printfAlloc (XStr.fmt (hexArg h) (intArg v)); allocOut "printf" size (" " ++ hexOut b)
    | "copyarr" :: hs =>
      let v := hs.map hexArg
      if v.isEmpty then (s, "copyarr nil")
      else (setMain (Pool.copyArrAlloc p v), "copyarr" ++ String.join (v.map fun t => s!" {hexOut t}") ++ " end")
    | [op, h, c, w] =>
      if op == "split" ∨ op == "psplit" then
        let toks := if op == "split" then Pool.splitTokens (hexArg h) (hexArg c) (w == "1")
                    else Pool.printfSplit (hexArg h) (hexArg c) (w == "1")
        (setMain (Pool.splitAlloc p (hexArg h) toks), op ++ String.join (toks.map fun t => s!" {hexOut t}"))
      else (s, "bad-op")
    | ["child", siz] =>
      if y.next ≥ 16 then (s, "child full") else
      let c := if siz == "e" then Pool.createEmpty else Pool.create (natArg siz)
      let (y', h) := Pool.attach y c
      ({ s with po := some y' }, s!"child {h}")
    | ["ud", id] => (setMain (Pool.udSet p (natArg id)).1, "ud" ++ udFree (Pool.udSet p (natArg id)).2)
    | ["udget"] => (s, s!"udget {p.ud.getD 0}")
    | ["uddetach"] => (setMain (Pool.udDetach p).1, s!"uddetach {p.ud.getD 0}")
    | ["ref"] => ({ s with po := some (Pool.ref y) }, s!"ref {p.refs + 1}")
    | ["destroy"] =>
      match Pool.destroy y with
      | (y', none) => ({ s with po := some y' }, "destroy 0" ++ udFree [])
      | (y', some f) =>
        let line := "destroy 1" ++ udFree f
        if y'.orphans.isEmpty then poDone s y' line else ({ s with po := some y' }, line ++ s!" orphans={y'.orphans.length}")
    | _ => (s, "bad-op")

def step (s : St) (ws : List String) : St × String :=
  match ws with
  | c :: rest@(_ :: _) =>
    if c == "hm" then hmStep s rest
    else if c == "ul" then ulStep s rest
    else if c == "pl" then plStep s rest
    else if c == "sa" then saStep s rest
    else if c == "av" then avStep s rest
    else if c == "rb" then rbStep s rest
    else if c == "xs" then xsStep s rest
    else if c == "po" then poStep s rest
    else (s, "bad-op")
  | _ => (s, "bad-op")

end Drv.C18
