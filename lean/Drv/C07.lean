import Drv.Common
import IwModel.Model.Locks
/-! `drv c07`: one line = `<kind> [args] : <recorded lock events>`; answer = verdict of the call automaton. -/
namespace Drv.C07
open IwModel.Locks Drv

def lockOf (s : String) : Option Lk :=
  match s.toList with
  | ['K'] => some .wk
  | ['S'] => some .store
  | ['A'] => some .alloc
  | ['F'] => some .file
  | ['G'] => some .log
  | ['N'] => some .rng
  | 'D' :: ds => (String.ofList ds).toNat?.map .db
  | 'P' :: ds => (String.ofList ds).toNat?.map .spin
  | _ => none

def evOf (tok : String) : Option Ev :=
  match tok.toList with
  | c :: rest =>
    match lockOf (String.ofList rest) with
    | none => none
    | some l =>
      if c == 'r' then some (.acq l false)
      else if c == 'w' || c == 'l' || c == 's' then some (.acq l true)
      else if c == 'u' || c == 'v' || c == 'x' then some (.rel l)
      else if c == 'c' then some (.wait l)
      else if c == 't' then some (.twait l)
      else none
  | [] => none

def kindOf : List String → Option Kind
  | ["writer", d, s] => some (.writer (natArg d) (s == "1"))
  | ["reader", d] => some (.reader (natArg d))
  | ["copen", d] => some (.copen (natArg d))
  | ["copenFail", d] => some (.copenFail (natArg d))
  | ["cclose", d] => some (.cclose (natArg d))
  | ["excl"] => some .excl
  | ["exclLog"] => some .exclLog
  | ["dbget"] => some .dbget
  | ["state"] => some .state
  | ["syncNoWal"] => some .syncNoWal
  | ["backup"] => some .backup
  | ["cpt"] => some .cpt
  | _ => none

def splitColon (ws : List String) : List String × List String :=
  (ws.takeWhile (· ≠ ":"), (ws.dropWhile (· ≠ ":")).drop 1)

def step (ws : List String) : String :=
  let (ks, toks) := splitColon ws
  match kindOf ks with
  | none => "bad-op"
  | some k =>
    let evs := toks.map evOf
    if evs.any Option.isNone then "bad token"
    else verdict k (evs.filterMap id)

end Drv.C07
