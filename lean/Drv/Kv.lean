import Drv.Common
import IwModel.Model.KvApi
namespace Drv.Kv
open IwModel IwModel.KvApi Drv

structure St where
  store : Option Store          -- none = closed
  saved : Store                 -- contents that survive close/reopen
deriving Repr

def init : St := ⟨none, Store.empty⟩

def optKey : List String → Option (Bytes × Nat)
  | [k, c] => some (hexArg k, natArg c)
  | _ => none

/-- after a clean close cursors are gone -/
def closedForm (s : Store) : Store :=
  { dbs := s.dbs.map fun (i, d) => (i, { d with db := { d.db with curs := [] } }), curDb := [], readonly := false }

def step (st : St) (ws : List String) : St × String :=
  match ws with
  | "open" :: _wal :: trunc :: ro :: _ =>
    let base := if trunc == "1" then Store.empty else st.saved
    ({ st with store := some { base with readonly := ro == "1" } }, "open ok")
  | ["close"] =>
    match st.store with
    | some s => (⟨none, closedForm s⟩, "close ok")
    | none => (st, "close invalid_state")
  | "image" :: _ => (st, "image")      -- file-level ops: judged by the checks, not by this model
  | "fhash" :: _ => (st, "fhash")
  | "fsize" :: _ => (st, "fsize")
  | op :: args =>
    match st.store with
    | none => (st, s!"{op} closed")
    | some s =>
      let upd (r : Store × String) : St × String := ({ st with store := some r.1 }, r.2)
      match op, args with
      | "db", [id, fl] => upd (openDb s (natArg id) (natArg fl))
      | "dbdestroy", [id] => upd (destroyDb s (natArg id))
      | "sync", _ => (st, if s.readonly then "sync readonly" else "sync ok")
      | "put", id :: k :: c :: v :: fl :: lvl :: rest =>
        upd (put s (natArg id) (hexArg k) (natArg c) (hexArg v) (natArg fl) ((lvl.toInt?.getD 0).toNat) (match rest with | [p] => natArg p | _ => 0))
      | "get", [id, k, c] => (st, get s (natArg id) (hexArg k) (natArg c))
      | "getc", [id, k, c, b] => (st, getCopy s (natArg id) (hexArg k) (natArg c) (natArg b))
      | "del", [id, k, c] => upd (del s (natArg id) (hexArg k) (natArg c))
      | "mset", [id, m] => upd (metaSet s (natArg id) (hexArg m))
      | "mget", [id, b, kn] => (st, metaGet s (natArg id) (natArg b) (natArg kn))
      | "dump", [id] => (st, dump s (natArg id))
      | "nodes", [id] => (st, nodes s (natArg id))
      | "cur", c :: "open" :: id :: cop :: rest => upd (curOpen s (natArg c) (natArg id) cop (optKey rest))
      | "cur", [c, "close"] => upd (curClose s (natArg c))
      | "cur", [c, "to", cop] => upd (curTo s (natArg c) cop)
      | "cur", [c, "tokey", cop, k, cp] => upd (curToKey s (natArg c) cop (hexArg k) (natArg cp))
      | "cur", [c, "get"] => upd (curRead s (natArg c) "get" 0 [])
      | "cur", [c, "key"] => upd (curRead s (natArg c) "key" 0 [])
      | "cur", [c, "val"] => upd (curRead s (natArg c) "val" 0 [])
      | "cur", [c, "cval", n] => upd (curRead s (natArg c) "cval" (natArg n) [])
      | "cur", [c, "ckey", n] => upd (curRead s (natArg c) "ckey" (natArg n) [])
      | "cur", [c, "match", k] => upd (curRead s (natArg c) "match" 0 (hexArg k))
      | "cur", c :: "set" :: v :: _fl :: rest => upd (curSet s (natArg c) (hexArg v) (match rest with | [p] => natArg p | _ => 0))
      | "cur", [c, "del"] => upd (curDel s (natArg c))
      | _, _ => (st, "bad-op")
  | [] => (st, "bad-op")

end Drv.Kv
