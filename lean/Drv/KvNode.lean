import Drv.Common
import Drv.KvBlk
import IwModel.Model.Format
import IwModel.Model.KvNode
/-! `drv kvnode`: replays a single-node history (the op lines of harness/h_kv.c: `open`, `db <id> <flags>`, `put`, `del`,
`cur c open <db> eq <key> <comp>`, `cur c set <val> 0`, `cur c del`, `cur c close`, `dump`, `close`) on the node writer model
`IwModel.KvNode` and, at every `image <path>` line, compares the model node with the record of the only node in that file image,
read by the independent Lean format reader: `pnum`, the live slot order `pi[0..pnum)`, `lkl`, the `lkl` cached key bytes, the
`SBLK_FULL_LKEY` bit of the flags byte — and the data block as `drv kvblk` does (size power, index size, 32 slot pairs, records,
live bytes).
Answers are the harness's answers; `image` when node and block agree, `image UNREADABLE|BAD <reason>` when the reader / audit of
Model/Format.lean rejects the file (the property itself fails), `image DIFF <what>` when the file is well-formed but differs
from the model. `drv kvnode-trace` reads no files and tags every answer with the branch taken. -/
namespace Drv.KvNode
open IwModel IwModel.FormatEnc IwModel.Format IwModel.KvNode

structure St where
  db : Db := none
  compound : Bool := false
  cur : Option (Bytes × Nat) := none
  isOpen : Bool := false
  trace : Bool := false
  nimg : Nat := 0

def lenTag (k : Bytes) : String := if k.length ≤ P then "short" else "long"

/-- branch of `put` -/
def putTag (st : St) (k : Bytes) (c : Nat) : String :=
  match st.db with
  | none => "put:new-node put:first-" ++ lenTag (preOf st.compound c ++ k)
  | some n =>
    if lxCmp st.compound n k c > 0 then
      "put:front put:first-" ++ lenTag (preOf st.compound c ++ k) ++
        (if (Cmp.cmpPrefix .plain st.compound (lkLive n) k c = 0 ∧ !n.full) then " lx:prefix-tie" else "")
    else
      let r := findPi n (cmpOf st.compound k c)
      (if (Cmp.cmpPrefix .plain st.compound (lkLive n) k c = 0 ∧ !n.full ∧ ¬ (k.length + (if st.compound then Cmp.lkStep (lkLive n) else 0) < n.lkl)) then "lx:prefix-tie " else "") ++
      (if r.1 then (if r.2 = 0 then "put:overwrite-first" else "put:overwrite")
       else if r.2 = n.pnum then "put:append" else "put:middle")

/-- branch of a removal at position `pos` -/
def rmTag (n : Node) (pos : Nat) : String :=
  if n.pnum = 1 then "rm:last-key"
  else if pos = 0 then "rm:first rm:next-" ++ lenTag (keyAt n 1) ++
    (if (keyAt n 0).take P = (keyAt n 1).take P then " rm:next-same-prefix" else "")
  else if pos + 1 = n.pnum then "rm:tail" else "rm:middle"

/-- how full the node is when the operation starts -/
def sizeTag (d : Db) : String :=
  match d with
  | none => "size:0"
  | some n => if n.pnum = 1 then "size:1" else if n.pnum ≤ 8 then "size:2-8" else if n.pnum < Gen.KVBLK_IDXNUM then "size:9-31" else "size:32"

def putKv (st : St) (k : Bytes) (c : Nat) (v : Bytes) : St × String :=
  let tag := if st.trace then " " ++ putTag st k c ++ " " ++ sizeTag st.db else ""
  match put st.compound st.db k c v with
  | .ok d => ({ st with db := d }, "ok" ++ tag)
  | .split => (st, "SPLIT" ++ tag)
  | .failed .maxkvsz => (st, "maxkvsz" ++ tag)
  | .failed _ => (st, "FULL" ++ tag)

def cmpRec (s : Sblk) (n : Node) : Option String :=
  if s.pnum ≠ n.pnum then some s!"pnum file {s.pnum} model {n.pnum}"
  else if s.pi ≠ n.pi then some s!"pi file {s.pi} model {n.pi}"
  else if s.lkl ≠ n.lkl then some s!"lkl file {s.lkl} model {n.lkl}"
  else if s.lk ≠ lkLive n then some s!"lk file {toHex s.lk} model {toHex (lkLive n)}"
  else if s.flags ≠ flagsByte n then some s!"flags file {s.flags} model {flagsByte n}"
  else none

def cmpImage (st : St) (path : String) : IO String := do
  let bytes ← try IO.FS.readBinFile path catch _ => return "image MISSING"      -- the implementation died before it wrote the copy
  let m := imgOf bytes
  let full := st.nimg % 8 = 0 || !st.isOpen
  let res := if full then audit m else (parse m).map fun f => (f, f.dbs.flatMap checkDb)
  match res with
  | .error e => return s!"image UNREADABLE {e}"
  | .ok (f, errs) =>
    match errs with
    | e :: _ => return s!"image BAD {e}"
    | [] =>
    match f.dbs with
    | [d] =>
      match d.nodes, st.db with
      | [], none => return "image"
      | [s], some n =>
        match cmpRec s n with
        | some e => return s!"image DIFF node record: {e}"
        | none =>
          match Drv.KvBlk.cmpNode m s n.blk with
          | none => return "image"
          | some e => return s!"image DIFF {e}"
      | ns, b => return s!"image DIFF nodes in file {ns.length}, model has a node: {b.isSome}"
    | ds => return s!"image DIFF databases {ds.length}"

def step (st : St) (ws : List String) : IO (St × String) := do
  match ws with
  | "open" :: _ => return ({ isOpen := true, trace := st.trace }, "open ok")
  | ["close"] => return ({ st with isOpen := false, cur := none }, if st.isOpen then "close ok" else "close invalid_state")
  | ["image", path] => if st.trace then return (st, "image") else return ({ st with nimg := st.nimg + 1 }, ← cmpImage st path)
  | ["db", _, fl] => return ({ st with compound := KvApi.isCompound (Drv.natArg fl) }, "db ok")
  | ["dump", _] => return (st, "dump")
  | ["put", _, k, c, v, _, _] =>
    let (st', r) := putKv st (Drv.hexArg k) (Drv.natArg c) (Drv.hexArg v)
    return (st', "put " ++ r)
  | ["del", _, k, c] =>
    match st.db, curPos st.compound st.db (Drv.hexArg k) (Drv.natArg c) with
    | some n, some pos => return ({ st with db := rmAt n pos }, "del ok" ++ (if st.trace then " " ++ rmTag n pos else ""))
    | _, _ => return (st, "del notfound")
  | ["cur", _, "open", _, "eq", k, c] =>
    match curPos st.compound st.db (Drv.hexArg k) (Drv.natArg c) with
    | some _ => return ({ st with cur := some (Drv.hexArg k, Drv.natArg c) }, "cur ok")
    | none => return ({ st with cur := none }, "cur notfound")
  | ["cur", _, "set", v, _] =>
    match st.cur with
    | none => return (st, "cur nocursor")
    | some (k, c) =>
      match curPos st.compound st.db k c with
      | none => return (st, "cur notfound")
      | some pos =>
        match curSet st.db pos (Drv.hexArg v) with
        | .ok d => return ({ st with db := d }, "cur ok" ++ (if st.trace then (if pos = 0 then " cset:first" else " cset:other") else ""))
        | .failed .maxkvsz => return (st, "cur maxkvsz")
        | _ => return (st, "cur FULL")
  | ["cur", _, "del"] =>
    match st.cur with
    | none => return (st, "cur nocursor")
    | some (k, c) =>
      match st.db, curPos st.compound st.db k c with
      | some n, some pos => return ({ st with db := curDel st.db pos }, "cur ok" ++ (if st.trace then " c" ++ rmTag n pos else ""))
      | _, _ => return (st, "cur notfound")
  | ["cur", _, "close"] =>
    match st.cur with
    | none => return (st, "cur nocursor")
    | some _ => return ({ st with cur := none }, "cur ok")
  | _ => return (st, "bad-op")

partial def main (trace : Bool := false) : IO Unit := do
  let stdin ← IO.getStdin
  let stdout ← IO.getStdout
  let rec go (st : St) : IO Unit := do
    let line ← stdin.getLine
    if line.isEmpty then return ()
    let (st', out) ← step st (Drv.words line)
    stdout.putStrLn out
    stdout.flush
    go st'
  go { trace }
end Drv.KvNode
