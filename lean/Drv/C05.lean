import Drv.Common
import IwModel.Model.Wal
/-! `drv c05`: pre-scan and recovery of (pre-image, damaged log) pairs read from files.
The history ops of the harness (`open`, `put`, …) are not modelled: they answer `skip`. -/
namespace Drv.C05
open IwModel Drv

structure St where
  pre : Bytes := []
  wal : Bytes := []

def readBytes (p : String) : IO Bytes := do
  let b ← IO.FS.readBinFile p
  return b.toList.map (·.toNat)

/-- FNV-1a 64 (I/O boundary only: compares main-file images without printing them) -/
def fnv (bs : Bytes) : UInt64 :=
  bs.foldl (fun h b => (h ^^^ b.toUInt64) * 0x100000001b3) 0xcbf29ce484222325

def hex16 (x : UInt64) : String :=
  let s := (Nat.toDigits 16 x.toNat)
  String.ofList (List.replicate (16 - s.length) '0' ++ s)

/-- "pos:xx,pos:xx" xor masks, "-" = none -/
def parseFlips (s : String) : List (Nat × Nat) :=
  if s == "-" then [] else
  (s.splitOn ",").filterMap fun t =>
    match t.splitOn ":" with
    | [p, m] => some (p.toNat?.getD 0, ((ofHex (if m.length == 1 then "0" ++ m else m)).getD [0]).headD 0)
    | _ => none

def damaged (w : Bytes) (cut : Nat) (flips : List (Nat × Nat)) : Bytes :=
  let c := w.take cut
  flips.foldl (fun acc (p, m) => if p < acc.length then acc.set p (acc.getD p 0 ^^^ m) else acc) c

def rcName : Wal.Rc → String
  | .ok => "ok" | .corrupted => "walcorrupt" | .fault => "fault" | .ioerr => "ioerr"

def cfgOf (crc : Bool) : Wal.Cfg := { crcOn := crc, crc := Wal.crc32, maxoff := 0x7fffffff80 / 4096 * 4096 }

def step (s : St) (ws : List String) : IO (St × String) := do
  match ws with
  | ["load", p, w] =>
    let pre ← readBytes p
    let wal ← readBytes w
    return ({ s with pre, wal }, s!"load {pre.length} {wal.length}")
  | ["wf"] =>
    let wk := Wal.walk s.wal
    let cnt := fun (q : Wal.Rec → Bool) => (wk.filter fun pr => q pr.2).length
    let b := fun (x : Bool) => if x then 1 else 0
    return (s, s!"wf sep={b (s.wal.headD 0 == Gen.Wal.WOP_SEP)} closed={b (Wal.segClosedB s.wal)} disj={b (Wal.segDisjointB s.wal)} rsep={b (Wal.resetAfterSepB s.wal)} full={b (Wal.walkFull s.wal)} nrec={wk.length} nsp={cnt (· == .savepoint)} nreset={cnt (· == .reset)}")
  | ["scan", cut, fl] =>
    let d := damaged s.wal (natArg cut) (parseFlips fl)
    let (f, r) := Wal.prescan d
    return (s, s!"scan {f} {r}")
  | ["rec", _, mode, crc, cut, fl] =>
    let d := damaged s.wal (natArg cut) (parseFlips fl)
    let (rc, m, w') := Wal.recover (cfgOf (crc == "1")) (natArg mode) d s.pre
    return (s, s!"rec rc={rcName rc} msz={m.length} mh={hex16 (fnv m)} wsz={w'.length}")
  | ["roll", _, mode, crc, cut, fl] =>
    let d := damaged s.wal (natArg cut) (parseFlips fl)
    let (rc, m, w') := Wal.recover (cfgOf (crc == "1")) (natArg mode) d s.pre
    return (s, s!"roll rc={rcName rc} msz={m.length} mh={hex16 (fnv m)} wsz={w'.length}")
  | ["partial", p, w, k, crc, _, _] =>
    -- a checkpoint killed before its (k+1)-th store: the loop with fuel for the records before that store
    let pre ← readBytes p
    let wal ← readBytes w
    let isStore := fun (r : Wal.Rec) => match r with | .set .. => true | .write .. => true | .copy .. => true | _ => false
    let recs := (Wal.walk wal).map (·.2)
    let rec idx : List Wal.Rec → Nat → Nat → Nat
      | [], _, j => j
      | r :: t, left, j => if isStore r then (if left = 0 then j else idx t (left - 1) (j + 1)) else idx t left (j + 1)
    let j := idx recs (natArg k) 0
    let o := Wal.replayAux (cfgOf (crc == "1")) 0 j wal 0 true pre
    return (s, s!"partial msz={o.main.length} mh={hex16 (fnv o.main)}")
  | ["ckpt", p, w, _] =>
    -- a real checkpoint: roll the whole log forward (mode 0, no offset) over the pre-image
    let pre ← readBytes p
    let wal ← readBytes w
    let o := Wal.rollforward (cfgOf true) 0 0 wal pre
    return (s, s!"ckpt rc={rcName o.rc} msz={o.main.length} mh={hex16 (fnv o.main)}")
  | _ => return (s, "skip")

partial def main : IO Unit := do
  let stdin ← IO.getStdin
  let stdout ← IO.getStdout
  let rec go (s : St) : IO Unit := do
    let line ← stdin.getLine
    if line.isEmpty then
      stdout.flush
      return ()
    let (s', out) ← step s (words line)
    stdout.putStrLn out
    go s'
  go {}

end Drv.C05
