import Drv.Common
import Drv.C05
import IwModel.Model.WalWriter
/-! `drv walw`: the writer model driven by the listener events recorded from a real run.
One op per line; the answer lists the system calls on the log file the step performed and the flags afterwards. -/
namespace Drv.WalW
open IwModel IwModel.WalWriter Drv

structure D where
  c : WCfg := { crcOn := false, crc := Wal.crc32, bufsz := 4084, ckptBufSz := 1073741824, maxoff := 0x7fffffff80 / 4096 * 4096 }
  s : St := init []

def effText (e : Eff) : String :=
  match e with
  | .write bs => s!"W:{bs.length}:{C05.hex16 (C05.fnv bs)}"
  | .fsync => "F"
  | .trunc => "T"

def b01 (b : Bool) : String := if b then "1" else "0"

/-- run one step, report its effects and the state, forget the effects -/
def doStep (d : D) (e : Step) : D × String :=
  let v := decide (Valid d.c d.s e)
  let s' := step d.c { d.s with eff := [] } e
  let effs := " ".intercalate (s'.eff.map effText)
  -- history variables are of no use here and would grow without bound
  let s'' := { s' with eff := [], hist := [[]], dur := 0 }
  ({ d with s := s'' },
   s!"{if effs.isEmpty then "-" else effs} | valid={b01 v} bufpos={s'.buf.length} synched={b01 s'.synched} mbytes={s'.mbytes} wsz={s'.log.length} msz={s'.main.length} vsz={s'.view.length}")

def step (d : D) (ws : List String) : IO (D × String) := do
  match ws with
  | ["init", crc, bufsz, mainfile] =>
    let m ← if mainfile == "-" then pure [] else C05.readBytes mainfile
    let c := { d.c with crcOn := crc == "1", bufsz := natArg bufsz }
    return ({ c, s := init m }, s!"init {m.length}")
  | ["set", off, val, len] => return doStep d (.set (natArg off) (natArg val) (natArg len))
  | ["copy", off, len, noff] => return doStep d (.copy (natArg off) (natArg len) (natArg noff))
  | ["write", off, hex] => return doStep d (.write (natArg off) (if hex == "-" then [] else hexArg hex))
  | ["resize", o, n] => return doStep d (.resize (natArg o) (natArg n))
  | ["synced"] => return doStep d .sync
  | ["flush"] => return doStep d .flush
  | ["sp", ts, sy] => return doStep d (.savepoint (natArg ts) (sy == "1"))
  | ["ckpt", ts] => return doStep d (.checkpoint (natArg ts))
  | ["state"] =>
    return (d, s!"state log={d.s.log.length}:{C05.hex16 (C05.fnv d.s.log)} buf={d.s.buf.length}:{C05.hex16 (C05.fnv d.s.buf)} main={d.s.main.length}:{C05.hex16 (C05.fnv d.s.main)} view={d.s.view.length}:{C05.hex16 (C05.fnv d.s.view)}")
  | ["dump", what, path] =>
    let bs := if what == "log" then d.s.log else if what == "buf" then d.s.buf else if what == "main" then d.s.main else d.s.view
    IO.FS.writeBinFile path (ByteArray.mk (bs.map (·.toUInt8)).toArray)
    return (d, s!"dump {bs.length}")
  | ["recover"] =>
    -- the next open after a kill now: `_recover_wl` on (main, log)
    let (rc, m, w) := recover d.c (kill d.s)
    return (d, s!"recover rc={C05.rcName rc} msz={m.length} mh={C05.hex16 (C05.fnv m)} wsz={w.length}")
  | _ => return (d, "bad-op")

partial def main : IO Unit := do
  let stdin ← IO.getStdin
  let stdout ← IO.getStdout
  let rec go (d : D) : IO Unit := do
    let line ← stdin.getLine
    if line.isEmpty then
      stdout.flush
      return ()
    let (d', out) ← step d (words line)
    stdout.putStrLn out
    go d'
  go {}

end Drv.WalW
