import Drv.Common
import IwModel.Model.JsonPatch
/-! `drv c15`: JSON Patch model behind the protocol of harness/h_c15.c. -/
namespace Drv.C15
open IwModel IwModel.Patch Drv

def splitBar (ws : List String) : List String × List String :=
  (ws.takeWhile (· ≠ "|"), (ws.dropWhile (· ≠ "|")).drop 1)

def showNode (n : Node) : String :=
  match n with
  | .none => "NONE"
  | n => (erase n).toWire

def showBin (r : Option JVal) : String :=
  match r with
  | some (.arr xs) => (JVal.arr xs).toWire
  | some (.obj ms) => (JVal.obj ms).toWire
  | _ => "NOCONTAINER"

def step (ws : List String) : String :=
  match ws with
  | "patch" :: mode :: rest =>
    let (dts, pts) := splitBar rest
    match JVal.ofWire dts, JVal.ofWire pts with
    | some doc, some patch =>
      let pn := ofJ patch
      if mode == "auto" || mode == "node" then
        let res : Node × Err :=
          match pn with
          | .arr _ => patchTree (ofJ doc) pn
          | .obj _ => (ofJ doc, .unmodelled)     -- merge patch: see drv c16
          | _ => (ofJ doc, .invalidArgs)
        s!"{res.2.name} {showNode res.1} kl={if klOk res.1 then 1 else 0}"
      else if mode == "jbl" || mode == "json" then
        let res := if mode == "json" then patchFromJson doc pn else patchBinary doc pn
        let same := match res.1 with
          | some d => d == doc
          | none => false
        s!"{res.2.name} {showBin res.1} same={if same then 1 else 0}"
      else "bad-op"
    | _, _ => "bad-op"
  | _ => "bad-op"

end Drv.C15
