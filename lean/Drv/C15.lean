import Drv.Common
import IwModel.Model.JsonPatch
import IwModel.Model.BinnPatch
/-! `drv c15`: JSON Patch model behind the protocol of harness/h_c15.c. -/
namespace Drv.C15
open IwModel IwModel.Patch Drv

def splitBar (ws : List String) : List String × List String :=
  (ws.takeWhile (· ≠ "|"), (ws.dropWhile (· ≠ "|")).drop 1)

def showNode (n : Node) : String :=
  match n with
  | .none => "NONE"
  | n => (erase n).toWire

def showBin (r : Option JVal) : String :=
  match r with
  | some (.arr xs) => (JVal.arr xs).toWire
  | some (.obj ms) => (JVal.obj ms).toWire
  | _ => "NOCONTAINER"

/-- a holder as the harness prints it: the bytes of a document, or `scalar <wire>` for a value struct -/
def showHolder (h : Binn.BVal) : String :=
  match h with
  | .cont bs => hexOut bs
  | .null => "scalar n"
  | .bool b => if b then "scalar t" else "scalar f"
  | .int i => s!"scalar i{i}"
  | .f64 b => "scalar d" ++ JVal.hex16 b
  | .str s => "scalar s" ++ hexOut s
  | .other t => s!"scalar ?type{t}"

/-- split a word list at every `|` -/
partial def splitBars (ws : List String) : List (List String) :=
  match ws.dropWhile (· ≠ "|") with
  | [] => [ws.takeWhile (· ≠ "|")]
  | _ :: rest => ws.takeWhile (· ≠ "|") :: splitBars rest

def bytePatch (mode : String) (h : Binn.BVal) (patch : JVal) : Binn.BVal × Err :=
  if mode == "json" then BinnPatch.jblPatchFromJson h (ofJ patch) else BinnPatch.jblPatch h (ofJ patch)

def step (ws : List String) : String :=
  match ws with
  | "bpatch" :: mode :: hex :: "|" :: pts =>
    -- the composed model on the binn BYTES: hex in, hex out
    match (ofHex hex).bind BinnPatch.ofBuf, JVal.ofWire pts with
    | some h, some patch =>
      if mode == "jbl" || mode == "json" then
        let res := bytePatch mode h patch
        s!"{res.2.name} {showHolder res.1}"
      else "bad-op"
    | _, _ => "bad-op"
  | "bseq" :: mode :: hex :: "|" :: rest =>
    -- several patch documents applied to the same holder one after the other
    match (ofHex hex).bind BinnPatch.ofBuf, (splitBars rest).mapM JVal.ofWire with
    | some h, some patches =>
      if mode == "jbl" || mode == "json" then
        let (hf, rcs) := patches.foldl (fun (acc : Binn.BVal × List String) p =>
          let res := bytePatch mode acc.1 p
          (res.1, acc.2 ++ [res.2.name])) (h, [])
        s!"{",".intercalate rcs} {showHolder hf}"
      else "bad-op"
    | _, _ => "bad-op"
  | "patch" :: mode :: rest =>
    let (dts, pts) := splitBar rest
    match JVal.ofWire dts, JVal.ofWire pts with
    | some doc, some patch =>
      let pn := ofJ patch
      if mode == "auto" || mode == "node" then
        let res : Node × Err :=
          match pn with
          | .arr _ => patchTree (ofJ doc) pn
          | .obj _ => (ofJ doc, .unmodelled)     -- merge patch: see drv c16
          | _ => (ofJ doc, .invalidArgs)
        s!"{res.2.name} {showNode res.1} kl={if klOk res.1 then 1 else 0}"
      else if mode == "jbl" || mode == "json" then
        let res := if mode == "json" then patchFromJson doc pn else patchBinary doc pn
        let same := match res.1 with
          | some d => d == doc
          | none => false
        s!"{res.2.name} {showBin res.1} same={if same then 1 else 0}"
      else "bad-op"
    | _, _ => "bad-op"
  | _ => "bad-op"

end Drv.C15
