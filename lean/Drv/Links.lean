import Drv.Common
import IwModel.Model.KvLinks
import IwModel.Model.Format
/-! `drv links`: the explicit-link model of a database (Model/KvLinks.lean) replayed next to the real code.

* `reset` → `ok`
* `ins <db> <pos> <lvl>` / `rm <db> <pos>`: structural step of database `<db>` → `ins n=<nodes>` / `rm n=<nodes>`
* `cmp <db> <path>`: read the file image with the format reader (Model/Format.lean), follow the real `n[i]` links of
  database `<db>` on every level, express everything by *positions* in the level-0 chain and compare with the model:
  per level the positions reached, the levels, back links, tail link, counters.
  → `cmp ok nodes=<n> top=<head level>` | `cmp BAD <first difference>` | `cmp UNREADABLE <why>` -/
namespace Drv.Links
open IwModel IwModel.KvLinks

structure St where
  dbs : List (Nat × LDb) := []
  next : Nat := 2                      -- next block number to hand out (1 is every model database's block)

def getDb (st : St) (id : Nat) : LDb := ((st.dbs.find? (·.1 = id)).map (·.2)).getD (empty 1)

def setDb (st : St) (id : Nat) (s : LDb) : St := { st with dbs := (id, s) :: st.dbs.filter (·.1 ≠ id) }

/-- the same description for a parsed database of a real file: links followed by the audit's `followLevel` -/
def sigImg (d : Format.DbImg) : List String :=
  describe d.blk (d.nodes.map (·.blk))
    ((List.range SLEVELS).map fun i => Format.followLevel d.nodes i (d.nodes.length + 2) (d.n.getD i 0))
    (d.nodes.map (·.lvl)) (d.nodes.map (·.p0)) d.p0 d.c

def clip (s : String) : String := if s.length > 160 then (s.take 160).toString ++ "…" else s

def firstDiff : List String → List String → Option String
  | a :: as, b :: bs => if a = b then firstDiff as bs else some s!"file {clip a} model {clip b}"
  | [], [] => none
  | a :: _, [] => some s!"file {clip a} model -"
  | [], b :: _ => some s!"file - model {clip b}"

def cmpFile (st : St) (id : Nat) (path : String) : IO String := do
  let m := Format.imgOf (← IO.FS.readBinFile path)
  match Format.parse m with
  | .error e => return s!"cmp UNREADABLE {e}"
  | .ok f =>
    let s := getDb st id
    match f.dbs.find? (·.id = id) with
    | none => return (if s.heap.isEmpty then "cmp ok nodes=0 top=0 (no such database)" else "cmp BAD database missing in file")
    | some d =>
      match firstDiff (sigImg d) (sig s) with
      | none => return s!"cmp ok nodes={d.nodes.length} top={headLvl s}"
      | some e => return s!"cmp BAD {e}"

partial def main : IO Unit := do
  let stdin ← IO.getStdin
  let stdout ← IO.getStdout
  let rec go (st : St) : IO Unit := do
    let line ← stdin.getLine
    if line.isEmpty then return ()
    let (st', out) ← match Drv.words line with
      | ["reset"] => pure (({} : St), "ok")
      | ["ins", id, pos, lvl] =>
        let s := insertAt (getDb st (Drv.natArg id)) (Drv.natArg pos) st.next (Drv.natArg lvl)
        pure ({ setDb st (Drv.natArg id) s with next := st.next + 1 }, s!"ins n={s.heap.length}")
      | ["rm", id, pos] =>
        let s := removeAt (getDb st (Drv.natArg id)) (Drv.natArg pos)
        pure (setDb st (Drv.natArg id) s, s!"rm n={s.heap.length}")
      | ["cmp", id, path] => do
        let r ← cmpFile st (Drv.natArg id) path
        pure (st, r)
      | _ => pure (st, "bad-op")
    stdout.putStrLn out
    stdout.flush
    go st'
  go {}
end Drv.Links
