import Drv.Common
import IwModel.Model.Format
/-! `drv fmt`: audits file images. `reenc <path>` → `reenc ok <counts> | reenc BAD <first difference>`; `audit <path>` → `audit ok|BAD <reason> | db <id> <flags> m=<meta hex> <dump line> | ...` -/
namespace Drv.Fmt
open IwModel IwModel.Format

def auditFile (path : String) (metaN : Nat) : IO String := do
  let m := imgOf (← IO.FS.readBinFile path)
  match audit m with
  | .error e => return s!"audit UNREADABLE {e}"
  | .ok (f, errs) =>
    let head := match errs with | [] => "audit ok" | e :: _ => s!"audit BAD[{errs.length}] {e}"
    let dbs := f.dbs.map fun d => s!" | db {d.id} {d.flags} m={hexOut (metaOf m d metaN)} {dumpDb d}"
    return head ++ s!" size={f.size}" ++ String.join dbs

def reencFile (path : String) : IO String := do
  let m := imgOf (← IO.FS.readBinFile path)
  match parse m with
  | .error e => return s!"reenc UNREADABLE {e}"
  | .ok f =>
    match reenc m f with
    | .ok c => return s!"reenc ok dbs={c.dbs} nodes={c.nodes} idx={c.idx} recs={c.recs}"
    | .error e => return s!"reenc BAD {e}"

partial def main : IO Unit := do
  let stdin ← IO.getStdin
  let stdout ← IO.getStdout
  let rec go : IO Unit := do
    let line ← stdin.getLine
    if line.isEmpty then return ()
    match Drv.words line with
    | ["audit", path] => stdout.putStrLn (← auditFile path 0)
    | ["reenc", path] => stdout.putStrLn (← reencFile path)
    | ["audit", path, n] => stdout.putStrLn (← auditFile path (Drv.natArg n))
    | _ => stdout.putStrLn "bad-op"
    stdout.flush
    go
  go
end Drv.Fmt
