import Drv.Common
import IwModel.Model.Exf
import IwModel.Gen.Exf
/-! `drv c12`: the extensible-file model behind the protocol of harness/h_c12.c. -/
namespace Drv.C12
open IwModel Drv IwModel.Exf

def init : St := { psize := Gen.Exf.EXF_PSIZE, cbuf := Gen.Exf.EXF_COPY_BUF }

def hex8 (n : Nat) : String :=
  String.ofList ((List.range 8).reverse.map fun i => hexDigit (n / 16 ^ i % 16))

def polOf (p n d : String) : Policy :=
  if p == "fibo" then .fibo else if p == "mul" then .mul (natArg n) (natArg d) else .dflt

def step (st : St) (ws : List String) : St × String :=
  match ws with
  | ["open", p, n, d, maxoff, initial, trunc] =>
    let (rc, st') := openFile st (polOf p n d) (natArg maxoff) (natArg initial) (trunc != "0")
    (st', s!"open {rc.name} {if st'.isOpen then st'.fsize else 0}")
  | _ =>
    if !st.isOpen then (st, "closed") else
    match ws with
    | ["close"] => let st' := close st; (st', s!"close ok {st'.file.length}")
    | ["w", off, len, seed] =>
      let d := pattern (natArg seed) (natArg len)
      let (st', rc, _) := exec st (.write (intArg off) d)
      (st', s!"w {rc.name} {if rc == .ok then d.length else 0} {st'.fsize}")
    | ["r", off, len] =>
      let (_, rc, bs) := exec st (.read (intArg off) (natArg len))
      (st, s!"r {rc.name} {bs.length} {hex8 (fnv32 bs)} {hexOut (bs.take 24)}")
    | ["cp", off, siz, noff] =>
      let (st', rc, _) := exec st (.copy (natArg off) (natArg siz) (natArg noff))
      (st', s!"cp {rc.name} {st'.fsize}")
    | ["tr", size] => let (st', rc, _) := exec st (.truncate (natArg size)); (st', s!"tr {rc.name} {st'.fsize}")
    | ["es", size] => let (st', rc, _) := exec st (.ensure (natArg size)); (st', s!"es {rc.name} {st'.fsize}")
    | ["am", off, maxlen, opts] =>
      let (st', rc, _) := exec st (.addMmap (natArg off) (natArg maxlen) (natArg opts % 2 == Gen.Exf.IWFS_MMAP_PRIVATE))
      (st', s!"am {rc.name}")
    | ["rm", off] => let (st', rc, _) := exec st (.removeMmap (natArg off)); (st', s!"rm {rc.name}")
    | ["sm", off] => (st, s!"sm {(probeMmap st (natArg off)).1.name}")
    | ["pm", off] => let (rc, n) := probeMmap st (natArg off); (st, s!"pm {rc.name} {n}")
    | ["mw", so, rel, len, seed] =>
      let (st', rc, _) := exec st (.mmapWrite (natArg so) (natArg rel) (pattern (natArg seed) (natArg len)))
      (st', s!"mw {rc.name} {(probeMmap st (natArg so)).2}")
    | ["ra"] => let (st', rc, _) := exec st .remapAll; (st', s!"ra {rc.name}")
    | ["sy"] => (st, "sy ok")
    | ["st"] => (st, s!"st {st.fsize} {st.file.length}")
    | _ => (st, "bad-op")

end Drv.C12
