import Drv.Common
import IwModel.Model.ExfLsn
import IwModel.Gen.Exf
/-! `drv c12`: the extensible-file model behind the protocol of harness/h_c12.c. -/
namespace Drv.C12
open IwModel Drv IwModel.Exf

/-- driver state: the model state and the listener mode of the protocol (0 none, 1 passive, 2 handling) -/
structure DSt where
  st : St
  lsn : Nat := 0

def init : DSt := { st := { psize := Gen.Exf.EXF_PSIZE, cbuf := Gen.Exf.EXF_COPY_BUF } }

def evText : Ev → String
  | .write off d => s!" W:{off}:{d.length}:{hexOut d}"
  | .set off val len => s!" S:{off}:{val}:{len}"
  | .copy off len noff => s!" C:{off}:{len}:{noff}"
  | .resize o n false => s!" R:{o}:{n}"
  | .resize o n true => s!" r:{o}:{n}"
  | .synced => " Y"
  | .closing => " X"

/-- FNV-1a of every page of a byte string (protocol lines `rx` / `fx`) -/
def pageHashes (ps : Nat) (bs : Bytes) : String :=
  let n := if ps = 0 then 0 else (bs.length + ps - 1) / ps
  String.join ((List.range (min n 400)).map fun k => " " ++ hex8' (fnv32 ((bs.drop (k * ps)).take ps)))
where hex8' (n : Nat) : String := String.ofList ((List.range 8).reverse.map fun i => hexDigit (n / 16 ^ i % 16))

def hex8 (n : Nat) : String :=
  String.ofList ((List.range 8).reverse.map fun i => hexDigit (n / 16 ^ i % 16))

def polOf (p n d : String) : Policy :=
  if p == "fibo" then .fibo else if p == "mul" then .mul (natArg n) (natArg d) else .dflt

/-- one protocol line: new state, answer, listener calls (as the model with a listener in mode `m` makes them) -/
def stepL (m : Lsn) (st : St) (ws : List String) : St × String × List Ev :=
  match ws with
  | ["open", p, n, d, maxoff, initial, trunc] =>
    let (rc, st', e) := openFileL m st (polOf p n d) (natArg maxoff) (natArg initial) (trunc != "0")
    (st', s!"open {rc.name} {if st'.isOpen then st'.fsize else 0}", e)
  | _ =>
    if !st.isOpen then (st, "closed", []) else
    match ws with
    | ["close"] => let st' := close st; (st', s!"close ok {st'.file.length}", [.closing])
    | ["w", off, len, seed] =>
      let d := pattern (natArg seed) (natArg len)
      let (st', rc, _, e) := execL m st (.op (.write (intArg off) d))
      (st', s!"w {rc.name} {if rc == .ok then d.length else 0} {st'.fsize}", e)
    | ["r", off, len] =>
      let (_, rc, bs, e) := execL m st (.op (.read (intArg off) (natArg len)))
      (st, s!"r {rc.name} {bs.length} {hex8 (fnv32 bs)} {hexOut (bs.take 24)}", e)
    | ["cp", off, siz, noff] =>
      let (st', rc, _, e) := execL m st (.op (.copy (natArg off) (natArg siz) (natArg noff)))
      (st', s!"cp {rc.name} {st'.fsize}", e)
    | ["tr", size] => let (st', rc, _, e) := execL m st (.op (.truncate (natArg size))); (st', s!"tr {rc.name} {st'.fsize}", e)
    | ["es", size] => let (st', rc, _, e) := execL m st (.op (.ensure (natArg size))); (st', s!"es {rc.name} {st'.fsize}", e)
    | ["am", off, maxlen, opts] =>
      let (st', rc, _, e) := execL m st (.op (.addMmap (natArg off) (natArg maxlen) (natArg opts % 2 == Gen.Exf.IWFS_MMAP_PRIVATE)))
      (st', s!"am {rc.name}", e)
    | ["rm", off] => let (st', rc, _, e) := execL m st (.op (.removeMmap (natArg off))); (st', s!"rm {rc.name}", e)
    | ["sm", off] => (st, s!"sm {(probeMmap st (natArg off)).1.name}", [])
    | ["pm", off] => let (rc, n) := probeMmap st (natArg off); (st, s!"pm {rc.name} {n}", [])
    | ["mw", so, rel, len, seed] =>
      let (st', rc, _, e) := execL m st (.op (.mmapWrite (natArg so) (natArg rel) (pattern (natArg seed) (natArg len))))
      (st', s!"mw {rc.name} {(probeMmap st (natArg so)).2}", e)
    | ["mwr", so, rel, len, seed] =>
      let (st', rc, _, e) := execL m st (.mmapWriteR (natArg so) (natArg rel) (pattern (natArg seed) (natArg len)))
      (st', s!"mwr {rc.name} {(probeMmap st (natArg so)).2}", e)
    | ["ra"] => let (st', rc, _, e) := execL m st (.op .remapAll); (st', s!"ra {rc.name}", e)
    | ["sy"] => (st, "sy ok", [.synced])
    | ["st"] => (st, s!"st {st.fsize} {st.file.length}", [])
    | ["rx"] =>
      let (_, _, bs, _) := execL m st (.op (.read 0 st.fsize))
      (st, s!"rx {st.fsize}{pageHashes st.psize bs}", [])
    | ["fx"] => (st, s!"fx {st.file.length}{pageHashes st.psize st.file}", [])
    | _ => (st, "bad-op", [])

def step (ds : DSt) (ws : List String) : DSt × String :=
  match ws with
  | ["lsn", k] => ({ ds with lsn := if natArg k ≤ 2 then natArg k else 0 }, "lsn ok")
  | _ =>
    let (st', out, e) := stepL (if ds.lsn == 2 then .handling else .passive) ds.st ws
    ({ ds with st := st' }, if ds.lsn == 0 then out else out ++ " |" ++ String.join (e.map evText))

end Drv.C12
