import Drv.Common
import Drv.KvBlk
import Drv.KvNode
import IwModel.Model.Format
import IwModel.Model.KvChain
/-! `drv kvchain`: replays a history of ONE database with any number of nodes (the op lines of harness/h_kv.c: `open`, `db <id> <flags>`,
`put`, `putbig`, `del`, `cur c open <db> eq <key> <comp>`, `cur c set <val> 0`, `cur c del`, `cur c close`, `dump`, `close`) on the chain
writer model `IwModel.KvChain` and, at every `image <path>` line, compares the model chain with the level-0 chain of node records the
independent Lean format reader finds in that file image, node by node BY CHAIN POSITION: number of nodes, and per node `pnum`, the live
slot order `pi[0..pnum)`, `lkl`, the `lkl` cached key bytes, the `SBLK_FULL_LKEY` bit, and the data block as `drv kvblk` does (size
power, index size, 32 slot pairs, records, live bytes). Block and node addresses are not compared.
Answers are the harness's answers; `image` when all nodes agree, `image UNREADABLE|BAD <reason>` when the reader / audit of
Model/Format.lean rejects the file (the property itself fails), `image DIFF <what>` when the file is well-formed but differs from the
model. `drv kvchain-trace` reads no files and tags every answer with the branch taken. -/
namespace Drv.KvChain
open IwModel IwModel.FormatEnc IwModel.Format IwModel.KvNode IwModel.KvChain

structure St where
  ch : Chain := []
  compound : Bool := false
  cur : Option (Bytes × Nat) := none
  isOpen : Bool := false
  trace : Bool := false
  nimg : Nat := 0

def idxTag (idx : Nat) : String :=
  if idx = 0 then "0" else if idx < pivot then "1-16" else if idx = pivot then "17" else if idx < Gen.KVBLK_IDXNUM then "18-31" else "32"

def whereTag (ch : Chain) (i : Nat) : String :=
  if ch.length ≤ 1 then "only" else if i = 0 then "head" else if i + 1 = ch.length then "tail" else "middle"

/-- branch of `put` -/
def putTag (st : St) (k : Bytes) (c : Nat) : String :=
  let cmpk := cmpOf st.compound k c
  let cnt := lowerCnt st.compound k c st.ch
  let lens := (if (KvNode.preOf st.compound c ++ k).length ≤ P then "key:short" else "key:long")
  lens ++ " " ++
  (if cnt = 0 then
    match st.ch.head? with
    | some u => if u.pnum < Gen.KVBLK_IDXNUM then "put:front" else "put:front-new-node"
    | none => "put:first-node"
  else
    match st.ch[cnt - 1]? with
    | none => "put:?"
    | some n =>
      let r := findPi n cmpk
      if r.1 then (if r.2 = 0 then "put:overwrite-first" else "put:overwrite")
      else if n.pnum > Gen.KVBLK_IDXNUM - 1 then
        (if r.2 > Gen.KVBLK_IDXNUM - 1 ∧ hasRoom st.ch[cnt]? = true then "put:uadd"
         else if r.2 = n.pnum then "put:uside split:at-" ++ whereTag st.ch (cnt - 1)
         else "put:split split:idx-" ++ idxTag r.2 ++ " split:at-" ++ whereTag st.ch (cnt - 1) ++
           (if (keyAt n (pivot - 1)).take P = (keyAt n pivot).take P ∧ (keyAt n pivot).length > P then " split:shared-prefix" else "") ++
           (if (keyAt n pivot).length > P then " split:lkey-long" else " split:lkey-short"))
      else (if r.2 = 0 then "put:add-first" else if r.2 = n.pnum then "put:append" else "put:middle")) ++
  " nodes:" ++ (if st.ch.length ≤ 1 then toString st.ch.length else if st.ch.length ≤ 4 then "2-4" else if st.ch.length ≤ 12 then "5-12" else "13+")

def rmTag (ch : Chain) (i pos : Nat) : String :=
  match ch[i]? with
  | none => "rm:?"
  | some n =>
    if n.pnum = 1 then "rm:node-" ++ whereTag ch i
    else if pos = 0 then "rm:first" else if pos + 1 = n.pnum then "rm:tail" else "rm:middle"

def putKv (st : St) (k : Bytes) (c : Nat) (v : Bytes) : St × String :=
  let tag := if st.trace then " " ++ putTag st k c else ""
  match put st.compound st.ch k c v with
  | .ok ch => ({ st with ch }, "ok" ++ tag)
  | .failed .maxkvsz => (st, "maxkvsz" ++ tag)
  | .failed _ => (st, "FULL" ++ tag)

def cmpNodes (m : Img) : List Sblk → Chain → Nat → Option String
  | [], [], _ => none
  | s :: ss, n :: ns, i =>
    match Drv.KvNode.cmpRec s n with
    | some e => some s!"node {i} record: {e}"
    | none =>
      match Drv.KvBlk.cmpNode m s n.blk with
      | some e => some s!"node {i} block: {e}"
      | none => cmpNodes m ss ns (i + 1)
  | ss, ns, i => some s!"chain length: file has {i + ss.length} nodes, model {i + ns.length}"

def cmpImage (st : St) (path : String) : IO String := do
  let bytes ← try IO.FS.readBinFile path catch _ => return "image MISSING"      -- the implementation died before it wrote the copy
  let m := imgOf bytes
  let full := st.nimg % 16 = 0 || !st.isOpen
  let res := if full then audit m else (parse m).map fun f => (f, f.dbs.flatMap checkDb)
  match res with
  | .error e => return s!"image UNREADABLE {e}"
  | .ok (f, errs) =>
    match errs with
    | e :: _ => return s!"image BAD {e}"
    | [] =>
    match f.dbs with
    | [d] =>
      if d.nodes.length ≠ st.ch.length then
        return s!"image DIFF chain length: file has {d.nodes.length} nodes {d.nodes.map (·.pnum)}, model {st.ch.length} {st.ch.map (·.pnum)}"
      else
        match cmpNodes m d.nodes st.ch 0 with
        | none => return "image"
        | some e => return s!"image DIFF {e}"
    | ds => return s!"image DIFF databases {ds.length}"

def step (st : St) (ws : List String) : IO (St × String) := do
  match ws with
  | "open" :: _ => return ({ isOpen := true, trace := st.trace }, "open ok")
  | ["close"] => return ({ st with isOpen := false, cur := none }, if st.isOpen then "close ok" else "close invalid_state")
  | ["image", path] => if st.trace then return (st, "image") else return ({ st with nimg := st.nimg + 1 }, ← cmpImage st path)
  | ["db", _, fl] => return ({ st with compound := KvApi.isCompound (Drv.natArg fl) }, "db ok")
  | ["dump", _] => return (st, "dump")
  | ["get", _, _, _] => return (st, "get")
  | ["put", _, k, c, v, _, _] =>
    let (st', r) := putKv st (Drv.hexArg k) (Drv.natArg c) (Drv.hexArg v)
    return (st', "put " ++ r)
  | ["putbig", _, k, c, n] =>
    -- a value of `n` zero bytes: only sizes above IWKV_MAX_KVSZ are sent, every branch refuses them by size; decide without the value
    let k := Drv.hexArg k
    let c := Drv.natArg c
    let n := Drv.natArg n
    if KvBlk.vn (KvNode.preOf st.compound c ++ k).length + (KvNode.preOf st.compound c ++ k).length + n > Gen.IWKV_MAX_KVSZ then
      match curPos st.compound st.ch k c with
      | some _ => return (st, "put maxkvsz" ++ (if st.trace then " big:overwrite" else ""))
      | none => return (st, "put maxkvsz" ++ (if st.trace then " big:" ++ putTag st k c else ""))
    else return (st, "bad-op")
  | ["del", _, k, c] =>
    match curPos st.compound st.ch (Drv.hexArg k) (Drv.natArg c) with
    | some (i, pos) => return ({ st with ch := rmAt st.ch i pos }, "del ok" ++ (if st.trace then " " ++ rmTag st.ch i pos else ""))
    | none => return (st, "del notfound")
  | ["cur", _, "open", _, "eq", k, c] =>
    match curPos st.compound st.ch (Drv.hexArg k) (Drv.natArg c) with
    | some _ => return ({ st with cur := some (Drv.hexArg k, Drv.natArg c) }, "cur ok")
    | none => return ({ st with cur := none }, "cur notfound")
  | ["cur", _, "set", v, _] =>
    match st.cur with
    | none => return (st, "cur nocursor")
    | some (k, c) =>
      match curPos st.compound st.ch k c with
      | none => return (st, "cur notfound")
      | some (i, pos) =>
        match curSet st.ch i pos (Drv.hexArg v) with
        | .ok ch => return ({ st with ch }, "cur ok" ++ (if st.trace then (if pos = 0 then " cset:first" else " cset:other") else ""))
        | .failed .maxkvsz => return (st, "cur maxkvsz")
        | _ => return (st, "cur FULL")
  | ["cur", _, "del"] =>
    match st.cur with
    | none => return (st, "cur nocursor")
    | some (k, c) =>
      match curPos st.compound st.ch k c with
      | some (i, pos) => return ({ st with ch := curDel st.ch i pos }, "cur ok" ++ (if st.trace then " c" ++ rmTag st.ch i pos else ""))
      | none => return (st, "cur notfound")
  | ["cur", _, "close"] =>
    match st.cur with
    | none => return (st, "cur nocursor")
    | some _ => return ({ st with cur := none }, "cur ok")
  | _ => return (st, "bad-op")

partial def main (trace : Bool := false) : IO Unit := do
  let stdin ← IO.getStdin
  let stdout ← IO.getStdout
  let rec go (st : St) : IO Unit := do
    let line ← stdin.getLine
    if line.isEmpty then return ()
    let (st', out) ← step st (Drv.words line)
    stdout.putStrLn out
    stdout.flush
    go st'
  go { trace }
end Drv.KvChain
