import Drv.Common
import IwModel.Model.Bkp
/-! `drv c08`: the backup stage machine over a key/value map, driven by the same schedule as the harness. -/
namespace Drv.C08
open IwModel.Bkp Drv

abbrev KV := List (String × String)

inductive Op where
  | put (k v : String)
  | del (k : String)
  | nop                 -- a logged change that is not a record (creation of a database)

def kvPut (k v : String) : KV → KV
  | [] => [(k, v)]
  | (k', v') :: t => if k' == k then (k, v) :: t else if k < k' then (k, v) :: (k', v') :: t else (k', v') :: kvPut k v t

def kvDel (k : String) (m : KV) : KV := m.filter (fun p => p.1 != k)

def app : Op → KV → KV
  | .put k v, m => kvPut k v m
  | .del k, m => kvDel k m
  | .nop, m => m

def dumpKV (m : KV) : String :=
  if m.isEmpty then "-" else String.intercalate ";" (m.map fun p => p.1 ++ "=" ++ p.2)

abbrev S := St KV Op

def init : S :=
  { mem := [], main := [], log := [], flushed := 0, rfo := 0, stage := 0, imgMain := none, img := none,
    forceCp := false, crashed := false }

def b01 (b : Bool) : String := if b then "1" else "0"

def step1 (s : S) (ws : List String) : S × String :=
  if s.crashed then (s, "crashed") else
  match ws with
  | ["put", k, v] => (write app (.put k v) s, "ok")
  | ["putnx", k, v] =>
    if (s.mem.lookup k).isSome then (s, "ke") else (write app (.put k v) s, "ok")
  | ["del", k] =>
    if (s.mem.lookup k).isSome then (write app (.del k) s, "ok") else (s, "nf")
  | ["get", k] =>
    match s.mem.lookup k with
    | some v => (s, "ok " ++ v)
    | none => (s, "nf")
  | ["mkdb"] => (savepoint (write app .nop s), "ok")    -- iwkv_db: create, then savepoint under the exclusive lock
  | ["grow"] =>
    let s' := grow app s
    (s', if s'.crashed then "crash" else "ok")
  | ["cp"] => if s.stage == 2 || s.stage == 5 then (s, "blocked") else (checkpoint app false s, "ok")
  | ["sync"] => if s.stage == 2 || s.stage == 5 then (s, "blocked") else (savepoint s, "ok")
  | ["bkp"] =>
    let (s', ok) := bkpStart s
    (s', if ok then "gate 1" else "busy")
  | ["gate"] =>
    if s.stage == 1 then (bkpCleanup app s, "gate 3")
    else if s.stage == 3 then (bkpCopyMain s, "gate 4")
    else if s.stage == 4 then
      let s' := bkpFinalSavepoint s
      (s', "gate 5 snap=" ++ dumpKV s'.mem)
    else if s.stage == 5 then
      -- the image is complete; the requested checkpoint is run by the checkpoint thread right away
      let s' := bkpFinish s
      (checkpoint app false s', "done")
    else (s, "gate none")
  | ["obs"] =>
    (s, s!"stage={s.stage} rfo={b01 (s.rfo > 0)} buf={b01 (s.flushed < s.log.length)} wal={skeleton (s.log.take s.flushed)}")
  | ["openimg"] =>
    match s.img with
    | some im => (s, "img " ++ dumpKV (recoverImage app im))
    | none => (s, "img none")
  | ["dump"] => (s, "dump " ++ dumpKV s.mem)
  | ["reset"] => (init, "reset")
  | _ => (s, "bad-op")

/-- driver state: the model state plus the images of all finished backups (the model keeps the last one) -/
abbrev DS := S × List (KV × List (Rec Op))

def step (d : DS) (ws : List String) : DS × String :=
  match ws with
  | ["openimg", n] =>
    match d.2[natArg n]? with
    | some im => (d, "img " ++ dumpKV (recoverImage app im))
    | none => (d, "img none")
  | _ =>
    let (s', out) := step1 d.1 ws
    let imgs := if out == "done" then (match s'.img with | some im => d.2 ++ [im] | none => d.2) else d.2
    ((s', imgs), out)

end Drv.C08
