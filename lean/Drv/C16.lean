import Drv.Common
import IwModel.Model.JsonMerge
import IwModel.Model.BinnPatch
import Drv.C15
/-! `drv c16`: JSON Merge Patch model behind the protocol of harness/h_c16.c. -/
namespace Drv.C16
open IwModel IwModel.Merge Drv

def splitBar (ws : List String) : List String × List String :=
  (ws.takeWhile (· ≠ "|"), (ws.dropWhile (· ≠ "|")).drop 1)

def isContainer : JVal → Bool
  | .arr _ => true
  | .obj _ => true
  | _ => false

def treeAnswer (r : JVal × Patch.Err) : String := s!"{r.2.name} {r.1.toWire} kl=1"

def binAnswer (doc : JVal) (r : JVal × Patch.Err) : String :=
  let shown := if isContainer r.1 then r.1.toWire else "NOCONTAINER"
  s!"{r.2.name} {shown} same={if r.1 == doc then 1 else 0}"

def step (ws : List String) : String :=
  match ws with
  | "bmerge" :: mode :: hex :: "|" :: pts =>
    -- the composed model on the binn BYTES: hex in, hex out (`jbljbl`: the patch is given as bytes too)
    match (ofHex hex).bind BinnPatch.ofBuf with
    | none => "bad-op"
    | some h =>
      if mode == "jbl" then
        match JVal.ofWire pts with
        | some patch => let res := BinnPatch.mergeHolder h patch; s!"{res.2.name} {C15.showHolder res.1}"
        | none => "bad-op"
      else if mode == "jbljbl" then
        match pts with
        | [phex] =>
          match (ofHex phex).bind BinnPatch.ofBuf with
          | some ph => let res := BinnPatch.mergeHolderJbl h ph; s!"{res.2.name} {C15.showHolder res.1}"
          | none => "bad-op"
        | _ => "bad-op"
      else "bad-op"
  | "bmseq" :: hex :: "|" :: rest =>
    match (ofHex hex).bind BinnPatch.ofBuf, (C15.splitBars rest).mapM JVal.ofWire with
    | some h, some patches =>
      let res := BinnPatch.mergeSeq h patches
      s!"{",".intercalate (res.2.map (·.name))} {C15.showHolder res.1}"
    | _, _ => "bad-op"
  | "merge" :: mode :: rest =>
    let (dts, pts) := splitBar rest
    match JVal.ofWire dts, JVal.ofWire pts with
    | some doc, some patch =>
      if mode == "node" || mode == "heap" then treeAnswer (mergePatch doc patch)
      else if mode == "njson" then treeAnswer (mergeFromJson doc patch)
      else if mode == "auto" then
        match patch with
        | .obj _ => treeAnswer (mergeAuto doc patch)
        | _ => "unmodelled"        -- array patches: drv c15
      else if mode == "jbl" || mode == "jbljbl" then binAnswer doc (mergeBinary doc patch)
      else "bad-op"
    | _, _ => "bad-op"
  | "mergetext" :: mode :: _text :: dts =>
    -- the generator only sends texts that are not JSON: the parse error is returned, nothing changes
    match JVal.ofWire dts with
    | some doc => if mode == "njson" then s!"error {doc.toWire} kl=1" else s!"error {doc.toWire} same=1"
    | none => "bad-op"
  | "mergepath" :: mode :: ptr :: rest =>
    let (dts, pts) := splitBar rest
    let val : Option (Option JVal) := if pts == ["-"] then some none else (JVal.ofWire pts).map some
    match JVal.ofWire dts, val with
    | some doc, some v =>
      if mode == "pool" || mode == "heap" || mode == "reg" then treeAnswer (mergePath doc (hexArg ptr) v)
      else "bad-op"
    | _, _ => "bad-op"
  | _ => "bad-op"

end Drv.C16
