import Drv.Common
import IwModel.Model.JsonParse
import IwModel.Model.JsonPrint
import IwModel.Model.Strtod
namespace Drv.C13
open IwModel IwModel.Json Drv

/-- hardware cross-check of the soft float: `mul add div ==` of every pair of bit patterns on the line -/
def f64Pairs : List String → List String
  | a :: b :: r =>
    let x := JVal.hexNat a
    let y := JVal.hexNat b
    JVal.hex16 (SoftF64.mul x y) :: JVal.hex16 (SoftF64.add x y) :: JVal.hex16 (SoftF64.div x y) ::
      (if SoftF64.feq x y then "1" else "0") :: f64Pairs r
  | _ => []

def showParse (text : Bytes) : String :=
  match parse iwstrtodModel text with
  | .error e => s!"err {e.name}"
  | .ok none => "ok NULL"
  | .ok (some v) => s!"ok {v.toWire}"

def step (ws : List String) : String :=
  match ws with
  | ["parse", h] => s!"parse {showParse (hexArg h)}"
  | ["parse", h, _] => s!"parse {showParse (hexArg h)}"      -- e=<errno>: the modelled code clears errno itself
  | "print" :: fl :: toks =>
    match JVal.ofWire toks with
    | none => "bad-op"
    | some v =>
      match print ftoa (natArg fl) v with
      | .error e => s!"print err {e.name}"
      | .ok t => s!"print ok {hexOut t} re={showParse t}"
  | ["unesc", h] =>
    let p := cstr (hexArg h)
    match unescPass 34 0 p 0 with
    | .error e => s!"unesc rc={e.name}"
    | .ok (len, _, endp) =>
      match unescPass 34 len p 0 with
      | .error e => s!"unesc rc={e.name}"
      | .ok (len2, out, _) => s!"unesc rc=0 len={len} fill={len2} out={hexOut out} end={p.length - endp.length}"
  | ["strtod", h] =>
    let (b, n, er) := iwstrtodModel (cstr (hexArg h))
    s!"strtod {JVal.hex16 b} {n} {if er then 1 else 0}"
  | "f64" :: ws => " ".intercalate ("f64" :: f64Pairs ws)
  | ["i2d", i] => s!"i2d {JVal.hex16 (SoftF64.ofInt (intArg i))}"
  | ["ftoa", b] =>
    let t := ftoa (JVal.hexNat b)
    s!"ftoa {hexOut t} len={t.length}"
  | _ => "bad-op"

end Drv.C13
