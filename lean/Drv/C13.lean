import Drv.Common
import IwModel.Model.JsonParse
import IwModel.Model.JsonPrint
import IwModel.Model.JsonFloat
namespace Drv.C13
open IwModel IwModel.Json Drv

def showParse (text : Bytes) : String :=
  match parse strtodBits text with
  | .error e => s!"err {e.name}"
  | .ok none => "ok NULL"
  | .ok (some v) => s!"ok {v.toWire}"

def step (ws : List String) : String :=
  match ws with
  | ["parse", h] => s!"parse {showParse (hexArg h)}"
  | ["parse", h, _] => s!"parse {showParse (hexArg h)}"      -- e=<errno>: the modelled code clears errno itself
  | "print" :: fl :: toks =>
    match JVal.ofWire toks with
    | none => "bad-op"
    | some v =>
      match print ftoa (natArg fl) v with
      | .error e => s!"print err {e.name}"
      | .ok t => s!"print ok {hexOut t} re={showParse t}"
  | ["unesc", h] =>
    let p := cstr (hexArg h)
    match unescPass 34 0 p 0 with
    | .error e => s!"unesc rc={e.name}"
    | .ok (len, _, endp) =>
      match unescPass 34 len p 0 with
      | .error e => s!"unesc rc={e.name}"
      | .ok (len2, out, _) => s!"unesc rc=0 len={len} fill={len2} out={hexOut out} end={p.length - endp.length}"
  | ["strtod", h] =>
    let (b, n, er) := strtodBits (cstr (hexArg h))
    s!"strtod {JVal.hex16 b} {n} {if er then 1 else 0}"
  | ["ftoa", b] =>
    let t := ftoa (JVal.hexNat b)
    s!"ftoa {hexOut t} len={t.length}"
  | _ => "bad-op"

end Drv.C13
