import Drv.Common
import IwModel.Model.BinnPrint
import IwModel.Model.TreeClone
/-! `drv c14`: model side of harness/h_c14.c (same stateful protocol, same output lines). -/
namespace Drv.C14
open IwModel IwModel.Binn IwModel.Ptr IwModel.BinnPrint Drv

inductive Form where
  | none
  | tree (v : JVal)
  | bin (b : BVal)

def isScalarB : BVal → Bool
  | .cont _ => false
  | _ => true

def scalarTok : BVal → String
  | .null => "n"
  | .bool true => "t"
  | .bool false => "f"
  | .int i => s!"i{i}"
  | .f64 b => "d" ++ JVal.hex16 b
  | .str s => "s" ++ hexOut (cstr s)
  | .other t => s!"?type{t}"
  | .cont _ => "?cont"

def dumpForm : Form → String
  | .none => "none"
  | .tree v => "tree " ++ v.toWire
  | .bin (.cont bs) => "bin " ++ hexOut bs
  | .bin b => "scalar " ++ scalarTok b

/-- value of a holder as wire (`dump_jbl_value`) -/
def dumpHolder (b : BVal) : String :=
  match b with
  | .cont bs => match toNode (bs.length + 1) b with
    | some v => v.toWire
    | none => "tonode-error"
  | _ => scalarTok b

def errName : AtErr → String
  | .badptr => "badptr"
  | .notfound => "notfound"
  | .nesting => "nesting"
  | .invalid => "invalid"

def printForm (f : Form) (flags : Nat) : String :=
  let pretty := flags % 2 == 1
  let L := stdLeaf (flags / 2 % 2 == 1)
  let indent := if flags / 4 % 2 == 1 then 2 else if flags / 8 % 2 == 1 then 4 else 1
  let r := match f with
    | .tree v => printTree L pretty indent 0 v
    | .bin b => printBinn L pretty (fuelOf b) 0 b
    | .none => none
  match f, r with
  | .none, _ => "print wrong-form"
  | _, some t => "print ok " ++ hexOut t
  | _, none => "print error -"

def step (f : Form) (ws : List String) : Form × String :=
  match ws with
  | "doc" :: toks =>
    match JVal.ofWire toks with
    | some v => (.tree v, "doc " ++ dumpForm (.tree v))
    | none => (.none, "doc bad")
  | [op@"fromnode"] | [op@"fill"] | [op@"fillclone"] =>
    match f with
    | .tree v =>
      if op == "fromnode" && !isContainer v then (f, "fromnode invalid-args")
      else match fromNode v with
        | some b => (.bin b, s!"{op} ok " ++ dumpForm (.bin b))
        | none => (f, s!"{op} creation")
    | _ => (f, s!"{op} wrong-form")
  | ["tonode", _] =>
    match f with
    | .bin b =>
      match toNode (fuelOf b) b with
      | some v => (.tree v, "tonode ok " ++ dumpForm (.tree v))
      | none => (f, "tonode error")
    | _ => (f, "tonode wrong-form")
  | ["clone"] =>
    match f with
    | .tree v =>
      match TreeClone.clone v with
      | some c => (.tree c, "clone ok " ++ dumpForm (.tree c))
      | none => (f, "clone error")
    | .bin b =>
      if isScalarB b then (f, "clone scalar-holder")
      else match cloneBVal b with
        | some c => (.bin c, "clone ok " ++ dumpForm (.bin c))
        | none => (f, "clone creation")
    | .none => (f, "clone wrong-form")
  | [op@"poolclone"] | [op@"rebuf"] =>
    match f with
    | .bin (.cont bs) => (f, s!"{op} ok " ++ dumpForm (.bin (.cont bs)))
    | _ => (f, s!"{op} wrong-form")
  | ["print", fl] => (f, printForm f (natArg fl))
  | ["at", p] =>
    match f with
    | .tree v =>
      match atTree v (hexArg p) with
      | .ok r => (f, "at ok " ++ r.toWire)
      | .error e => (f, s!"at {errName e} -")
    | .bin b =>
      match atBinn b (hexArg p) with
      | .ok r => (f, "at ok " ++ dumpHolder r)
      | .error e => (f, s!"at {errName e} -")
    | .none => (f, "at wrong-form")
  | ["at2", p] =>
    match parse (hexArg p) with
    | none => (f, "at2 badptr")
    | some jp =>
      match f with
      | .tree v =>
        match atTree2 v jp with
        | .ok r => (f, "at2 ok " ++ r.toWire)
        | .error e => (f, s!"at2 {errName e} -")
      | .bin b =>
        match atBinn2 b jp with
        | .ok r => (f, "at2 ok " ++ dumpHolder r ++ " 1 " ++ dumpHolder r)
        | .error e => (f, s!"at2 {errName e} - 0 -")
      | .none => (f, "at2 wrong-form")
  | ["ptr", p] =>
    match parse (hexArg p) with
    | none => (f, "ptr badptr")
    | some jp => (f, s!"ptr ok {jp.length}" ++ String.join (jp.map fun s => " " ++ hexOut s))
  | _ => (f, "bad-op")

end Drv.C14
