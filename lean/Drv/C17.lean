import Drv.Common
import IwModel.Model.Txt
import IwModel.Model.ReVm
import IwModel.Model.Re
import IwModel.Model.Ini
import IwModel.Model.Repl
namespace Drv.C17
open IwModel Drv

def cz (bs : Bytes) : Bytes := bs ++ [0]

/-- `revm` instruction token: M | C<ch> | A | K<64 hex> | N<64 hex> | S<a>,<b> | J<t> | B | E | V<k> -/
def instrOf (tk : String) : Option ReVm.Instr :=
  let body := (tk.drop 1).toString
  match tk.front with
  | 'M' => some .mtch
  | 'C' => some (.chr (natArg body))
  | 'A' => some .any
  | 'K' => (ofHex body).map (.cls false ·)
  | 'N' => (ofHex body).map (.cls true ·)
  | 'S' => match body.splitOn "," with
    | [a, b] => some (.split (natArg a) (natArg b))
    | _ => none
  | 'J' => some (.jump (natArg body))
  | 'B' => some .abegin
  | 'E' => some .aend
  | 'V' => some (.save (natArg body))
  | _ => none

def capStr (c : Option Nat) : String := match c with | some n => s!" {n}" | none => " -1"

def revm (nm : Nat) (text : Bytes) (toks : List String) : String :=
  match toks.mapM instrOf with
  | none => "revm bad-program"
  | some prog =>
    match ReVm.run prog (text.takeWhile (· ≠ 0)) nm with
    | .oob => "revm oob"
    | .fuel => "revm fuel"
    | .ok none => "revm 0" ++ String.join ((List.replicate nm (none : Option Nat)).map capStr)
    | .ok (some caps) => "revm 1" ++ String.join ((caps ++ List.replicate (nm - caps.length) none).map capStr)

/-- token form of a VM instruction (what `recomp` of the harness prints) -/
def instrTok : ReVm.Instr → String
  | .mtch => "M"
  | .chr c => s!"C{c}"
  | .any => "A"
  | .cls false bits => "K" ++ toHex bits
  | .cls true bits => "N" ++ toHex bits
  | .split a b => s!"S{a},{b}"
  | .jump t => s!"J{t}"
  | .abegin => "B"
  | .aend => "E"
  | .save k => s!"V{k}"

/-- prefix-notation dump of a parsed pattern (what `reparse` of the harness prints) -/
def nodeToks : Re.Node → List String
  | .eps => ["E"]
  | .chr c => [s!"C{c}"]
  | .any => ["A"]
  | .cls neg frm to => [(if neg then "N" else "K") ++ s!"{frm}:{to}"]
  | .cat l r => "." :: nodeToks l ++ nodeToks r
  | .alt l r => "|" :: nodeToks l ++ nodeToks r
  | .quant nmin nmax greedy q =>
    let mx := match nmax with | some m => toString m | none => "-1"
    let g := if greedy then "1" else "0"
    s!"Q{nmin},{mx},{g}" :: nodeToks q
  | .abegin => ["B"]
  | .aend => ["Z"]
  | .cap c => "P" :: nodeToks c

def outBudget : Nat := 3000

def reparse (pat : Bytes) : String :=
  match pat[0]? with
  | some 0 | none => "reparse fail"
  | _ =>
    match Re.parse pat with
    | .ok node => s!"reparse ok {node.size}" ++ String.join (((nodeToks node).take outBudget).map (" " ++ ·))
    | .fail => "reparse fail"
    | .ub => "reparse ub"
    | .oob => "reparse oob"
    | .fuel => "reparse fuel"

def recomp (pat : Bytes) : String :=
  match Re.create pat with
  | .ok prog => s!"recomp {prog.length}" ++ String.join ((prog.take outBudget).map fun i => " " ++ instrTok i)
  | .fail => "recomp fail"
  | .ub => "recomp ub"
  | .oob => "recomp oob"
  | .fuel => "recomp fuel"

def research (nm : Nat) (pat text : Bytes) : String :=
  match Re.search pat (text.takeWhile (· ≠ 0)) nm with
  | .ok none => "research 0" ++ String.join ((List.replicate nm (none : Option Nat)).map capStr)
  | .ok (some caps) => "research 1" ++ String.join ((caps ++ List.replicate (nm - caps.length) none).map capStr)
  | .fail => "research fail"
  | .ub => "research ub"
  | .oob => "research oob"
  | .fuel => "research fuel"


/-- the handler of the harness: refuses (returns 0) a pair whose name is `bad` or whose value starts with `!` -/
def iniHandler : Ini.Handler := fun _ name value => !(name == [98, 97, 100] || value.head? == some 33)

def iniEvBudget : Nat := 64

def iniOut (tag : String) (r : Ini.PR) : String :=
  match r with
  | .oob => tag ++ " oob"
  | .fuel => tag ++ " fuel"
  | .ok err evs =>
    s!"{tag} {err} {evs.length}" ++ String.join ((evs.take iniEvBudget).map fun e =>
      " " ++ hexOut e.sec ++ "/" ++ hexOut e.name ++ "/" ++ hexOut e.val)

def iniJunk : Bytes := List.replicate Ini.genCfg.maxLine 0xAA

/-- the replacement mapper of the harness -/
def replMapper : Repl.Mapper := fun key =>
  match key.head? with
  | some 110 => none                                  -- 'n': no replacement, the key stays
  | some 101 => some []                               -- 'e': erase
  | some 107 => some ("kk-longer-than-the-key-kk".toList.map (·.toNat))
  | _ => some [60, 82, 62]                            -- "<R>"

def replOut (r : Option Bytes) : String :=
  match r with
  | none => "replm oob"
  | some b => if b.length > 6000 then s!"replm ok {hexOut (b.take 6000)}+{b.length - 6000}" else s!"replm ok {hexOut b}"

def step (ws : List String) : String :=
  match ws with
  | ["perturb", _] => "perturb ok"
  | ["unesc", q, h] =>
    match Txt.unescTwoPass (cz (hexArg h)) (natArg q) 0 with
    | .oob => "unesc oob"
    | .err e => s!"unesc err={Txt.errName e}"
    | .ok (len, endp, out, len2) =>
      s!"unesc len={len} end={endp} len2={len2} end2={endp} rc2=ok out={hexOut out} guard=aa"
  | ["key", h] =>
    match Txt.parseKey (cz (hexArg h)) 0 with
    | .oob => "key oob"
    | .err e => s!"key err={Txt.errName e}"
    | .ok (r, none) => s!"key ret={r} key=none"
    | .ok (r, some k) => s!"key ret={r} key=s{hexOut (k.takeWhile (· ≠ 0))}"
  | ["ptr", h] =>
    match Txt.ptrParse (cz (hexArg h)) with
    | .oob => "ptr oob"
    | .err e => s!"ptr err={Txt.errName e}"
    | .ok r => s!"ptr cnt={r.cnt}" ++ String.join (r.segs.map fun s => " " ++ hexOut s)
  | ["ftoa", _, t8, t17] =>
    match Txt.ftoa (hexArg t8) (hexArg t17) with
    | .ok (buf, len) => s!"ftoa {len} {hexOut (buf.takeWhile (· ≠ 0))}"
    | _ => "ftoa oob"
  | ["itoa", v, mx] =>
    let (ret, m) := Conv.itoa (intArg v) (natArg mx)
    s!"itoa {ret} {hexOut m}"
  | ["atoi", h] => s!"atoi {Conv.wrap64 (Conv.atoi (hexArg h))}"
  | ["atoi2", h] =>
    match Txt.atoi2 (hexArg h) (hexArg h).length with
    | some v => s!"atoi2 {v}"
    | none => "atoi2 oob"
  | ["afcmp", a, b] =>
    match Txt.afcmp (hexArg a) (hexArg a).length (hexArg b) (hexArg b).length with
    | some v => s!"afcmp {sgn v}"
    | none => "afcmp oob"
  | ["hex2bin", h, mx] =>
    match Txt.hex2bin (hexArg h) (hexArg h).length (natArg mx) (max (natArg mx) 1) with
    | some out => s!"hex2bin {out.length} {hexOut out}"
    | none => "hex2bin oob"
  | ["bin2hex", h, mx] =>
    let b := hexArg h
    if natArg mx ≤ b.length * 2 then "bin2hex null" else s!"bin2hex {hexOut (Conv.bin2hex b)}"
  | "revm" :: nm :: txt :: toks => revm (natArg nm) (hexArg txt) toks
  | ["reparse", p] => reparse (cz (hexArg p))
  | ["recomp", p] => recomp (cz (hexArg p))
  | ["research", nm, p, t] => research (natArg nm) (cz (hexArg p)) (hexArg t)
  | ["inis", h] => iniOut "inis" (Ini.parseString Ini.genCfg iniHandler iniJunk (cz (hexArg h)))
  | ["inifile", h] => iniOut "inifile" (Ini.parseFile Ini.genCfg iniHandler iniJunk (hexArg h))
  | "inif" :: fills =>
    let fs := fills.map hexArg
    if fs.any (fun f => f.length + 1 > Ini.genCfg.readerNum) then "inif bad-fill"
    else iniOut "inif" (Ini.parseFills Ini.genCfg iniHandler iniJunk fs)
  | "replm" :: dl :: d :: keys =>
    let data := hexArg d
    if natArg dl > data.length then "replm bad-len"
    else replOut (Repl.replace replMapper (cz data) (natArg dl) (keys.map fun k => cz (hexArg k)))
  | _ => "bad-op"

end Drv.C17
