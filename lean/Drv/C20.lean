import Drv.Common
import IwModel.Model.Exec
/-! `drv c20`: the executor transition systems behind the line protocol of harness/h_c20.c -/
namespace Drv.C20
open IwModel IwModel.Exec Drv

inductive St
  | none
  | stw (s : Stw)
  | tp (s : Tp)

def rcStr : Rc → String
  | .ok => "ok" | .invalidState => "invalid-state" | .overflow => "overflow"

def b01 (b : Bool) : String := if b then "1" else "0"

def evStr : Ev → String
  | .start t => s!"start:{t}"
  | .fin t => s!"fin:{t}"
  | .discard t => s!"discard:{t}"
  | .ret i rc f => s!"ret:{i}:{rcStr rc}:{b01 f}"
  | .block i => s!"block:{i}"
  | .join i => s!"join:{i}"
  | .exit k => s!"exit:{k}"
  | .spawn k => s!"spawn:{k}"
  | .bcast q => if q then "bcast:q" else "bcast:w"
  | .signal (some k) => s!"signal:{k}"
  | .signal none => "signal:-"
  | .disabled => "disabled"
  | .busy => "busy"
  | .uaf i => s!"uaf:{i}"

def evsStr (l : List Ev) : String := if l.isEmpty then "-" else ",".intercalate (l.map evStr)

def wStr : WPc → String
  | .init _ => "L" | .pop => "L" | .check => "L" | .run _ => "R"
  | .wait s => "W" ++ b01 s | .exited => "X"

def cStr : CPc → String
  | .idle => "I" | .enter _ => "L" | .blocked _ s => "W" ++ b01 s | .joining _ => "J"

def natsStr (l : List Nat) : String := if l.isEmpty then "-" else ",".intercalate (l.map toString)

def stwState (s : Stw) : String :=
  let th := s!"w={wStr s.w} c={",".intercalate (s.clients.map cStr)}"
  if s.freed then s!"freed {th}"
  else s!"q={natsStr s.queue} cnt={s.cnt} qb={b01 s.queueBlocked} sd={b01 s.shutdown} {th}"

def tpState (s : Tp) : String :=
  let th := s!"w={",".intercalate (s.ws.map wStr)} c={",".intercalate (s.clients.map cStr)}"
  if s.freed then s!"freed {th}"
  else s!"q={natsStr s.queue} qs={s.qsize} busy={s.busy} nt={s.threads.length} sd={b01 s.shutdown} {th}"

def thStr : Th → String
  | .worker k => s!"w{k}" | .client i => s!"c{i}"

def parseTh (kind idx : String) : Option Th :=
  if kind == "w" then some (.worker (natArg idx)) else if kind == "c" then some (.client (natArg idx)) else none

def parseCall : List String → Option Call
  | ["sched", t] => some (.sched (natArg t))
  | ["only", t] => some (.only (natArg t))
  | ["empty", t] => some (.emptyOnly (natArg t))
  | ["shutdown", w] => some (.shutdown (w == "1"))
  | _ => none

def apply (st : St) (l : Label) (pre : String) : St × String :=
  match st with
  | .none => (st, "no-executor")
  | .stw s => let (s', ev) := s.step l; (.stw s', s!"{pre}{evsStr ev} | {stwState s'}")
  | .tp s => let (s', ev) := s.step l; (.tp s', s!"{pre}{evsStr ev} | {tpState s'}")

def enabledOf : St → List Th
  | .none => [] | .stw s => s.enabledList | .tp s => s.enabledList

def stepEv (st : St) (l : Label) : St × List Ev :=
  match st with
  | .none => (st, [])
  | .stw s => let (s', ev) := s.step l; (.stw s', ev)
  | .tp s => let (s', ev) := s.step l; (.tp s', ev)

def stateStr : St → String
  | .none => "" | .stw s => stwState s | .tp s => tpState s

/-- run the first enabled thread until none is left -/
def drain : Nat → St → List Ev → St × List Ev
  | 0, st, acc => (st, acc)
  | fuel + 1, st, acc =>
    match enabledOf st with
    | [] => (st, acc)
    | th :: _ => let (st', ev) := stepEv st (.step th 0); drain fuel st' (acc ++ ev)

/-- run the enabled client threads (lowest index first) until none of them can move -/
def settle : Nat → St → List Ev → St × List Ev
  | 0, st, acc => (st, acc)
  | fuel + 1, st, acc =>
    match (enabledOf st).find? (fun th => match th with | .client _ => true | _ => false) with
    | none => (st, acc)
    | some th => let (st', ev) := stepEv st (.step th 0); settle fuel st' (acc ++ ev)

def shutdownSeen : St → Bool
  | .none => true | .stw s => s.freed || s.shutdown | .tp s => s.freed || s.shutdown

def clientsOf : St → List CPc
  | .none => [] | .stw s => s.clients | .tp s => s.clients

def finishRound (st : St) (acc : List Ev) : St × List Ev :=
  let (st, acc) := drain 200000 st acc
  let cl := clientsOf st
  let pending := cl.any fun c => match c with | .enter (.shutdown _) => true | _ => false
  let (st, ev0) :=
    if !shutdownSeen st && !pending then
      match (List.range cl.length).find? (fun i => cl.getD i .idle = .idle) with
      | some i => stepEv st (.call i (.shutdown true))
      | none => (st, [])
    else (st, [])
  drain 200000 st (acc ++ ev0)

/-- `finish`: run the first enabled thread until none is left (calls under way complete), then a waiting shutdown
    from the first idle client unless a shutdown was made already, and run to quiescence again -/
def finish (st : St) : St × String :=
  let (st, ev) := finishRound st []
  (st, s!"finish: {evsStr ev} | {stateStr st}")

def step (st : St) (ws : List String) : St × String :=
  match ws with
  | ["finish"] => match st with | .none => (st, "no-executor") | _ => finish st
  | ["quiesce"] =>
    match st with
    | .none => (st, "no-executor")
    | _ => let (st, ev) := drain 200000 st []; (st, s!"quiesce: {evsStr ev} | {stateStr st}")
  | ["settle"] =>
    match st with
    | .none => (st, "no-executor")
    | _ => let (st, ev) := settle 200000 st []; (st, s!"settle: {evsStr ev} | {stateStr st}")
  | ["new", "stw", limit, blocking, cb, ncl] =>
    let s := Stw.init (natArg limit) (blocking == "1") (cb == "1") (natArg ncl)
    (.stw s, s!"new | {stwState s}")
  | ["new", "tp", nth, limit, factor, ncl] =>
    let s := Tp.init (natArg nth) (natArg limit) (natArg factor) (natArg ncl)
    (.tp s, s!"new | {tpState s}")
  | "call" :: i :: rest =>
    match parseCall rest with
    | some c => apply st (.call (natArg i) c) s!"c{natArg i}: "
    | none => (st, "bad-op")
  | ["step", kind, idx, sel] =>
    match parseTh kind idx with
    | some th => apply st (.step th (natArg sel)) s!"{thStr th}: "
    | none => (st, "bad-op")
  | ["spur", kind, idx] =>
    match parseTh kind idx with
    | some th => apply st (.spur th) s!"{thStr th}: "
    | none => (st, "bad-op")
  | ["pick", n, sel] =>
    let en := match st with
      | .none => [] | .stw s => s.enabledList | .tp s => s.enabledList
    match st with
    | .none => (st, "no-executor")
    | _ =>
      if en.isEmpty then
        (st, "none | " ++ (match st with | .stw s => stwState s | .tp s => tpState s | .none => ""))
      else
        let th := en.getD (natArg n % en.length) (.worker 0)
        apply st (.step th (natArg sel)) s!"{thStr th}: "
  | _ => (st, "bad-op")

end Drv.C20
