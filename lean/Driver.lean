import Drv.C19
import Drv.C07
import Drv.C08
/-! `drv <model>`: executable models behind a one-line-in, one-line-out protocol. -/
def main (args : List String) : IO UInt32 := do
  match args with
  | ["c19"] => Drv.pureLoop Drv.C19.step; return 0
  | ["c07"] => Drv.pureLoop Drv.C07.step; return 0
  | ["c08"] => Drv.loop Drv.C08.step (Drv.C08.init, []); return 0
  | _ => IO.eprintln "usage: drv <model>"; return 2
