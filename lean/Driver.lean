import Drv.C19
import Drv.C15
import Drv.C16
/-! `drv <model>`: executable models behind a one-line-in, one-line-out protocol. -/
def main (args : List String) : IO UInt32 := do
  match args with
  | ["c19"] => Drv.pureLoop Drv.C19.step; return 0
  | ["c15"] => Drv.pureLoop Drv.C15.step; return 0
  | ["c16"] => Drv.pureLoop Drv.C16.step; return 0
  | _ => IO.eprintln "usage: drv <model>"; return 2
