import Drv.C19
import Drv.Kv
import Drv.Fmt
import Drv.C14
import Drv.C12
import Drv.C18
import Drv.C20
import Drv.C13
import Drv.C10
import Drv.C15
import Drv.C16
import Drv.C17
import Drv.C05
import Drv.KvBlk
import Drv.C07
import Drv.C08
import Drv.WalW
import Drv.Links
import Drv.KvNode
import Drv.KvChain
/-! `drv <model>`: executable models behind a one-line-in, one-line-out protocol. -/
def main (args : List String) : IO UInt32 := do
  match args with
  | ["c19"] => Drv.pureLoop Drv.C19.step; return 0
  | ["fmt"] => Drv.Fmt.main; return 0
  | ["kv"] => Drv.loop Drv.Kv.step Drv.Kv.init; return 0
  | ["c14"] => Drv.loop Drv.C14.step Drv.C14.Form.none; return 0
  | ["c12"] => Drv.loop Drv.C12.step Drv.C12.init; return 0
  | ["c18"] => Drv.loop Drv.C18.step {}; return 0
  | ["c20"] => Drv.loop Drv.C20.step Drv.C20.St.none; return 0
  | ["c13"] => Drv.pureLoop Drv.C13.step; return 0
  | ["c10"] => Drv.loop Drv.C10.step {}; return 0
  | ["c11"] => Drv.loop Drv.C10.step {}; return 0
  | ["c15"] => Drv.pureLoop Drv.C15.step; return 0
  | ["c16"] => Drv.pureLoop Drv.C16.step; return 0
  | ["c17"] => Drv.pureLoop Drv.C17.step; return 0
  | ["kvblk"] => Drv.KvBlk.main; return 0
  | ["kvblk-trace"] => Drv.KvBlk.main true; return 0
  | ["c05"] => Drv.C05.main; return 0
  | ["c04"] => Drv.C05.main; return 0
  | ["c07"] => Drv.pureLoop Drv.C07.step; return 0
  | ["c08"] => Drv.loop Drv.C08.step (Drv.C08.init, []); return 0
  | ["walw"] => Drv.WalW.main; return 0
  | ["links"] => Drv.Links.main; return 0
  | ["kvnode"] => Drv.KvNode.main; return 0
  | ["kvnode-trace"] => Drv.KvNode.main true; return 0
  | ["kvchain"] => Drv.KvChain.main; return 0
  | ["kvchain-trace"] => Drv.KvChain.main true; return 0
  | _ => IO.eprintln "usage: drv <model>"; return 2
