-- This module serves as the root of the `IwModel` library.
-- Import modules here that should be built as part of the library.
import IwModel.Basic
