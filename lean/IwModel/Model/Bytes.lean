/-! Byte strings of the models: a byte is a `Nat` (< 256 is a separate predicate), a buffer is `List Nat`. -/
namespace IwModel

abbrev Bytes := List Nat

def Bytes.wf (bs : Bytes) : Prop := ∀ b ∈ bs, b < 256

def hexDigit (n : Nat) : Char :=
  if n < 10 then Char.ofNat (48 + n) else Char.ofNat (87 + n)

def toHex (bs : Bytes) : String :=
  String.ofList (bs.flatMap fun b => [hexDigit (b / 16 % 16), hexDigit (b % 16)])

def hexVal (c : Char) : Option Nat :=
  if '0' ≤ c ∧ c ≤ '9' then some (c.toNat - 48)
  else if 'a' ≤ c ∧ c ≤ 'f' then some (c.toNat - 87)
  else if 'A' ≤ c ∧ c ≤ 'F' then some (c.toNat - 55)
  else none

def ofHexAux : List Char → Option Bytes
  | [] => some []
  | [_] => none
  | a :: b :: rest => do
    let x ← hexVal a
    let y ← hexVal b
    let r ← ofHexAux rest
    pure ((x * 16 + y) :: r)

/-- `-` denotes the empty string on the wire. -/
def ofHex (s : String) : Option Bytes :=
  if s == "-" then some [] else ofHexAux s.toList

def hexOut (bs : Bytes) : String := if bs.isEmpty then "-" else toHex bs

/-- sign of an integer as -1/0/1 -/
def sgn (i : Int) : Int := if i < 0 then -1 else if i > 0 then 1 else 0

end IwModel
