import IwModel.Model.Bytes
/-! Checked primitives on index-addressed memory shared by the bounds-instrumented models of C string code
(`Model/Ini.lean`, `Model/Repl.lean`): every one answers `none` for an access outside the buffer. -/
namespace IwModel.CStr

/-- checked store `buf[i] = v` -/
def wr (buf : Bytes) (i v : Nat) : Option Bytes :=
  if i < buf.length then some (buf.set i v) else none

/-- `s + strlen(s)`: index of the first NUL at or behind `s` -/
def strEnd (buf : Bytes) (i : Nat) : Option Nat :=
  match h : buf[i]? with
  | none => none
  | some c => if c = 0 then some i else strEnd buf (i + 1)
termination_by buf.length - i
decreasing_by
  have hi : i < buf.length := (List.getElem?_eq_some_iff.mp h).1
  omega

/-- the C string at `buf + s` as the handler reads it -/
def getStr (buf : Bytes) (i : Nat) : Option Bytes :=
  match h : buf[i]? with
  | none => none
  | some c => if c = 0 then some [] else (getStr buf (i + 1)).map (c :: ·)
termination_by buf.length - i
decreasing_by
  have hi : i < buf.length := (List.getElem?_eq_some_iff.mp h).1
  omega

/-- `memcpy(dst, buf + p, n)` as far as the source is concerned: the `n` bytes read -/
def readN (buf : Bytes) (p : Nat) : Nat → Option Bytes
  | 0 => some []
  | n + 1 =>
    match buf[p]? with
    | none => none
    | some c => (readN buf (p + 1) n).map (c :: ·)

end IwModel.CStr
