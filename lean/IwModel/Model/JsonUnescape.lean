import IwModel.Model.JsonUtf8
import IwModel.Gen.Json
/-! `_jbl_unescape_json_string` of src/json/iwjser.c.

The C function is called twice by the parser: a *length pass* (`d = 0, dlen = 0`: nothing is stored, the
return value is the decoded length) and a *fill pass* into a buffer of exactly that length.  `unescPass`
mirrors one call: it walks the text after the opening quote and returns the final value of `d - ds`, the
bytes actually stored (those at positions `< dlen`) and the text after the closing quote.
The end of the list and a `0` byte both stand for the terminating NUL of the C string. -/
namespace IwModel.Json

inductive PErr where
  | json | unquoted | codepoint | nesting | fuel
deriving Repr, DecidableEq, Inhabited

def PErr.name : PErr → String
  | .json => "json" | .unquoted => "unquoted" | .codepoint => "codepoint" | .nesting => "nesting" | .fuel => "fuel"

/-- `_jbl_hex` -/
def hexv (c : Nat) : Option Nat :=
  if 48 ≤ c ∧ c ≤ 57 then some (c - 48)
  else if 97 ≤ c ∧ c ≤ 102 then some (c - 87)
  else if 65 ≤ c ∧ c ≤ 70 then some (c - 55)
  else none

/-- `h1 << 12 | h2 << 8 | h3 << 4 | h4` when all four are hex digits -/
def hex4 (a b c d : Nat) : Option Nat :=
  match hexv a, hexv b, hexv c, hexv d with
  | some x, some y, some z, some w => some (x * 4096 + y * 256 + z * 16 + w)
  | _, _, _, _ => none

/-- the single-letter escapes (`case 'b': *d = '\b'` …), from the regenerated table -/
def unescLetter (c : Nat) : Option Nat := (Gen.Json.jsonUnescLetters.find? (·.1 == c)).map (·.2)

/-- bytes of `bs` that the guarded stores `if (d < de) *d = …; ++d` really write when `d` is the
    current offset and `dlen` the buffer size -/
def stored (dlen d : Nat) (bs : Bytes) : Bytes := bs.take (dlen - d)

abbrev URes := Except PErr (Nat × Bytes × Bytes)

/-- continue after `bs` have been emitted -/
@[inline] def emit (dlen d : Nat) (bs : Bytes) (k : Nat → URes) : URes :=
  match k (d + bs.length) with
  | .error e => .error e
  | .ok (n, w, rest) => .ok (n, stored dlen d bs ++ w, rest)

/-- `cp = 0x10000 + ((cp - 0xd800) << 10) + (cp2 - 0xdc00)` -/
def surrogate (cp cp2 : Nat) : Nat := 0x10000 + (cp - 0xd800) * 1024 + (cp2 - 0xdc00)

/-- one call of `_jbl_unescape_json_string(ctx, q, p, d, dlen, &end)`; `d` is the running offset -/
def unescPass (q dlen : Nat) : Bytes → Nat → URes
  | [], _ => .error .unquoted
  | c :: p, d =>
    if c = 0 then .error .unquoted
    else if c = q then .ok (d, [], p)
    else if c = 92 then
      match p with
      | [] => emit dlen d [c] (unescPass q dlen [])           -- `default:` with *p == NUL
      | e :: r =>
        if e = 92 ∨ e = 47 ∨ e = 34 then emit dlen d [e] (unescPass q dlen r)
        else if e = 117 then
          match r with
          | h1 :: h2 :: h3 :: h4 :: r1 =>
            match hex4 h1 h2 h3 h4 with
            | none => .error .codepoint
            | some cp =>
              if cp / 1024 = 54 then                              -- (cp & 0xfc00) == 0xd800
                match r1 with
                | 92 :: 117 :: g1 :: g2 :: g3 :: g4 :: r2 =>
                  match hex4 g1 g2 g3 g4 with
                  | none => .error .codepoint
                  | some cp2 =>
                    if cp2 / 1024 ≠ 55 then .error .codepoint   -- (cp2 & 0xfc00) != 0xdc00
                    else if !codepointValid (surrogate cp cp2) then .error .codepoint
                    else emit dlen d (encodeChar (surrogate cp cp2)) (unescPass q dlen r2)
                | _ => .error .codepoint
              else if !codepointValid cp then .error .codepoint
              else emit dlen d (encodeChar cp) (unescPass q dlen r1)
          | _ => .error .codepoint
        else
          match unescLetter e with
          | some b => emit dlen d [b] (unescPass q dlen r)
          | none => emit dlen d [c] (unescPass q dlen (e :: r))   -- `default:` keeps the backslash, `e` is read again
    else emit dlen d [c] (unescPass q dlen p)

/-- What the parser does with a string body: length pass, then (if the length is not 0) fill pass into
    `len` bytes; a fill pass returning another length is a parse error. Returns (content, text after quote). -/
def parseStr (q : Nat) (p : Bytes) (alwaysFill : Bool) : Except PErr (Bytes × Bytes) :=
  match unescPass q 0 p 0 with
  | .error e => .error e
  | .ok (len, _, endp) =>
    if len ≠ 0 ∨ alwaysFill then
      match unescPass q len p 0 with
      | .error e => .error e
      | .ok (len2, out, rest) => if len2 ≠ len then .error .json else .ok (out, rest)
    else .ok ([], endp)

end IwModel.Json
