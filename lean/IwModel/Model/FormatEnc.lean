import IwModel.Model.Vnum
/-! The WRITER side of the iwkv file format and list-based decoders shared with the reader.

Encoders mirror the C writers field by field: every record is a list of *writes* `(offset, bytes)`
into the mapped file (`poke`), at the offsets the C code uses (`SOFF_*`, `DOFF_*` regenerated from
iwkv.c): `_sblk_sync_mm` (node record), `_kvblk_sync_mm` (data block header + index),
`_kvblk_addkv` (one `[klen:vn,key,value]` record placed at `block_end - off`), `_db_save` +
`_sblk_sync_mm` on the database block (database header), `_fsm_write_meta_lw` (allocator header).
Bytes a writer does not touch keep their old value (`…Over old`): `n[]` beyond `lvl` and `lk` beyond
`lkl` are stale in real files.

Decoders read the same offsets from a byte list (`peek`); the reader of Model/Format.lean is defined
through them (`Mem.slice` of the image), so theorems about the decoders are theorems about the reader
that runs on real files. -/
namespace IwModel.FormatEnc
open IwModel

/-! ### memory -/

/-- a readable memory: the file image as the reader sees it; reads past the end give 0 -/
structure Mem where
  size : Nat
  get : Nat → Nat

def Mem.ofBytes (b : Bytes) : Mem := ⟨b.length, fun i => b.getD i 0⟩

def Mem.slice (m : Mem) (off len : Nat) : Bytes := (List.range len).map fun i => m.get (off + i)

/-- `len` bytes at `off` -/
def peek (b : Bytes) (off len : Nat) : Bytes := (b.drop off).take len

/-- `memcpy(b + off, x, |x|)` -/
def poke (b : Bytes) (off : Nat) (x : Bytes) : Bytes := b.take off ++ x ++ b.drop (off + x.length)

/-- a sequence of writes, first to last -/
def pokes (b : Bytes) : List (Nat × Bytes) → Bytes
  | [] => b
  | w :: ws => pokes (poke b w.1 w.2) ws

def zeros (n : Nat) : Bytes := List.replicate n 0

/-! ### fixed-width little-endian fields (`IW_WRITELV`, `IW_READLV`, …) -/

def leEnc : Nat → Nat → Bytes
  | 0, _ => []
  | w + 1, v => v % 256 :: leEnc w (v / 256)

def leDec : Bytes → Nat
  | [] => 0
  | b :: bs => b + 256 * leDec bs

/-- one byte at `off` -/
def byte (b : Bytes) (off : Nat) : Nat := leDec (peek b off 1)

/-- a `uint32_t[]` array -/
def encU4s (xs : List Nat) : Bytes := xs.flatMap (leEnc 4)

def decU4s : Nat → Bytes → List Nat
  | 0, _ => []
  | k + 1, b => leDec (b.take 4) :: decU4s k (b.drop 4)

/-! ### node record (SBLK), `_sblk_sync_mm` / `_sblk_at2` -/

structure SblkRec where
  flags : Nat
  lvl : Nat
  lkl : Nat
  pnum : Nat
  p0 : Nat
  kblk : Nat
  piAll : List Nat       -- all 32 slot numbers as stored (entries beyond `pnum` are stale)
  n : List Nat           -- next links, levels 0..lvl
  bpos : Nat
  lk : Bytes             -- `lkl` bytes of the lowest key
deriving Repr, DecidableEq

/-- first `pnum` slot numbers: the live part of `pi` -/
def SblkRec.pi (s : SblkRec) : List Nat := s.piAll.take s.pnum

/-- the stores of `_sblk_sync_mm` (non-database branch), relative to the node address -/
def sblkWrites (s : SblkRec) : List (Nat × Bytes) :=
  [(Gen.SOFF_FLAGS_U1, [s.flags]), (Gen.SOFF_LVL_U1, [s.lvl]), (Gen.SOFF_LKL_U1, [s.lkl]),
   (Gen.SOFF_PNUM_U1, [s.pnum]), (Gen.SOFF_P0_U4, leEnc 4 s.p0), (Gen.SOFF_KBLK_U4, leEnc 4 s.kblk),
   (Gen.SOFF_PI0_U1, s.piAll), (Gen.SOFF_N0_U4, encU4s s.n), (Gen.SOFF_BPOS_U1_V2, [s.bpos]),
   (Gen.SOFF_LK_V2, s.lk)]

def encSblkOver (old : Bytes) (s : SblkRec) : Bytes := pokes old (sblkWrites s)

/-- node record written into a fresh (zeroed) 256-byte area -/
def encSblk (s : SblkRec) : Bytes := encSblkOver (zeros Gen.SBLK_SZ) s

/-- `_sblk_at2` (node branch) with its corruption checks -/
def decSblk (b : Bytes) : Option SblkRec :=
  if b.length < Gen.SBLK_SZ then none else
  let lvl := byte b Gen.SOFF_LVL_U1
  let lkl := byte b Gen.SOFF_LKL_U1
  let pnum := byte b Gen.SOFF_PNUM_U1
  if lvl ≥ Gen.SLEVELS ∨ lkl > Gen.PREFIX_KEY_LEN_V2 ∨ pnum > Gen.KVBLK_IDXNUM then none else
  some { flags := byte b Gen.SOFF_FLAGS_U1, lvl, lkl, pnum,
         p0 := leDec (peek b Gen.SOFF_P0_U4 4), kblk := leDec (peek b Gen.SOFF_KBLK_U4 4),
         piAll := peek b Gen.SOFF_PI0_U1 Gen.KVBLK_IDXNUM,
         n := decU4s (lvl + 1) (peek b Gen.SOFF_N0_U4 (4 * (lvl + 1))),
         bpos := byte b Gen.SOFF_BPOS_U1_V2, lk := peek b Gen.SOFF_LK_V2 lkl }

/-! ### data block (KVBLK) header and index, `_kvblk_sync_mm` / `_kvblk_at_mm` -/

structure KvIndex where
  szpow : Nat
  idxsz : Nat
  slots : List (Nat × Nat)             -- 32 (off, len) pairs
deriving Repr, DecidableEq

/-- `IW_SETVNUMBUF64(off)`, `IW_SETVNUMBUF(len)` for each of the 32 slots -/
def encSlots (sl : List (Nat × Nat)) : Bytes := sl.flatMap fun p => Vnum.enc p.1 ++ Vnum.enc p.2

/-- what `_kvblk_sync_mm` makes of a block state: `idxsz` is the size of the index it wrote -/
def KvIndex.ofSlots (szpow : Nat) (sl : List (Nat × Nat)) : KvIndex := ⟨szpow, (encSlots sl).length, sl⟩

/-- offset of the `idxsz:u2` field: after `szpow:u1` -/
def KOFF_SZPOW : Nat := 0
def KOFF_IDXSZ : Nat := 1

def kvIndexWrites (k : KvIndex) : List (Nat × Bytes) :=
  [(KOFF_SZPOW, [k.szpow]), (KOFF_IDXSZ, leEnc 2 k.idxsz), (Gen.KVBLK_HDRSZ, encSlots k.slots)]

def encKvIndexOver (old : Bytes) (k : KvIndex) : Bytes := pokes old (kvIndexWrites k)

/-- header + index bytes exactly (`KVBLK_HDRSZ + idxsz` bytes) -/
def encKvIndex (k : KvIndex) : Bytes := [k.szpow] ++ leEnc 2 k.idxsz ++ encSlots k.slots

/-- variable-length number at `pos`: (value, bytes consumed); looks at `IW_VNUMBUFSZ` bytes -/
def vnumAt (b : Bytes) (pos : Nat) : Option (Nat × Nat) := Vnum.dec (peek b pos Gen.IW_VNUMBUFSZ)

inductive SlotErr | off | len
deriving Repr, DecidableEq

/-- `k` (off, len) vnum pairs starting at `pos`; returns the pairs and the end position -/
def decSlotsE (b : Bytes) : Nat → Nat → List (Nat × Nat) → Except SlotErr (List (Nat × Nat) × Nat)
  | 0, pos, acc => .ok (acc.reverse, pos)
  | k + 1, pos, acc =>
    match vnumAt b pos with
    | none => .error .off
    | some (off, s1) =>
      match vnumAt b (pos + s1) with
      | none => .error .len
      | some (len, s2) => decSlotsE b k (pos + s1 + s2) ((off, len) :: acc)

/-- longest possible header + index -/
def kvIndexMax : Nat := Gen.KVBLK_HDRSZ + Gen.KVBLK_IDXNUM * 2 * Gen.IW_VNUMBUFSZ

inductive IdxErr | slot (e : SlotErr) | size (idxsz occupied : Nat)
deriving Repr, DecidableEq

def decKvIndexE (b : Bytes) : Except IdxErr KvIndex :=
  let szpow := byte b KOFF_SZPOW
  let idxsz := leDec (peek b KOFF_IDXSZ 2)
  match decSlotsE b Gen.KVBLK_IDXNUM Gen.KVBLK_HDRSZ [] with
  | .error e => .error (.slot e)
  | .ok (slots, endPos) =>
    if endPos - Gen.KVBLK_HDRSZ ≠ idxsz then .error (.size idxsz (endPos - Gen.KVBLK_HDRSZ))
    else .ok { szpow, idxsz, slots }

def decKvIndex (b : Bytes) : Option KvIndex := (decKvIndexE b).toOption

/-! ### one key/value record, `_kvblk_addkv` -/

/-- `[klen:vn, key, value]`; `key` is the stored key (with the compound prefix if any) -/
def encKv (k v : Bytes) : Bytes := Vnum.enc k.length ++ k ++ v

inductive KvErr | unterminated | nofit (klen : Nat)
deriving Repr, DecidableEq

/-- a record of `len` bytes at the start of `b` -/
def decKvE (b : Bytes) (len : Nat) : Except KvErr (Bytes × Bytes) :=
  match vnumAt b 0 with
  | none => .error .unterminated
  | some (klen, st) =>
    if st + klen > len then .error (.nofit klen)
    else .ok (peek b st klen, peek b (st + klen) (len - st - klen))

def decKv (b : Bytes) (len : Nat) : Option (Bytes × Bytes) := (decKvE b len).toOption

/-! ### database header, `_db_save` + `_sblk_sync_mm` (database branch) / `_db_at` -/

structure DbHdr where
  flags : Nat
  id : Nat
  next : Nat
  p0 : Nat
  n : List Nat           -- 24 head links
  c : List Nat           -- 24 per-level counters
  metaBlk : Nat
  metaBlkn : Nat
deriving Repr, DecidableEq

def dbHdrWrites (d : DbHdr) : List (Nat × Bytes) :=
  [(Gen.DOFF_MAGIC_U4, leEnc 4 Gen.IWDB_MAGIC), (Gen.DOFF_DBFLG_U1, [d.flags]), (Gen.DOFF_DBID_U4, leEnc 4 d.id),
   (Gen.DOFF_NEXTDB_U4, leEnc 4 d.next), (Gen.DOFF_P0_U4, leEnc 4 d.p0), (Gen.DOFF_N0_U4, encU4s d.n),
   (Gen.DOFF_C0_U4, encU4s d.c), (Gen.DOFF_METABLK_U4, leEnc 4 d.metaBlk), (Gen.DOFF_METABLKN_U4, leEnc 4 d.metaBlkn)]

def encDbHdrOver (old : Bytes) (d : DbHdr) : Bytes := pokes old (dbHdrWrites d)

/-- the 217 header bytes -/
def encDbHdr (d : DbHdr) : Bytes := encDbHdrOver (zeros Gen.DOFF_END) d

def decDbHdr (b : Bytes) : Option DbHdr :=
  if b.length < Gen.DOFF_END then none
  else if leDec (peek b Gen.DOFF_MAGIC_U4 4) ≠ Gen.IWDB_MAGIC then none
  else some { flags := byte b Gen.DOFF_DBFLG_U1, id := leDec (peek b Gen.DOFF_DBID_U4 4),
              next := leDec (peek b Gen.DOFF_NEXTDB_U4 4), p0 := leDec (peek b Gen.DOFF_P0_U4 4),
              n := decU4s Gen.SLEVELS (peek b Gen.DOFF_N0_U4 (4 * Gen.SLEVELS)),
              c := decU4s Gen.SLEVELS (peek b Gen.DOFF_C0_U4 (4 * Gen.SLEVELS)),
              metaBlk := leDec (peek b Gen.DOFF_METABLK_U4 4), metaBlkn := leDec (peek b Gen.DOFF_METABLKN_U4 4) }

/-! ### allocator header, `_fsm_write_meta_lw` / `_fsm_read_meta_lr`

`[magic u32][bpow u8][bmoff u64][bmlen u64][crzsum u64][crznum u32][crzvar u64][reserved 32][hdrlen u32]`;
the C code advances `sp` by `sizeof` of each field, so do the offsets here; the total is checked against
`IWFSM_CUSTOM_HDR_DATA_OFFSET` (`C03.fsm_layout_total`). -/

structure FsmHdr where
  bpow : Nat
  bmoff : Nat
  bmlen : Nat
  crzsum : Nat
  crznum : Nat
  crzvar : Nat
  hdrlen : Nat
deriving Repr, DecidableEq

def FOFF_MAGIC : Nat := 0
def FOFF_BPOW : Nat := FOFF_MAGIC + 4
def FOFF_BMOFF : Nat := FOFF_BPOW + 1
def FOFF_BMLEN : Nat := FOFF_BMOFF + 8
def FOFF_CRZSUM : Nat := FOFF_BMLEN + 8
def FOFF_CRZNUM : Nat := FOFF_CRZSUM + 8
def FOFF_CRZVAR : Nat := FOFF_CRZNUM + 4
def FOFF_RESERVED : Nat := FOFF_CRZVAR + 8
def FOFF_HDRLEN : Nat := FOFF_RESERVED + 32
def FOFF_END : Nat := FOFF_HDRLEN + 4

def fsmHdrWrites (f : FsmHdr) : List (Nat × Bytes) :=
  [(FOFF_MAGIC, leEnc 4 Gen.IWFSM_MAGICK), (FOFF_BPOW, [f.bpow]), (FOFF_BMOFF, leEnc 8 f.bmoff),
   (FOFF_BMLEN, leEnc 8 f.bmlen), (FOFF_CRZSUM, leEnc 8 f.crzsum), (FOFF_CRZNUM, leEnc 4 f.crznum),
   (FOFF_CRZVAR, leEnc 8 f.crzvar), (FOFF_HDRLEN, leEnc 4 f.hdrlen)]

/-- the header is built in a zeroed local buffer and written whole -/
def encFsmHdr (f : FsmHdr) : Bytes := pokes (zeros Gen.IWFSM_CUSTOM_HDR_DATA_OFFSET) (fsmHdrWrites f)

def decFsmHdr (b : Bytes) : Option FsmHdr :=
  if b.length < Gen.IWFSM_CUSTOM_HDR_DATA_OFFSET then none
  else if leDec (peek b FOFF_MAGIC 4) ≠ Gen.IWFSM_MAGICK then none
  else some { bpow := byte b FOFF_BPOW, bmoff := leDec (peek b FOFF_BMOFF 8), bmlen := leDec (peek b FOFF_BMLEN 8),
              crzsum := leDec (peek b FOFF_CRZSUM 8), crznum := leDec (peek b FOFF_CRZNUM 4),
              crzvar := leDec (peek b FOFF_CRZVAR 8), hdrlen := leDec (peek b FOFF_HDRLEN 4) }

end IwModel.FormatEnc
