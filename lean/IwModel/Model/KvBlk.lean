import IwModel.Model.FormatEnc
/-! The WRITER of one data block (`struct kvblk`, src/kv/iwkv.c): the in-memory slot table and the
operations that change it, mirrored branch by branch.

C function → model function:
`_kvblk_create` → `create`, `_kvblk_sync_mm` → `sync`, `_kvblk_compacted_offset` → `compactedOffset`,
`_kvblk_compacted_dsize` → `compactedDsize`, `_kvblk_maxkvoff` → `maxOff`, `_kvblk_compact_mm` → `compact`,
`_kvblk_rmkv` → `rmkv`, `_kvblk_addkv` → `addkv`, `_kvblk_updatev` → `updatev`.

State: `szpow` (block is `2^szpow` bytes), `idxsz` (the *cached* index size `kb->idxsz`: refreshed by `sync` and
`compact` only, stale in between — the C code takes its space decisions with the stale value, so must the model),
`maxoff`, `zidx` (`none` = -1), and 32 slots `(off, len)` together with the record each used slot holds (stored key
= key bytes with the compound prefix if any, and value).  `off` counts from the block END: the record of slot `i`
occupies bytes `[2^szpow - off, 2^szpow - off + len)` of the block.

Abstracted: allocator effects (`allocate`/`reallocate`/`deallocate` in `addkv`/`rmkv`) are "the block is now
`2^szpow'` bytes"; records keep their offsets from the block end, which is what both `memcpy`/`memmove` calls do.
The record of a freed slot is reset to empty in the model (the file keeps stale bytes there; nothing reads them).
Sizes: `vn = IW_VNUMSIZE` (`Vnum.size`, regenerated thresholds); `IW_VNUMSIZE32` agrees with it below 2^28 and
record lengths never exceed `IWKV_MAX_KVSZ` < 2^28. `off_t` arithmetic is done in `Nat`: the two places where the C
code asserts non-negativity (`msz >= 0`, `freesz >= 0`) are consequences of the invariant proved in Props/C06. -/
namespace IwModel.KvBlk
open IwModel IwModel.FormatEnc

/-- one entry of `kb->pidx` plus the record it points to -/
structure Slot where
  off : Nat
  len : Nat
  key : Bytes
  val : Bytes
deriving Repr, DecidableEq

/-- an unused slot: `off = len = 0` -/
def Slot.free : Slot := ⟨0, 0, [], []⟩

structure KvBlk where
  szpow : Nat
  idxsz : Nat
  maxoff : Nat
  zidx : Option Nat
  slots : List Slot
deriving Repr, DecidableEq

/-- `IW_VNUMSIZE` -/
def vn (n : Nat) : Nat := Vnum.size n

/-- the (off, len) table as the file stores it -/
def pairs (b : KvBlk) : List (Nat × Nat) := b.slots.map fun s => (s.off, s.len)

/-- bytes the index of these slots occupies: `IW_VNUMSIZE(off) + IW_VNUMSIZE32(len)` per slot -/
def idxBytes : List Slot → Nat
  | [] => 0
  | s :: r => vn s.off + vn s.len + idxBytes r

/-- `_kvblk_create`: `idxsz = 2 * IW_VNUMSIZE(0) * KVBLK_IDXNUM`, everything else zero -/
def create (kvbpow : Nat) : KvBlk :=
  { szpow := kvbpow, idxsz := 2 * vn 0 * Gen.KVBLK_IDXNUM, maxoff := 0, zidx := some 0,
    slots := List.replicate Gen.KVBLK_IDXNUM Slot.free }

/-- `_kvblk_sync_mm`: writes header and index, `kb->idxsz` becomes the number of index bytes written -/
def sync (b : KvBlk) : KvBlk := { b with idxsz := idxBytes b.slots }

/-- `_kvblk_compacted_offset`: sum of all slot lengths -/
def sumLen : List Slot → Nat
  | [] => 0
  | s :: r => s.len + sumLen r

def compactedOffset (b : KvBlk) : Nat := sumLen b.slots

/-- `_kvblk_compacted_dsize`: header + per slot `len + IW_VNUMSIZE32(len) + IW_VNUMSIZE(off)` (with the CURRENT offsets) -/
def compactedDsize (b : KvBlk) : Nat := Gen.KVBLK_HDRSZ + sumLen b.slots + idxBytes b.slots

/-- `_kvblk_maxkvoff` / the loop of `_kvblk_at_mm`: largest offset -/
def maxOff : List Slot → Nat
  | [] => 0
  | s :: r => max s.off (maxOff r)

/-- first slot with `len = 0` (`zidx`), `none` = -1 -/
def firstFree (slots : List Slot) : Option Nat := slots.findIdx? (fun s => s.len = 0)

/-- slot numbers in use (`off ≠ 0`) sorted by offset: `ks_mergesort_kvblk` over a copy of `pidx` orders by
`off`, zero offsets last (as `-1UL`); the loops over the result stop at the first zero offset. The sort is stable. -/
def sortedUsed (slots : List Slot) : List Nat :=
  ((List.range slots.length).filter fun i => (slots.getD i Slot.free).off ≠ 0).mergeSort
    fun i j => (slots.getD i Slot.free).off ≤ (slots.getD j Slot.free).off

/-- the loop of `_kvblk_compact_mm` over the sorted slot numbers: `coff` = bytes placed so far, `isz` = index size -/
def compactGo (slots : List Slot) : List Nat → Nat → Nat → List Slot × Nat × Nat
  | [], coff, isz => (slots, coff, isz)
  | r :: rs, coff, isz =>
    let s := slots.getD r Slot.free
    let noff := coff + s.len
    let s' := if s.off > noff then { s with off := noff } else s     -- memmove(wp - noff, wp - off, len)
    compactGo (slots.set r s') rs (coff + s.len) (isz + vn s'.off + vn s.len)

/-- `_kvblk_compact_mm` -/
def compact (b : KvBlk) : KvBlk :=
  if compactedOffset b = b.maxoff then b else
  let order := sortedUsed b.slots
  let r := compactGo b.slots order 0 0
  { b with slots := r.1, maxoff := r.2.1, idxsz := r.2.2 + (Gen.KVBLK_IDXNUM - order.length) * 2,
           zidx := firstFree r.1 }

/-- `while (npow > KVBLK_INISZPOW && (1ULL << (npow - 1)) >= dsz) --npow;` -/
def shrinkPow : Nat → Nat → Nat
  | 0, _ => 0
  | n + 1, dsz => if n + 1 > Gen.KVBLK_INISZPOW ∧ 2 ^ n ≥ dsz then shrinkPow n dsz else n + 1

/-- `_kvblk_rmkv(kb, idx, opts)`; `noResize` = `RMKV_NO_RESIZE`. `RMKV_SYNC` is never passed in by a caller; it is set
when the block was shrunk. -/
def rmkv (b : KvBlk) (idx : Nat) (noResize : Bool) : KvBlk :=
  let so := b.slots.getD idx Slot.free
  let slots := b.slots.set idx Slot.free
  let maxoff := if so.off ≥ b.maxoff then maxOff slots else b.maxoff
  let zidx := match b.zidx with
    | none => some idx
    | some z => if idx < z then some idx else some z
  let b1 : KvBlk := { b with slots, maxoff, zidx }
  if !noResize ∧ b.szpow > Gen.KVBLK_INISZPOW then
    let dsz := compactedDsize b1
    if 2 ^ b.szpow ≥ 2 * dsz then
      let npow := shrinkPow (b.szpow - 1) dsz
      sync { compact b1 with szpow := npow }
    else b1
  else b1

/-- stored size of a record: `IW_VNUMSIZE(ksize) + ksize + vsize` -/
def recSize (key val : Bytes) : Nat := vn key.length + key.length + val.length

/-- `msz`: free bytes between index and data, computed with the cached `idxsz` -/
def msz (b : KvBlk) : Nat := 2 ^ b.szpow - (Gen.KVBLK_HDRSZ + b.idxsz + b.maxoff)

/-- `rsz = psz + IW_VNUMSIZE(noff) + IW_VNUMSIZE(psz)` -/
def rsz (b : KvBlk) (psz : Nat) : Nat := psz + vn (b.maxoff + psz) + vn psz

/-- `npow = szpow; while ((1ULL << ++npow) < nsz);` started at `p = szpow + 1` -/
def growPow : Nat → Nat → Nat → Nat
  | 0, p, _ => p
  | fuel + 1, p, nsz => if 2 ^ p < nsz then growPow fuel (p + 1) nsz else p

/-- the resize branch of `_kvblk_addkv`: a new block of the next sufficient power of two, data copied to its end -/
def grow (b : KvBlk) (psz : Nat) : KvBlk :=
  let nsz := rsz b psz - msz b + 2 ^ b.szpow
  { b with szpow := growPow nsz (b.szpow + 1) nsz }

/-- the tail of `_kvblk_addkv`: the record goes into slot `zidx` at offset `maxoff + psz` -/
def place (b : KvBlk) (z : Nat) (key val : Bytes) (psz : Nat) : KvBlk :=
  let noff := b.maxoff + psz
  let slots := b.slots.set z ⟨noff, psz, key, val⟩
  { b with slots, maxoff := noff, zidx := firstFree slots }   -- first i with `!len && i != zidx`: slot zidx has len = psz > 0

inductive AddRes
  | ok (b : KvBlk) (idx : Nat)
  | full                        -- _IWKV_RC_KVBLOCK_FULL
  | maxkvsz                     -- IWKV_ERROR_MAXKVSZ
deriving Repr, DecidableEq

/-- `_kvblk_addkv`; `key` is the stored key -/
def addkv (b : KvBlk) (key val : Bytes) : AddRes :=
  match b.zidx with
  | none => .full
  | some z =>
    let psz := recSize key val
    if psz > Gen.IWKV_MAX_KVSZ then .maxkvsz else
    let b1 :=
      if ¬ msz b < rsz b psz then b
      else if compactedOffset b ≠ b.maxoff then
        let c := compact b                       -- compacted = true; goto start
        if ¬ msz c < rsz c psz then c else grow c psz
      else grow b psz
    let z1 := b1.zidx.getD z
    .ok (place b1 z1 key val psz) z1

/-- `tidx[i - 1].off` for the first `i` with `tidx[i].off == koff` in the array sorted by offset: the largest
offset below `koff`, 0 if there is none -/
def prevOff : List Slot → Nat → Nat
  | [], _ => 0
  | s :: r, koff => if s.off < koff then max s.off (prevOff r koff) else prevOff r koff

inductive UpdRes
  | ok (b : KvBlk) (idx : Nat)
  | failed (b : KvBlk) (e : AddRes)    -- `_kvblk_addkv` failed after the old record was removed
deriving Repr, DecidableEq

/-- the block after the call, whatever the outcome -/
def UpdRes.blk : UpdRes → KvBlk
  | .ok b _ => b
  | .failed b _ => b

/-- the growing branches of `_kvblk_updatev` (`rsize > kvp->len`): into the gap below the record if it is large enough and the
longer length vnum still fits the index, otherwise remove + add -/
def updatevGrow (b : KvBlk) (idx : Nat) (val : Bytes) : UpdRes :=
  let kvp := b.slots.getD idx Slot.free
  let freesz := 2 ^ b.szpow - Gen.KVBLK_HDRSZ - b.idxsz - b.maxoff
  let rsize := recSize kvp.key val
  let koff := kvp.off
  if koff - prevOff b.slots koff ≥ rsize ∧ ¬ (freesz + vn kvp.len < vn rsize) then
    .ok { b with slots := b.slots.set idx { kvp with len := rsize, val := val } } idx
  else
    match addkv (rmkv b idx true) kvp.key val with
    | .ok b' i => .ok b' i
    | e => .failed (rmkv b idx true) e

/-- `_kvblk_updatev`: new value for the record of slot `idx` (the key is the one stored there). A record that would exceed
`IWKV_MAX_KVSZ` is refused before anything is changed (fix ade5254 of finding C06-MAXKV). -/
def updatev (b : KvBlk) (idx : Nat) (val : Bytes) : UpdRes :=
  let kvp := b.slots.getD idx Slot.free
  let rsize := recSize kvp.key val
  if rsize ≤ kvp.len then
    .ok { b with slots := b.slots.set idx { kvp with len := rsize, val := val } } idx
  else if rsize > Gen.IWKV_MAX_KVSZ then .failed b .maxkvsz
  else updatevGrow b idx val

/-- HISTORICAL: `_kvblk_updatev` as it was before fix ade5254 (no size test before the removal). Not used by the driver or by
`step`; kept only as the witness of finding C06-MAXKV (`updatev_old_loses_record`). -/
def updatevOld (b : KvBlk) (idx : Nat) (val : Bytes) : UpdRes :=
  let kvp := b.slots.getD idx Slot.free
  let rsize := recSize kvp.key val
  if rsize ≤ kvp.len then
    .ok { b with slots := b.slots.set idx { kvp with len := rsize, val := val } } idx
  else updatevGrow b idx val

/-! ### bytes -/

/-- stores that put a block state into its `2^szpow` bytes: header + index (`_kvblk_sync_mm`), one record per used slot -/
def blockWrites (b : KvBlk) : List (Nat × Bytes) :=
  (0, encKvIndex (KvIndex.ofSlots b.szpow (pairs b))) ::
    (b.slots.filter (·.len ≠ 0)).map fun s => (2 ^ b.szpow - s.off, encKv s.key s.val)

/-- the block as bytes (bytes no live structure covers are 0 here, stale in a real file) -/
def serialize (b : KvBlk) : Bytes := pokes (zeros (2 ^ b.szpow)) (blockWrites b)

/-- records in slot order -/
def recOf (s : Slot) : Option (Bytes × Bytes) := if s.len ≠ 0 then some (s.key, s.val) else none

def recs (b : KvBlk) : List (Bytes × Bytes) := b.slots.filterMap recOf

/-! ### histories: what the callers (`_sblk_addkv`, `_sblk_rmkv`, `_sblk_updatekv`) do to one block; every caller
syncs the block before the operation returns (`_sblk_sync_mm`) -/

inductive Op
  | add (key val : Bytes)
  | rm (idx : Nat)
  | upd (idx : Nat) (val : Bytes)
  | compact
deriving Repr

/-- slot numbers come from `sblk->pi[]`, which holds numbers below `KVBLK_IDXNUM` (asserted by `_sblk_rmkv` and
`_kvblk_updatev`); other numbers are not operations -/
def step (b : KvBlk) : Op → KvBlk
  | .add k v => match addkv b k v with
    | .ok b' _ => sync b'
    | _ => b
  | .rm i => if i < Gen.KVBLK_IDXNUM then sync (rmkv b i false) else b
  | .upd i v => if i < Gen.KVBLK_IDXNUM then sync (updatev b i v).blk else b
  | .compact => sync (compact b)

def run (b : KvBlk) (ops : List Op) : KvBlk := ops.foldl step b

end IwModel.KvBlk
