import IwModel.Model.Bytes
import IwModel.Gen.C18
/-!
Mechanism models of `src/utils/iwarr.c`:

* `UList` — `struct iwulist`: an allocation of `anum` cells, the live window `[start, start+num)`, growth by
  `anum + num + 1`, shrink to `max num 32` once `anum > 32 ∧ anum ≥ 2·num`, the gap that `unshift` opens.
* `PList` — `struct iwlist` (items are owned byte strings): same window, no shrink, compaction in `shift`.
* binary-search helpers `iwarr_sorted_insert / remove / find / find2`.

Memory is a `List α` of cells; `memmove`, `memcpy` of one cell and `realloc` are *bounds-instrumented*: an access
outside the allocation makes the step return `none` (that is what ASan reports on the implementation).
The models follow the code after the fixes of `iwulist_clone`, `iwlist_unshift`, `iwlist_clone`.
-/
namespace IwModel.Arr

variable {α : Type}

/-- `memmove(a + dst, a + src, n cells)`; `none` when either range leaves the allocation -/
def blit (a : List α) (dst src n : Nat) : Option (List α) :=
  if n = 0 then some a
  else if src + n ≤ a.length ∧ dst + n ≤ a.length then
    some (a.take dst ++ (a.drop src).take n ++ a.drop (dst + n))
  else none

/-- store into one cell -/
def poke (a : List α) (i : Nat) (x : α) : Option (List α) :=
  if i < a.length then some (a.set i x) else none

/-- `realloc` to `n` cells: the common prefix is kept, new cells hold `junk` -/
def realloc (junk : α) (a : List α) (n : Nat) : List α :=
  a.take n ++ List.replicate (n - a.length) junk

def ALLOC_UNIT : Nat := Gen.C18.ULIST_ALLOC_UNIT

structure UList (α : Type) where
  arr : List α
  start : Nat
  num : Nat
  deriving Repr

namespace UList

def anum (l : UList α) : Nat := l.arr.length

/-- the API-visible contents -/
def window (l : UList α) : List α := (l.arr.drop l.start).take l.num

/-- `iwulist_init` / `iwulist_create` -/
def create (junk : α) (initial : Nat) : UList α :=
  { arr := List.replicate (if initial = 0 then ALLOC_UNIT else initial) junk, start := 0, num := 0 }

/-- `iwulist_clear`: new allocation of `IWULIST_ALLOC_UNIT` cells -/
def clear (junk : α) (_l : UList α) : UList α := create junk ALLOC_UNIT

/-- `iwulist_reset` -/
def reset (l : UList α) : UList α := { l with start := 0, num := 0 }

/-- `iwulist_get/at/at2`: `none` = out of bounds error; inner `none` = wild read -/
def get (l : UList α) (i : Nat) : Option (Option α) :=
  if i ≥ l.num then none else some l.arr[l.start + i]?

/-- `iwulist_push` -/
def push (junk : α) (l : UList α) (x : α) : Option (UList α) :=
  let index := l.start + l.num
  let arr := if index ≥ l.anum then realloc junk l.arr (l.anum + l.num + 1) else l.arr
  (poke arr index x).map fun a => { l with arr := a, num := l.num + 1 }

/-- the shrink step shared by pop / shift / remove: `n` live cells starting at `start` -/
def shrink (junk : α) (arr : List α) (start n : Nat) : Option (List α × Nat) :=
  if arr.length > ALLOC_UNIT ∧ arr.length ≥ n * 2 then
    (if start ≠ 0 then blit arr 0 start n else some arr).map fun a =>
      (realloc junk a (if n > ALLOC_UNIT then n else ALLOC_UNIT), 0)
  else some (arr, start)

/-- `iwulist_pop`; outer `none` = memory fault, `(l, false)` = IW_ERROR_OUT_OF_BOUNDS -/
def pop (junk : α) (l : UList α) : Option (UList α × Bool) :=
  if l.num = 0 then some (l, false)
  else (shrink junk l.arr l.start (l.num - 1)).map fun (a, s) => ({ arr := a, start := s, num := l.num - 1 }, true)

/-- `iwulist_shift` -/
def shift (junk : α) (l : UList α) : Option (UList α × Bool) :=
  if l.num = 0 then some (l, false)
  else (shrink junk l.arr (l.start + 1) (l.num - 1)).map fun (a, s) => ({ arr := a, start := s, num := l.num - 1 }, true)

/-- `iwulist_insert` -/
def insert (junk : α) (l : UList α) (i : Nat) (x : α) : Option (UList α × Bool) :=
  if i > l.num then some (l, false)
  else
    let index := l.start + i
    let arr := if l.start + l.num ≥ l.anum then realloc junk l.arr (l.anum + l.num + 1) else l.arr
    (blit arr (index + 1) index (l.start + l.num - index)).bind fun a =>
      (poke a index x).map fun a' => ({ l with arr := a', num := l.num + 1 }, true)

/-- `iwulist_set` -/
def set (l : UList α) (i : Nat) (x : α) : Option (UList α × Bool) :=
  if i ≥ l.num then some (l, false)
  else (poke l.arr (l.start + i) x).map fun a => ({ l with arr := a }, true)

/-- `iwulist_remove` -/
def remove (junk : α) (l : UList α) (i : Nat) : Option (UList α × Bool) :=
  if i ≥ l.num then some (l, false)
  else
    let index := l.start + i
    let num := l.num - 1
    (blit l.arr index (index + 1) (l.start + num - index)).bind fun a =>
      (shrink junk a l.start num).map fun (a', s) => ({ arr := a', start := s, num := num }, true)

/-- `iwulist_unshift` -/
def unshift (junk : α) (l : UList α) (x : α) : Option (UList α) :=
  let r : Option (List α × Nat) :=
    if l.start = 0 then
      let arr := if l.num ≥ l.anum then realloc junk l.arr (l.anum + l.num + 1) else l.arr
      let start := arr.length - l.num
      (blit arr start 0 l.num).map fun a => (a, start)
    else some (l.arr, l.start)
  r.bind fun (a, start) =>
    if start = 0 then none      -- `(start - 1)` would wrap
    else (poke a (start - 1) x).map fun a' => { arr := a', start := start - 1, num := l.num + 1 }

/-- `iwulist_find_first` -/
def findFirst [DecidableEq α] (l : UList α) (x : α) : Option Nat :=
  let i := l.window.findIdx (· = x)
  if i < l.num then some i else none

/-- `iwulist_remove_first_by` -/
def removeFirstBy [DecidableEq α] (junk : α) (l : UList α) (x : α) : Option (UList α × Bool) :=
  match l.findFirst x with
  | none => some (l, false)
  | some i => l.remove junk i

/-- `iwulist_clone` (fixed offset) -/
def clone (junk : α) (l : UList α) : UList α :=
  if l.num = 0 then create junk l.anum
  else
    let an := if l.num > ALLOC_UNIT then l.num else ALLOC_UNIT
    { arr := l.window ++ List.replicate (an - l.num) junk, start := 0, num := l.num }

/-- `iwulist_copy` into a fresh list created with one cell -/
def copyInto (junk : α) (l : UList α) (tgt : UList α) : Option (UList α) :=
  l.window.foldl (fun acc x => acc.bind fun t => t.push junk x) (some tgt)

/-- the comparator the tie uses (`memcmp` of equal-sized units / `memcmp` then size for items): lexicographic
order of byte strings, a proper prefix first -/
def bytesLe : Bytes → Bytes → Bool
  | [], _ => true
  | _ :: _, [] => false
  | a :: as, b :: bs => if a < b then true else if a > b then false else bytesLe as bs

/-- insertion into a sorted list.  `sort_r` is libc's `qsort_r`; its code is not modelled.  For a total,
transitive, antisymmetric comparator the sorted permutation of a list is unique (`Arr.sorted_perm_unique`),
so insertion sort denotes the result of *any* correct sort. -/
def insSorted (le : α → α → Bool) (x : α) : List α → List α
  | [] => [x]
  | y :: ys => if le x y then x :: y :: ys else y :: insSorted le x ys

def sortList (le : α → α → Bool) (xs : List α) : List α := xs.foldr (insSorted le) []

/-- `iwulist_sort` -/
def sort (le : α → α → Bool) (l : UList α) : UList α :=
  { l with arr := l.arr.take l.start ++ sortList le l.window ++ l.arr.drop (l.start + l.num) }

end UList

/-! ### `IWLIST`: items are heap copies owned by the list; `pop/shift/remove` hand the item to the caller -/

structure PList (α : Type) where
  arr : List α
  start : Nat
  num : Nat
  deriving Repr

namespace PList

def anum (l : PList α) : Nat := l.arr.length
def window (l : PList α) : List α := (l.arr.drop l.start).take l.num

/-- `iwlist_create` -/
def create (junk : α) (anum : Nat) : PList α :=
  { arr := List.replicate (if anum = 0 then 32 else anum) junk, start := 0, num := 0 }

def get (l : PList α) (i : Nat) : Option (Option α) :=
  if i ≥ l.num then none else some l.arr[l.start + i]?

/-- `iwlist_push` -/
def push (junk : α) (l : PList α) (x : α) : Option (PList α) :=
  let index := l.start + l.num
  let arr := if index ≥ l.anum then realloc junk l.arr (l.anum + l.num + 1) else l.arr
  (poke arr index x).map fun a => { l with arr := a, num := l.num + 1 }

/-- `iwlist_pop`: the item goes to the caller -/
def pop (l : PList α) : PList α × Option (Option α) :=
  if l.num = 0 then (l, none) else ({ l with num := l.num - 1 }, some l.arr[l.start + l.num - 1]?)

/-- `iwlist_unshift` (fixed: `num` items are moved) -/
def unshift (junk : α) (l : PList α) (x : α) : Option (PList α) :=
  let r : Option (List α × Nat) :=
    if l.start = 0 then
      let arr := if l.num ≥ l.anum then realloc junk l.arr (l.anum + l.num + 1) else l.arr
      let start := arr.length - l.num
      (blit arr start 0 l.num).map fun a => (a, start)
    else some (l.arr, l.start)
  r.bind fun (a, start) =>
    if start = 0 then none
    else (poke a (start - 1) x).map fun a' => { arr := a', start := start - 1, num := l.num + 1 }

/-- `iwlist_shift`: compaction when the new start is a multiple of 256 and exceeds half the length -/
def shift (l : PList α) : Option (PList α × Option (Option α)) :=
  if l.num = 0 then some (l, none)
  else
    let item := l.arr[l.start]?
    let start := l.start + 1
    let num := l.num - 1
    if start % 256 = 0 ∧ start > num / 2 then
      (blit l.arr 0 start num).map fun a => ({ arr := a, start := 0, num := num }, some item)
    else some ({ l with start := start, num := num }, some item)

/-- `iwlist_insert` -/
def insert (junk : α) (l : PList α) (i : Nat) (x : α) : Option (PList α × Bool) :=
  if i > l.num then some (l, false)
  else
    let index := l.start + i
    let arr := if l.start + l.num ≥ l.anum then realloc junk l.arr (l.anum + l.num + 1) else l.arr
    (blit arr (index + 1) index (l.start + l.num - index)).bind fun a =>
      (poke a index x).map fun a' => ({ l with arr := a', num := l.num + 1 }, true)

/-- `iwlist_set` (the old buffer is reused or reallocated: contents replaced) -/
def set (l : PList α) (i : Nat) (x : α) : Option (PList α × Bool) :=
  if i ≥ l.num then some (l, false)
  else (poke l.arr (l.start + i) x).map fun a => ({ l with arr := a }, true)

/-- `iwlist_remove`: the item goes to the caller -/
def remove (l : PList α) (i : Nat) : Option (PList α × Option (Option α)) :=
  if i ≥ l.num then some (l, none)
  else
    let index := l.start + i
    let num := l.num - 1
    (blit l.arr index (index + 1) (l.start + num - index)).map fun a =>
      ({ l with arr := a, num := num }, some l.arr[index]?)

/-- `iwlist_clone` (fixed) -/
def clone (junk : α) (l : PList α) : PList α :=
  if l.num = 0 then create junk 0 else { arr := l.window, start := 0, num := l.num }

/-- `iwlist_sort` -/
def sort (le : α → α → Bool) (l : PList α) : PList α :=
  { l with arr := l.arr.take l.start ++ UList.sortList le l.window ++ l.arr.drop (l.start + l.num) }

end PList

/-! ### sorted array helpers (elements `Int`, comparator = numeric order) -/

/-- result of the common binary search: `inl idx` = equal element found at idx, `inr idx` = insertion point -/
def bsearch (a : List Int) (v : Int) : Nat → Int → Int → Sum Nat Nat
  | 0, lb, _ => .inr lb.toNat
  | fuel + 1, lb, ub =>
    let idx := (ub + lb) / 2
    let x := a.getD idx.toNat 0
    if x = v then .inl idx.toNat
    else if x < v then
      let lb' := idx + 1
      if lb' > ub then .inr lb'.toNat else bsearch a v fuel lb' ub
    else
      let ub' := idx - 1
      if lb > ub' then .inr idx.toNat else bsearch a v fuel lb ub'

def search (a : List Int) (v : Int) : Sum Nat Nat :=
  if a.isEmpty then .inr 0 else bsearch a v (a.length + 1) 0 (a.length - 1 : Nat)

/-- `iwarr_sorted_insert`: index or -1 (skipped) -/
def sortedInsert (a : List Int) (v : Int) (skipeq : Bool) : List Int × Int :=
  match search a v with
  | .inl i => if skipeq then (a, -1) else (a.take i ++ v :: a.drop i, i)
  | .inr i => (a.take i ++ v :: a.drop i, i)

/-- `iwarr_sorted_remove` -/
def sortedRemove (a : List Int) (v : Int) : List Int × Int :=
  match search a v with
  | .inl i => (a.eraseIdx i, i)
  | .inr _ => (a, -1)

/-- `iwarr_sorted_find` -/
def sortedFind (a : List Int) (v : Int) : Int :=
  match search a v with | .inl i => i | .inr _ => -1

/-- `iwarr_sorted_find2`: (index, found) -/
def sortedFind2 (a : List Int) (v : Int) : Nat × Bool :=
  match search a v with | .inl i => (i, true) | .inr i => (i, false)

end IwModel.Arr
