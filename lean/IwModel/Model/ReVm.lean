import IwModel.Model.Bytes
/-! Bounds-instrumented model of the regular-expression VM (src/re/vm.c: `vm_add_thread`,
`vm_run_with_threads`). A program is a list of instructions whose jump targets are indices (the C code
holds pointers into `program->instructions`). The two thread lists are arrays of `ninstructions`
entries each (`threads`, `threads + ninstructions`); entry `k` carries the `visited` stamp of
instruction `k` and, independently, the `k`-th queued thread. The model answers `.oob` when an index
`pc - program->instructions` or `list->nthreads` leaves `[0, ninstructions)`, and `.fuel` if the
recursion of `vm_add_thread` were deeper than the fuel it is given. -/
namespace IwModel.ReVm

inductive Instr where
  | mtch
  | chr (c : Nat)
  | any
  | cls (neg : Bool) (bits : List Nat)     -- 32 bytes of `cregex_char_class`
  | split (a b : Nat)
  | jump (t : Nat)
  | abegin
  | aend
  | save (k : Nat)
deriving Repr, DecidableEq, Inhabited

abbrev Prog := List Instr

/-- capture registers of a thread: `min nmatches REGEX_VM_MAX_MATCHES` entries, `none` = NULL -/
abbrev Caps := List (Option Nat)

structure TList where
  visited : List Nat               -- stamp per instruction (0 = never)
  threads : List (Nat × Caps)      -- queued threads in priority order (`nthreads = threads.length`)
deriving Repr

inductive R (α : Type) where
  | oob | fuel | ok (a : α)
deriving Repr

def maxMatches : Nat := 64

/-- `cregex_char_class_contains(klass, ch)` for `ch` already reduced to `unsigned char` -/
def classHas (bits : List Nat) (ch : Nat) : Bool := (bits.getD (ch / 8) 0 / 2 ^ (ch % 8)) % 2 = 1

/-- `vm_add_thread(list, program, pc, string, sp, matches, nmatches)`; `pos = sp - string`,
    `atEnd = some (!*sp)`, or `none` when `sp` is behind the terminator (reading `*sp` is out of range).
    The capture registers are restored by the C code after each nested call; here they are a value. -/
def addThread (prog : Prog) (pos : Nat) (atEnd : Option Bool) : Nat → TList → Nat → Caps → R TList
  | 0, _, _, _ => .fuel
  | fuel + 1, l, pc, caps =>
    match l.visited[pc]? with
    | none => .oob                                    -- list->threads[pc - program->instructions]
    | some v =>
      if v = pos + 1 then .ok l else
      let l : TList := { l with visited := l.visited.set pc (pos + 1) }
      match prog[pc]? with
      | none => .oob                                  -- pc->opcode
      | some ins =>
        match ins with
        | .mtch | .chr _ | .any | .cls _ _ =>
          -- list->threads[list->nthreads].pc = pc; memcpy(matches); ++nthreads
          if l.threads.length < l.visited.length then .ok { l with threads := l.threads ++ [(pc, caps)] } else .oob
        | .split a b =>
          match addThread prog pos atEnd fuel l a caps with
          | .ok l => addThread prog pos atEnd fuel l b caps
          | e => e
        | .jump t => addThread prog pos atEnd fuel l t caps
        | .abegin => if pos = 0 then addThread prog pos atEnd fuel l (pc + 1) caps else .ok l
        | .aend =>
          match atEnd with
          | none => .oob                               -- `!*sp` with sp behind the terminator
          | some true => addThread prog pos atEnd fuel l (pc + 1) caps
          | some false => .ok l
        | .save k =>
          if k < caps.length then addThread prog pos atEnd fuel l (pc + 1) (caps.set k (some pos))
          else addThread prog pos atEnd fuel l (pc + 1) caps

inductive Action where
  | abort | isMatch | skip | advance
deriving Repr, DecidableEq

/-- the `switch (thread->pc->opcode)` of the main loop for the text byte `c = *sp` (0 at the terminator) -/
def threadAction (ins : Instr) (c : Nat) : Action :=
  match ins with
  | .mtch => .isMatch
  | .chr ch => if c = ch then .advance else .skip
  | .any => if c ≠ 0 then .advance else .skip
  | .cls neg bits => if c ≠ 0 ∧ (classHas bits c != neg) then .advance else .skip
  | _ => .abort

structure StepOut where
  next : TList
  matched : Option Caps      -- `matched = 1; memcpy(matches, thread->matches)` happened in this step

/-- the inner `for (i = 0; i < current->nthreads; ++i)` over the queued threads, `c = *sp` (0 at the end) -/
def stepThreads (prog : Prog) (pos c : Nat) (nextEnd : Option Bool) : List (Nat × Caps) → TList → R StepOut
  | [], next => .ok ⟨next, none⟩
  | (pc, caps) :: rest, next =>
    match prog[pc]? with
    | none => .oob
    | some ins =>
      match threadAction ins c with
      | .abort => .oob                    -- abort(): a control-flow instruction was queued
      | .isMatch => .ok ⟨next, some caps⟩   -- current->nthreads = 0: the rest of the list is dropped
      | .skip => stepThreads prog pos c nextEnd rest next
      | .advance =>
        match addThread prog (pos + 1) nextEnd (prog.length + 1) next (pc + 1) caps with
        | .ok next => stepThreads prog pos c nextEnd rest next
        | .oob => .oob
        | .fuel => .fuel

/-- the outer `for (sp = string; ; ++sp)`; `text` = bytes from `sp` to the terminator (exclusive) -/
def runLoop (prog : Prog) : Bytes → Nat → TList → TList → Option Caps → R (Option Caps)
  | text, pos, cur, nxt, best =>
    let c := text.headD 0
    let nextEnd : Option Bool := match text with | [] => none | _ :: rest => some (decide (rest = []))   -- `!*(sp+1)`
    match stepThreads prog pos c nextEnd cur.threads { nxt with threads := [] } with
    | .oob => .oob
    | .fuel => .fuel
    | .ok out =>
      let best := match out.matched with | some m => some m | none => best
      match text with
      | [] => .ok best
      | _ :: rest =>
        if out.next.threads.isEmpty then .ok best
        else runLoop prog rest (pos + 1) out.next { cur with threads := [] } best
termination_by text => text.length

/-- `cregex_program_run(program, string, matches, nmatches)` with `matches` zeroed: `none` = no match -/
def run (prog : Prog) (text : Bytes) (nmatches : Nat) : R (Option Caps) :=
  let n := prog.length
  let caps : Caps := List.replicate (min nmatches maxMatches) none
  let empty : TList := ⟨List.replicate n 0, []⟩
  match addThread prog 0 (some (decide (text = []))) (n + 1) empty 0 caps with
  | .oob => .oob
  | .fuel => .fuel
  | .ok cur => runLoop prog text 0 cur empty none

end IwModel.ReVm
