import IwModel.Model.CStr
import IwModel.Gen.Ini
/-! Bounds-instrumented model of the ini parser (`src/utils/iwini.c`, property C17).

`iwini_parse_stream` keeps three fixed-size buffers on its stack: the line buffer (`IWINI_MAX_LINE` bytes), the
current section name and the previous key name (`MAX_SECTION`, `MAX_NAME` bytes).  The model keeps them as
`List Nat` of exactly these lengths, performs **every** read and write through `buf[i]?` / `wr` (which answer
`none` for an index outside the buffer) and mirrors the helpers `rstrip`, `lskip`, `find_chars_or_comment`,
`strncpy0`, `ini_reader_string` branch by branch.  "No access outside the buffers" is `result ≠ none`; the
strings handed to the handler are read with the same checked accessor (`getStr`), so a missing terminator
would also surface as `none`.  Sizes, switches, the comment prefixes and `iwchars_is_space` are generated from
the source (`Gen/Ini.lean`). -/
namespace IwModel.Ini
open IwModel.CStr

/-- what the translation unit was compiled with -/
structure Cfg where
  maxLine : Nat            -- sizeof(line)
  readerNum : Nat          -- `max_line` handed to the reader
  maxSection : Nat         -- sizeof(section)
  maxName : Nat            -- sizeof(prev_name)
  multiline : Bool         -- IWINI_ALLOW_MULTILINE
  bom : Bool               -- IWINI_ALLOW_BOM
  stopFirst : Bool         -- IWINI_STOP_ON_FIRST_ERROR
  startPrefixes : List Nat -- IWINI_START_COMMENT_PREFIXES
  inlinePrefixes : List Nat -- IWINI_INLINE_COMMENT_PREFIXES
  sp : Nat → Bool          -- iwchars_is_space

def genCfg : Cfg where
  maxLine := Gen.iniMaxLine
  readerNum := Gen.iniReaderNum
  maxSection := Gen.iniMaxSection
  maxName := Gen.iniMaxName
  multiline := Gen.iniMultiline
  bom := Gen.iniBom
  stopFirst := Gen.iniStopFirst
  startPrefixes := Gen.iniStartPrefixes
  inlinePrefixes := Gen.iniInlinePrefixes
  sp := fun c => Gen.iniIsSpace.getD c 0 == 1

/-- `while (p > s && iwchars_is_space(*--p)) *p = '\0';` -/
def rstripLoop (sp : Nat → Bool) (buf : Bytes) (s : Nat) : Nat → Option Bytes
  | 0 => some buf
  | p + 1 =>
    if s < p + 1 then
      match buf[p]? with
      | none => none
      | some c =>
        if sp c then
          match wr buf p 0 with
          | none => none
          | some b => rstripLoop sp b s p
        else some buf
    else some buf

/-- `rstrip(buf + s)` -/
def rstrip (sp : Nat → Bool) (buf : Bytes) (s : Nat) : Option Bytes :=
  match strEnd buf s with
  | none => none
  | some e => rstripLoop sp buf s e

/-- `lskip(buf + s)`: `while (*s && iwchars_is_space(*s)) s++;` -/
def lskip (sp : Nat → Bool) (buf : Bytes) (i : Nat) : Option Nat :=
  match h : buf[i]? with
  | none => none
  | some c => if c ≠ 0 ∧ sp c then lskip sp buf (i + 1) else some i
termination_by buf.length - i
decreasing_by
  have hi : i < buf.length := (List.getElem?_eq_some_iff.mp h).1
  omega

/-- `find_chars_or_comment(buf + s, chars)`; `chars = NULL` is the empty list.
    `while (*s && (!chars || !strchr(chars, *s)) && !(was_space && strchr(INLINE_PREFIXES, *s)))` -/
def findCC (sp : Nat → Bool) (inl : List Nat) (buf : Bytes) (chars : List Nat) (i : Nat) (ws : Bool) : Option Nat :=
  match h : buf[i]? with
  | none => none
  | some c =>
    if c ≠ 0 ∧ ¬ chars.contains c ∧ ¬ (ws ∧ inl.contains c) then findCC sp inl buf chars (i + 1) (sp c) else some i
termination_by buf.length - i
decreasing_by
  have hi : i < buf.length := (List.getElem?_eq_some_iff.mp h).1
  omega

/-- `strncpy0(dest, src + s, size)`: `for (i = 0; i < size - 1 && src[i]; i++) dest[i] = src[i]; dest[i] = '\0';` -/
def strncpy0 (dest src : Bytes) (s size i : Nat) : Option Bytes :=
  if i + 1 < size then
    match src[s + i]? with
    | none => none
    | some c =>
      if c = 0 then wr dest i 0 else
      match wr dest i c with
      | none => none
      | some d => strncpy0 d src s size (i + 1)
  else wr dest i 0
termination_by size - i

/-- one call of the handler -/
structure Ev where
  sec : Bytes
  name : Bytes
  val : Bytes
deriving Repr, DecidableEq

/-- the locals of `iwini_parse_stream` -/
structure St where
  line : Bytes
  sec : Bytes
  prev : Bytes
  lineno : Nat
  error : Nat
  events : List Ev
deriving Repr

abbrev Handler := Bytes → Bytes → Bytes → Bool

/-- `if (!HANDLER(user, section, name, value) && !error) error = lineno;` -/
def emit (h : Handler) (st : St) (name value : Bytes) : Option St :=
  match getStr st.sec 0 with
  | none => none
  | some s =>
    some { st with events := st.events ++ [⟨s, name, value⟩],
                   error := if !(h s name value) && st.error == 0 then st.lineno else st.error }

/-- the BOM test of the first line, C's `&&` left to right; answers the offset of `start` -/
def bomSkip (bom : Bool) (line : Bytes) (lineno : Nat) : Option Nat :=
  if bom ∧ lineno = 1 then
    match line[0]? with
    | none => none
    | some a =>
      if a ≠ 0xEF then some 0 else
      match line[1]? with
      | none => none
      | some b =>
        if b ≠ 0xBB then some 0 else
        match line[2]? with
        | none => none
        | some c => if c = 0xBF then some 3 else some 0
  else some 0

/-- the `[section]` branch; `start` is the index of `[` -/
def sectionLine (cfg : Cfg) (st : St) (start : Nat) : Option St :=
  match findCC cfg.sp cfg.inlinePrefixes st.line [93] (start + 1) false with
  | none => none
  | some e =>
    match st.line[e]? with
    | none => none
    | some ce =>
      if ce = 93 then
        match wr st.line e 0 with
        | none => none
        | some l1 =>
          match strncpy0 st.sec l1 (start + 1) cfg.maxSection 0 with
          | none => none
          | some sec' =>
            match wr st.prev 0 0 with
            | none => none
            | some prev' => some { st with line := l1, sec := sec', prev := prev' }
      else some { st with error := if st.error == 0 then st.lineno else st.error }

/-- second half of the `name[=:]value` branch: `l3` is the line after the separator and an inline comment were
    cut off, `value` the index behind the separator -/
def pairTail (cfg : Cfg) (h : Handler) (st : St) (start value : Nat) (l3 : Bytes) : Option St :=
  match lskip cfg.sp l3 value with                               -- value = lskip(value)
  | none => none
  | some v =>
    match rstrip cfg.sp l3 v with                                -- rstrip(value)
    | none => none
    | some l4 =>
      match strncpy0 st.prev l4 start cfg.maxName 0 with         -- strncpy0(prev_name, name, sizeof(prev_name))
      | none => none
      | some prev' =>
        match getStr l4 start, getStr l4 v with
        | some name, some value => emit h { st with line := l4, prev := prev' } name value
        | _, _ => none

/-- the `name[=:]value` branch; `start` is the index of the first byte of the name -/
def pairLine (cfg : Cfg) (h : Handler) (st : St) (start : Nat) : Option St :=
  match findCC cfg.sp cfg.inlinePrefixes st.line [61, 58] start false with
  | none => none
  | some e =>
    match st.line[e]? with
    | none => none
    | some ce =>
      if ce = 61 ∨ ce = 58 then
        match wr st.line e 0 with                                -- *end = '\0'
        | none => none
        | some l1 =>
          match rstrip cfg.sp l1 start with                      -- name = rstrip(start)
          | none => none
          | some l2 =>
            match findCC cfg.sp cfg.inlinePrefixes l2 [] (e + 1) false with   -- end = find_chars_or_comment(value, NULL)
            | none => none
            | some e2 =>
              match l2[e2]? with
              | none => none
              | some c2 =>
                if c2 ≠ 0 then                                   -- if (*end) *end = '\0'
                  match wr l2 e2 0 with
                  | none => none
                  | some l3 => pairTail cfg h st start (e + 1) l3
                else pairTail cfg h st start (e + 1) l2
      else some { st with error := if st.error == 0 then st.lineno else st.error }

/-- body of the `while (reader(...))` loop for a line buffer the reader has just filled -/
def processLine (cfg : Cfg) (h : Handler) (st0 : St) : Option St :=
  let st := { st0 with lineno := st0.lineno + 1 }
  match bomSkip cfg.bom st.line st.lineno with
  | none => none
  | some off =>
    match rstrip cfg.sp st.line off with
    | none => none
    | some l1 =>
      match lskip cfg.sp l1 off with
      | none => none
      | some start =>
        let st := { st with line := l1 }
        match l1[start]? with
        | none => none
        | some c =>
          if c = 0 ∨ cfg.startPrefixes.contains c then some st     -- strchr(PREFIXES, *start) also finds the terminator
          else
            match st.prev[0]? with
            | none => none
            | some pn =>
              if cfg.multiline ∧ pn ≠ 0 ∧ 0 < start then
                match getStr st.prev 0, getStr l1 start with
                | some name, some value => emit h st name value
                | _, _ => none
              else if c = 91 then sectionLine cfg st start
              else pairLine cfg h st start

/-- a reader that honours its contract stores `f` (fewer than `num` bytes, any content) and a terminator -/
def wrAll (buf : Bytes) (i : Nat) : Bytes → Option Bytes
  | [] => some buf
  | x :: xs =>
    match wr buf i x with
    | none => none
    | some b => wrAll b (i + 1) xs

def fill (line f : Bytes) : Option Bytes :=
  match wrAll line 0 f with
  | none => none
  | some b => wr b f.length 0

/-- `iwini_parse_stream` over the sequence of strings the reader delivers -/
def parseStream (cfg : Cfg) (h : Handler) (st : St) : List Bytes → Option St
  | [] => some st
  | f :: fs =>
    match fill st.line f with
    | none => none
    | some l =>
      match processLine cfg h { st with line := l } with
      | none => none
      | some st' => if cfg.stopFirst ∧ st'.error ≠ 0 then some st' else parseStream cfg h st' fs

/-- the copy loop of `ini_reader_string`: `while (num > 1 && ctx_num_left != 0)`; `k` = `strp - str`.
    Answers (line, ctx_ptr, ctx_num_left, k). -/
def readLoop (text line : Bytes) (pos numLeft num k : Nat) : Option (Bytes × Nat × Nat × Nat) :=
  match numLeft with
  | 0 => some (line, pos, 0, k)
  | left + 1 =>
    if 1 < num then
      match text[pos]? with
      | none => none
      | some c =>
        match wr line k c with
        | none => none
        | some l =>
          if c = 10 then some (l, pos + 1, left, k + 1)
          else readLoop text l (pos + 1) left (num - 1) (k + 1)
    else some (line, pos, left + 1, k)

/-- `ini_reader_string(line, num, ctx)`; `none` inside = NULL (end of input) -/
def readerString (text line : Bytes) (pos numLeft num : Nat) : Option (Option (Bytes × Nat × Nat)) :=
  if numLeft = 0 ∨ num < 2 then some none
  else
    match readLoop text line pos numLeft num 0 with
    | none => none
    | some (l, pos', left', k) =>
      match wr l k 0 with
      | none => none
      | some l' => some (some (l', pos', left'))

/-- the parse loop driven by `ini_reader_string`; fuel = `num_left + 1` calls (each call that does not
    end the input consumes at least one byte, see `Lemmas/Ini.lean`) -/
def parseStringLoop (cfg : Cfg) (h : Handler) (text : Bytes) : Nat → St → Nat → Nat → Option (Option St)
  | 0, _, _, _ => some none      -- out of fuel (unreachable)
  | fuel + 1, st, pos, numLeft =>
    match readerString text st.line pos numLeft cfg.readerNum with
    | none => none
    | some none => some (some st)
    | some (some (l, pos', left')) =>
      match processLine cfg h { st with line := l } with
      | none => none
      | some st' =>
        if cfg.stopFirst ∧ st'.error ≠ 0 then some (some st')
        else parseStringLoop cfg h text fuel st' pos' left'

/-- initial locals: `char section[MAX_SECTION] = ""`, `char prev_name[MAX_NAME] = ""`, the line buffer is
    whatever the stack holds (`junk`, `maxLine` bytes) -/
def initSt (cfg : Cfg) (junk : Bytes) : St :=
  { line := junk, sec := List.replicate cfg.maxSection 0, prev := List.replicate cfg.maxName 0,
    lineno := 0, error := 0, events := [] }

inductive PR where
  | oob                      -- an access outside a buffer
  | fuel                     -- the loop did not end within `strlen + 1` reader calls
  | ok (error : Nat) (events : List Ev)
deriving Repr, DecidableEq

/-- `iwini_parse_string(text, handler, user)`; `text` is the memory the caller owns -/
def parseString (cfg : Cfg) (h : Handler) (junk text : Bytes) : PR :=
  match strEnd text 0 with
  | none => .oob
  | some n =>
    match parseStringLoop cfg h text (n + 1) (initSt cfg junk) 0 n with
    | none => .oob
    | some none => .fuel
    | some (some st) => .ok st.error st.events

/-- `iwini_parse_stream` with a reader that delivers `fills` -/
def parseFills (cfg : Cfg) (h : Handler) (junk : Bytes) (fills : List Bytes) : PR :=
  match parseStream cfg h (initSt cfg junk) fills with
  | none => .oob
  | some st => .ok st.error st.events

/-! ### reference splitter (no buffers, no indices, no in-place edits) -/

def rtrim (sp : Nat → Bool) (l : Bytes) : Bytes := (l.reverse.dropWhile sp).reverse
def ltrim (sp : Nat → Bool) (l : Bytes) : Bytes := l.dropWhile sp

/-- number of bytes in front of the first byte of `chars`, or of an inline comment prefix that follows a blank -/
def scanCC (sp : Nat → Bool) (inl chars : List Nat) : Bool → Bytes → Nat
  | _, [] => 0
  | ws, c :: t => if chars.contains c ∨ (ws ∧ inl.contains c) then 0 else 1 + scanCC sp inl chars (sp c) t

/-- what the parser remembers between lines, as strings -/
structure Abs where
  sec : Bytes
  prev : Bytes
  lineno : Nat
  error : Nat
  events : List Ev
deriving Repr, DecidableEq

def Abs.emit (h : Handler) (a : Abs) (name value : Bytes) : Abs :=
  { a with events := a.events ++ [⟨a.sec, name, value⟩],
           error := if !(h a.sec name value) && a.error == 0 then a.lineno else a.error }

def Abs.fail (a : Abs) : Abs := { a with error := if a.error == 0 then a.lineno else a.error }

/-- a line that starts with `[`; `rest` is what follows the bracket -/
def refSection (cfg : Cfg) (a : Abs) (rest : Bytes) : Abs :=
  let k := scanCC cfg.sp cfg.inlinePrefixes [93] false rest
  if rest[k]? = some 93 then { a with sec := (rest.take k).take (cfg.maxSection - 1), prev := [] }
  else a.fail

/-- a `name[=:]value` line `t` (trimmed, not empty) -/
def refPair (cfg : Cfg) (h : Handler) (a : Abs) (t : Bytes) : Abs :=
  let k := scanCC cfg.sp cfg.inlinePrefixes [61, 58] false t
  if t[k]? = some 61 ∨ t[k]? = some 58 then
    let name := rtrim cfg.sp (t.take k)
    let rest := t.drop (k + 1)
    let value := rtrim cfg.sp (ltrim cfg.sp (rest.take (scanCC cfg.sp cfg.inlinePrefixes [] false rest)))
    ({ a with prev := name.take (cfg.maxName - 1) } : Abs).emit h name value
  else a.fail

/-- one line of text `l` (the bytes in front of the terminator) -/
def refLine (cfg : Cfg) (h : Handler) (a0 : Abs) (l : Bytes) : Abs :=
  let a := { a0 with lineno := a0.lineno + 1 }
  let off := if cfg.bom ∧ a.lineno = 1 ∧ [0xEF, 0xBB, 0xBF].isPrefixOf l then 3 else 0
  let r := rtrim cfg.sp (l.drop off)
  let t := ltrim cfg.sp r
  let indented := 0 < off + (r.length - t.length)
  match t with
  | [] => a
  | c :: rest =>
    if cfg.startPrefixes.contains c then a
    else if cfg.multiline ∧ a.prev ≠ [] ∧ indented then a.emit h a.prev t
    else if c = 91 then refSection cfg a rest
    else refPair cfg h a t

def refLines (cfg : Cfg) (h : Handler) : Abs → List Bytes → Abs
  | a, [] => a
  | a, l :: ls =>
    let a' := refLine cfg h a l
    if cfg.stopFirst ∧ a'.error ≠ 0 then a' else refLines cfg h a' ls

def Abs.init : Abs := { sec := [], prev := [], lineno := 0, error := 0, events := [] }

/-- how `ini_reader_string` cuts a text into lines: up to and including the next `\n`, at most `num - 1` bytes -/
def takeLine (n : Nat) : Bytes → Bytes
  | [] => []
  | c :: t => match n with
    | 0 => []
    | n + 1 => if c = 10 then [c] else c :: takeLine n t

def chunks (num : Nat) (s : Bytes) : List Bytes :=
  if h : s = [] ∨ num < 2 then [] else
    let l := takeLine (num - 1) s
    l :: chunks num (s.drop l.length)
termination_by s.length
decreasing_by
  have : s ≠ [] := fun e => h (Or.inl e)
  have : 2 ≤ num := by omega
  cases s with
  | nil => contradiction
  | cons c t =>
    have : (takeLine (num - 1) (c :: t)).length ≥ 1 := by
      obtain ⟨m, hm⟩ : ∃ m, num - 1 = m + 1 := ⟨num - 2, by omega⟩
      rw [hm]; simp only [takeLine]; split <;> simp
    simp only [List.length_drop, List.length_cons] at *
    omega

/-- `iwini_parse_file(file, handler, user)` for a file holding `content` (any bytes, NULs included): the reader is
    `fgets`, trusted to do what C11 7.21.7.2 says — store at most `num - 1` bytes, stop behind a newline, terminate —
    which is the cutting rule `chunks`. -/
def parseFile (cfg : Cfg) (h : Handler) (junk content : Bytes) : PR :=
  parseFills cfg h junk (chunks cfg.readerNum content)

end IwModel.Ini
