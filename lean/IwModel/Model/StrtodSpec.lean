import IwModel.Model.Strtod
import IwModel.Model.JsonSpec
/-! Specification side for `iwstrtod` on JSON number tokens: what the model computes for a token, written from the
token's parts (no scanning), and the range condition under which it reports no range error. -/
namespace IwModel.Json
open IwModel.SoftF64

/-- the value before the exponent is applied: integer digits, times sign, plus fraction times sign -/
def NumTok.mant (t : NumTok) : Nat :=
  let d1 := mul (intLoop (Conv.digits t.ip)) (signF t.neg)
  match t.frac with
  | some fs => add d1 (mul (fracLoop fs) (signF t.neg))
  | none => d1

/-- the decimal exponent as `iwstrtod` reads it -/
def NumTok.expInt (t : NumTok) : Option Int :=
  match t.exp with
  | some (_, s, ds) => some (if s = [45] then -(expVal ds : Int) else (expVal ds : Int))
  | none => none

/-- bit pattern and range-error flag for the token -/
def NumTok.sdRes (t : NumTok) : Nat × Bool :=
  match t.expInt with
  | none => (t.mant, false)
  | some e => ((scaleExp t.mant e 0).1, (scaleExp t.mant e 0).2.2)

/-- the exponent is one for which `pow(10, e)` is a normal double and the `e == -308` special case is out of reach:
    `-307 ≤ e ≤ 308` (or no exponent) -/
def NumTok.expInRange (t : NumTok) : Bool :=
  match t.exp with
  | some (_, s, ds) => if s = [45] then expVal ds ≤ 307 else expVal ds ≤ 308
  | none => true

/-- the double `iwstrtodModel` reads from a text -/
def strtodD (txt : Bytes) : Nat := (iwstrtodModel txt).1

/-- the double nearest to the rational `num / den` (ties to even), by exact integer arithmetic; that `roundMag` is the
    correct rounding is `IwModel.C13.softf64_rounding` -/
def nearestDouble (num den : Nat) : Nat := roundMag (num * unit) den

/-- `num / den` lies strictly between the adjacent finite doubles `lo` and `lo + 1` and is closer to `lo`, or exactly
    half way with `lo` the even one: IEEE round-to-nearest-even gives `lo` -/
def RoundsToLower (lo num den : Nat) : Prop :=
  mag lo * den < num * unit ∧ num * unit < mag (lo + 1) * den ∧
  (2 * (num * unit) < (mag lo + mag (lo + 1)) * den ∨ (2 * (num * unit) = (mag lo + mag (lo + 1)) * den ∧ lo % 2 = 0))

instance (lo num den : Nat) : Decidable (RoundsToLower lo num den) := by unfold RoundsToLower; infer_instance

/-- the same double with the sign bit set (`inf * 0` is the default NaN whatever the signs) -/
def flipBits (b : Nat) : Nat := if b = nanBits then nanBits else 2 ^ 63 + b

/-- what `iwstrtod` returns for `-text` when it returns `r` for `text`: sign flipped, one more byte consumed
    (none if none was), same range flag -/
def flipRes (r : Nat × Nat × Bool) : Nat × Nat × Bool := (flipBits r.1, if r.2.1 = 0 then 0 else r.2.1 + 1, r.2.2)

/-- results of the two special cases of `iwstrtod` near `DBL_MIN` (only unsigned texts take them):
    `0.0` with a range error, resp. `DBL_MIN` -/
def SpecialRes (r : Nat × Nat × Bool) : Prop := (r.1 = 0 ∧ r.2.2 = true) ∨ r.1 = 0x0010000000000000

end IwModel.Json
