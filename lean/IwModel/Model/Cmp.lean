import IwModel.Model.Vnum
/-! Key comparators of src/kv/iwkv.c (`_cmp_keys_prefix`, `_cmp_keys`, `_lx_sblk_cmp_key`) and
`iwafcmp` of src/utils/iwconv.c.

A *stored* key is the byte string kept in a node (`v1`): in compound mode it is
`Vnum.enc compound ++ body`. A *lookup* key is `(data, compound)`. All comparators return
`> 0` when the lookup key is greater than the stored key. -/
namespace IwModel.Cmp

inductive Mode | plain | vnum | real
deriving DecidableEq, Repr

/-- `IW_CMP2`: difference of the first differing byte within the common prefix, else 0. -/
def cmp2 : Bytes → Bytes → Int
  | a :: as, b :: bs => if a = b then cmp2 as bs else (a : Int) - (b : Int)
  | _, _ => 0

/-- value decoded by `IW_READVNUMBUF64_2` from a key body of at most 10 bytes copied into a
    10-byte buffer; a body without terminating byte reads stale buffer bytes in C, the model yields 0. -/
def decBody (bs : Bytes) : Nat := match Vnum.dec bs with | some (n, _) => n | none => 0

def cmp3 (a b : Int) : Int := if a > b then -1 else if a < b then 1 else 0

/-! ### iwafcmp -/

def isWs (c : Nat) : Bool := c ≤ 32 || c = 127
def isDigit (c : Nat) : Bool := 48 ≤ c && c ≤ 57

def readDigits : Bytes → Nat → Nat × Bytes
  | c :: cs, acc => if isDigit c then readDigits cs (acc * 10 + (c - 48)) else (acc, c :: cs)
  | [], acc => (acc, [])

/-- leading part of `iwafcmp`: skip blanks, optional '-', digits. Returns (sign, |integer|, rest). -/
def intPart (s : Bytes) : Int × Nat × Bytes :=
  let s := s.dropWhile isWs
  let (sign, s) := match s with | 45 :: r => ((-1 : Int), r) | r => ((1 : Int), r)
  let (n, r) := readDigits s 0
  (sign, n, r)

/-- the fraction is looked at only if at least two bytes remain and the first is '.' -/
def hasFrac (rest : Bytes) : Bool := match rest with | 46 :: _ :: _ => true | _ => false

/-- fraction digits used by the code: at most `IWNUMBUF_SIZE` bytes after the '.' are examined -/
def fracDigits (rest : Bytes) : List Nat :=
  ((rest.drop 1).take Gen.IWNUMBUF_SIZE).takeWhile isDigit |>.map (· - 48)

/-- `memcmp` over the common prefix, then the length difference -/
def tieBreak (a b : Bytes) : Int :=
  let r := cmp2 a b
  if r = 0 then (a.length : Int) - (b.length : Int) else r

/-- `iwafcmp(a, b)` with the fraction value abstracted: `frac sign digits` is the long-double
    accumulation `±Σ dᵢ/10^(i+1)`; the executable instance uses exact rationals scaled to 10^32. -/
def afcmpWith {α : Type} (lt : α → α → Bool) (zero : α) (frac : Int → List Nat → α) (a b : Bytes) : Int :=
  let (sa, na, ra) := intPart a
  let (sb, nb, rb) := intPart b
  let ia : Int := sa * na
  let ib : Int := sb * nb
  if ia < ib then -1 else if ia > ib then 1 else
  let fa := if hasFrac ra then frac sa (fracDigits ra) else zero
  let fb := if hasFrac rb then frac sb (fracDigits rb) else zero
  if (hasFrac ra || hasFrac rb) && lt fa fb then -1
  else if (hasFrac ra || hasFrac rb) && lt fb fa then 1
  else tieBreak a b

/-- exact fraction scaled by 10^IWNUMBUF_SIZE -/
def fracExact (sign : Int) (ds : List Nat) : Int :=
  sign * ((ds.zipIdx.foldl (fun acc (d, i) => acc + d * 10 ^ (Gen.IWNUMBUF_SIZE - 1 - i)) 0 : Nat) : Int)

def afcmp (a b : Bytes) : Int := afcmpWith (fun (x y : Int) => decide (x < y)) 0 fracExact a b

/-! ### _cmp_keys_prefix / _cmp_keys -/

/-- numeric-key branch shared by compound and plain layout -/
def cmpVnumBody (u1 u2 : Bytes) : Option Int :=
  if u2.length ≠ u1.length ∨ u2.length > Gen.IW_VNUMBUFSZ ∨ u1.length > Gen.IW_VNUMBUFSZ then none
  else some (cmp3 (decBody u1) (decBody u2))

/-- `_cmp_keys_prefix(dbflg, v1, v1len, key)`; `v1` stored bytes, `(k, c2)` the lookup key. -/
def cmpPrefix (mode : Mode) (compound : Bool) (v1 : Bytes) (k : Bytes) (c2 : Nat) : Int :=
  if compound then
    match Vnum.dec v1 with
    | none => 0   -- unreachable for well-formed stored keys (a vnum always terminates)
    | some (c1, step) =>
      let u1 := v1.drop step
      let v1len : Int := (v1.length : Int) - step
      if v1len < 1 then (k.length : Int) - v1len else
      match mode with
      | .vnum =>
        (match cmpVnumBody u1 k with
         | none => (k.length : Int) - v1len
         | some r => if r = 0 then cmp3 c1 c2 else r)
      | .real =>
        let r := afcmp k u1
        if r = 0 then cmp3 c1 c2 else r
      | .plain => cmp2 k u1
  else
    match mode with
    | .vnum =>
      (match cmpVnumBody v1 k with
       | none => (k.length : Int) - (v1.length : Int)
       | some r => r)
    | .real => afcmp k v1
    | .plain => cmp2 k v1

/-- `_cmp_keys` -/
def cmpKeys (mode : Mode) (compound : Bool) (v1 : Bytes) (k : Bytes) (c2 : Nat) : Int :=
  let rv := cmpPrefix mode compound v1 k c2
  if rv = 0 ∧ mode = .plain then
    if compound then
      match Vnum.dec v1 with
      | none => (k.length : Int) - (v1.length : Int)
      | some (c1, step) =>
        let v1len : Int := (v1.length : Int) - step
        if (k.length : Int) = v1len then cmp3 c1 c2 else (k.length : Int) - v1len
    else (k.length : Int) - (v1.length : Int)
  else rv

/-- effective stored form of a key -/
def stored (compound : Bool) (k : Bytes) (c : Nat) : Bytes :=
  if compound then Vnum.enc c ++ k else k

/-- `step` of `IW_READVNUMBUF64(sblk->lk, c, step)`: the bytes the stored compound part occupies in the
    cached prefix (0 = unreachable for well-formed stored keys, a vnum always terminates) -/
def lkStep (lk : Bytes) : Nat := match Vnum.dec lk with | some (_, step) => step | none => 0

/-- `_lx_sblk_cmp_key`: compare the lookup key with a node whose lowest key is `full`
    (stored form), through the cached prefix `lk = full.take PREFIX_KEY_LEN_V2`.
    `ksize` counts the compound prefix as it is stored in the cached key (fix 1a3b861; before, the
    size of the LOOKUP key's compound part was added: `lxCmpOld`). -/
def lxCmp (mode : Mode) (compound : Bool) (full : Bytes) (k : Bytes) (c2 : Nat) : Int :=
  let lk := full.take Gen.PREFIX_KEY_LEN_V2
  let fullLkey := decide (full.length ≤ Gen.PREFIX_KEY_LEN_V2)
  let ksize := k.length + (if compound then lkStep lk else 0)
  if fullLkey ∨ ksize < lk.length ∨ mode ≠ .plain then cmpKeys mode compound lk k c2
  else
    let r := cmpPrefix mode compound lk k c2
    if r = 0 then cmpKeys mode compound full k c2 else r

/-- `_lx_sblk_cmp_key` BEFORE fix 1a3b861 (`ksize += IW_VNUMSIZE(key->compound)`); kept to state the
    defect as a theorem, not used by the driver. -/
def lxCmpOld (mode : Mode) (compound : Bool) (full : Bytes) (k : Bytes) (c2 : Nat) : Int :=
  let lk := full.take Gen.PREFIX_KEY_LEN_V2
  let fullLkey := decide (full.length ≤ Gen.PREFIX_KEY_LEN_V2)
  let ksize := k.length + (if compound then Vnum.size c2 else 0)
  if fullLkey ∨ ksize < lk.length ∨ mode ≠ .plain then cmpKeys mode compound lk k c2
  else
    let r := cmpPrefix mode compound lk k c2
    if r = 0 then cmpKeys mode compound full k c2 else r

end IwModel.Cmp
