import IwModel.Model.Bytes
/-! Shared JSON value type of the JSON models (C13–C17) and its one-line *wire* form, used by the
harnesses and the driver to exchange documents without going through the JSON text parser.

Wire tokens, space separated, prefix order:
`n` null · `t`/`f` bool · `i<decimal>` integer · `d<16 hex digits>` IEEE-754 bits of a double ·
`s<hex>` string (`s-` empty) · `a<count>` array followed by its elements ·
`o<count>` object followed by `k<hex>` key token and value, per member (insertion order). -/
namespace IwModel

inductive JVal where
  | null
  | bool (b : Bool)
  | int (i : Int)
  | f64 (bits : Nat)
  | str (s : Bytes)
  | arr (xs : List JVal)
  | obj (ms : List (Bytes × JVal))
deriving Repr, Inhabited, BEq

namespace JVal

def hex16 (n : Nat) : String :=
  String.ofList ((List.range 16).map fun i => hexDigit (n / 16 ^ (15 - i) % 16))

mutual
  partial def toWireL : JVal → List String
    | .null => ["n"]
    | .bool true => ["t"]
    | .bool false => ["f"]
    | .int i => [s!"i{i}"]
    | .f64 b => ["d" ++ hex16 b]
    | .str s => ["s" ++ hexOut s]
    | .arr xs => s!"a{xs.length}" :: xs.flatMap toWireL
    | .obj ms => s!"o{ms.length}" :: ms.flatMap fun (k, v) => ("k" ++ hexOut k) :: toWireL v
end

def toWire (v : JVal) : String := " ".intercalate (toWireL v)

def hexNat (s : String) : Nat :=
  s.toList.foldl (fun acc c => acc * 16 + ((hexVal c).getD 0)) 0

/-- parser of the wire form; returns the value and the remaining tokens -/
partial def ofWireL : List String → Option (JVal × List String)
  | [] => none
  | tok :: rest =>
    let c := tok.front
    let body := (tok.drop 1).toString
    if c == 'n' then some (.null, rest)
    else if c == 't' then some (.bool true, rest)
    else if c == 'f' then some (.bool false, rest)
    else if c == 'i' then (body.toInt?).map fun i => (.int i, rest)
    else if c == 'd' then some (.f64 (hexNat body), rest)
    else if c == 's' then (ofHex body).map fun b => (.str b, rest)
    else if c == 'a' then
      let rec elems (n : Nat) (acc : List JVal) (ts : List String) : Option (List JVal × List String) :=
        match n with
        | 0 => some (acc.reverse, ts)
        | n + 1 => match ofWireL ts with
          | some (v, ts') => elems n (v :: acc) ts'
          | none => none
      (body.toNat?).bind fun n => (elems n [] rest).map fun (xs, ts) => (.arr xs, ts)
    else if c == 'o' then
      let rec members (n : Nat) (acc : List (Bytes × JVal)) (ts : List String) : Option (List (Bytes × JVal) × List String) :=
        match n with
        | 0 => some (acc.reverse, ts)
        | n + 1 => match ts with
          | k :: ts1 =>
            if k.front == 'k' then
              match ofHex (k.drop 1).toString, ofWireL ts1 with
              | some kb, some (v, ts2) => members n ((kb, v) :: acc) ts2
              | _, _ => none
            else none
          | [] => none
      (body.toNat?).bind fun n => (members n [] rest).map fun (ms, ts) => (.obj ms, ts)
    else none

def ofWire (ts : List String) : Option JVal :=
  match ofWireL ts with
  | some (v, []) => some v
  | _ => none

end JVal
end IwModel
