import IwModel.Model.Bytes
/-! # Executable model of the extensible file `IWFS_EXT` (src/fs/iwexfile.c over iwfile.c / unix.c)

State: the physical file as a byte list (its length is the physical size `stat` reports), the logical
size `fsize`, the configured `maxoff`, the resize policy with the Fibonacci context, and the list of
memory-mapped windows ("slots") sorted by offset.  A shared window is coherent with the file (Linux
page cache), so it needs no storage of its own; a private window keeps a page-granular overlay
(`cow` = pages already copied, `ovl` = their bytes) that is thrown away whenever the window is
re-mapped, exactly as `munmap`/`mmap(MAP_PRIVATE)` does.

Every function mirrors one function of the C code, branch by branch (names in the doc comments).
The code modelled is the tree **with** the fix of F29 (`_exfile_copy` also requires the source range
to lie in the first window). -/
namespace IwModel.Exf
open IwModel

/-! ## byte-array primitives (pread / pwrite / ftruncate on a byte list) -/

def zeros (n : Nat) : Bytes := List.replicate n 0

/-- `ftruncate(fd, n)`: cut, or extend with zero bytes -/
def resize (f : Bytes) (n : Nat) : Bytes := f.take n ++ zeros (n - f.length)

/-- `pread(fd, buf, n, off)`: short at end of file -/
def readAt (f : Bytes) (off n : Nat) : Bytes := (f.drop off).take n

/-- `pwrite(fd, d, |d|, off)`: extends the file (zero filled hole) when needed; nothing for no data -/
def writeAt (f : Bytes) (off : Nat) (d : Bytes) : Bytes :=
  match d with
  | [] => f
  | _ => resize f off ++ d ++ f.drop (off + d.length)

def roundUp (x ps : Nat) : Nat := (x + ps - 1) / ps * ps
def roundDown (x ps : Nat) : Nat := x / ps * ps
def offTMax : Nat := 2 ^ 63 - 1

/-! ## state -/

inductive Policy where
  | dflt
  | fibo
  | mul (n d : Nat)
deriving Repr, DecidableEq, Inhabited

/-- `MMAPSLOT` -/
structure Slot where
  off : Nat
  maxlen : Nat
  len : Nat
  priv : Bool
  /-- slot-relative page numbers that were written through this private mapping (copied on write) -/
  cow : List Nat := []
  /-- private copies, slot relative; meaningful on `cow` pages only -/
  ovl : Bytes := []
deriving Repr, Inhabited

inductive Rc where
  | ok | oob | maxoff | policy | overflow | notaligned | overlap | notmapped | range
deriving Repr, DecidableEq, Inhabited

def Rc.name : Rc → String
  | .ok => "ok" | .oob => "oob" | .maxoff => "maxoff" | .policy => "policy" | .overflow => "overflow"
  | .notaligned => "notaligned" | .overlap => "overlap" | .notmapped => "notmapped" | .range => "range"

/-- `EXF` (+ the file it wraps) -/
structure St where
  psize : Nat
  /-- `sizeof(buf)` of `iwp_copy_bytes` -/
  cbuf : Nat
  isOpen : Bool := false
  fsize : Nat := 0
  file : Bytes := []
  maxoff : Nat := 0
  pol : Policy := .dflt
  /-- `prev_sz` of the Fibonacci policy context -/
  prev : Nat := 0
  slots : List Slot := []
deriving Inhabited

/-! ## windows -/

/-- new length of a window for a file size: `_exfile_initmmap_slot_lw` -/
def slotLen (s : Slot) (fsize : Nat) : Nat :=
  if s.off ≥ fsize then 0 else min s.maxlen (fsize - s.off)

/-- `_exfile_initmmap_slot_lw`: nothing happens when the length is unchanged; otherwise the window is
    unmapped and mapped again, which drops the pages of a private mapping -/
def remapSlot (fsize : Nat) (s : Slot) : Slot :=
  let nlen := slotLen s fsize
  if nlen = s.len then s else { s with len := nlen, cow := [], ovl := [] }

/-- `_exfile_initmmap_lw` -/
def remapAll (fsize : Nat) (slots : List Slot) : List Slot := slots.map (remapSlot fsize)

/-- bytes `[r, r+n)` of a window as the process sees them (`r + n ≤ len`) -/
def slotRead (ps : Nat) (file : Bytes) (s : Slot) (r n : Nat) : Bytes :=
  if s.priv then
    let fa := file.toArray
    let oa := s.ovl.toArray
    (List.range n).map fun k =>
      let q := r + k
      if s.cow.contains (q / ps) then oa.getD q 0 else fa.getD (s.off + q) 0
  else readAt file (s.off + r) n

/-- copy-on-write of one page of a private window: snapshot the file page into the overlay -/
def cowPage (ps : Nat) (file : Bytes) (s : Slot) (p : Nat) : Slot :=
  if s.cow.contains p then s
  else { s with cow := p :: s.cow, ovl := writeAt s.ovl (p * ps) (readAt file (s.off + p * ps) ps) }

/-- store `d` at slot-relative `r` (`r + |d| ≤ len`): returns the window and the file -/
def slotWrite (ps : Nat) (file : Bytes) (s : Slot) (r : Nat) (d : Bytes) : Slot × Bytes :=
  match d with
  | [] => (s, file)
  | _ =>
    if s.priv then
      let p0 := r / ps
      let p1 := (r + d.length - 1) / ps
      let s1 := (List.range (p1 + 1 - p0)).foldl (fun s k => cowPage ps file s (p0 + k)) s
      ({ s1 with ovl := writeAt s1.ovl r d }, file)
    else (s, writeAt file (s.off + r) d)

/-! ## request splitting: the loop shared by `_exfile_write` and `_exfile_read` -/

/-- one piece of a request: through the file (`slot = none`) or through window number `k` -/
structure Seg where
  slot : Option Nat
  off : Nat
  len : Nat
deriving Repr, DecidableEq

/-- a piece, unless it is empty -/
def optSeg (slot : Option Nat) (off len : Nat) : List Seg := if len > 0 then [⟨slot, off, len⟩] else []

/-- `if (s->off > off) len = MIN(wp, s->off - off)`: the part in front of the window, through the file -/
def preLen (s : Slot) (off n : Nat) : Nat := if s.off > off then min n (s.off - off) else 0

/-- `if (wp > 0 && s->off <= off && s->off + s->len > off) len = MIN(wp, s->off + s->len - off)`: the part inside the window -/
def midLen (s : Slot) (off n : Nat) : Nat :=
  if n > 0 ∧ s.off ≤ off ∧ off < s.off + s.len then min n (s.off + s.len - off) else 0

/-- the `while (s && wp > 0)` loop followed by the `if (wp > 0)` tail, as a list of pieces.
    `k` numbers the windows from the head of the list. -/
def segs : List Slot → Nat → Nat → Nat → List Seg
  | [], _, off, n => optSeg none off n
  | s :: rest, k, off, n =>
    if n = 0 then []
    else if s.len = 0 ∨ off + n ≤ s.off then [⟨none, off, n⟩]
    else
      let l1 := preLen s off n
      let l2 := midLen s (off + l1) (n - l1)
      optSeg none off l1 ++ optSeg (some k) (off + l1) l2 ++ segs rest (k + 1) (off + l1 + l2) (n - l1 - l2)

/-- read one piece -/
def readSeg (ps : Nat) (file : Bytes) (slots : List Slot) (g : Seg) : Bytes :=
  match g.slot with
  | none => readAt file g.off g.len
  | some k =>
    match slots[k]? with
    | some s => slotRead ps file s (g.off - s.off) g.len
    | none => []

/-- write one piece -/
def writeSeg (ps : Nat) (file : Bytes) (slots : List Slot) (g : Seg) (d : Bytes) : List Slot × Bytes :=
  match g.slot with
  | none => (slots, writeAt file g.off d)
  | some k =>
    match slots[k]? with
    | some s =>
      let (s', file') := slotWrite ps file s (g.off - s.off) d
      (slots.set k s', file')
    | none => (slots, file)

def writeSegs (ps : Nat) : List Seg → Bytes → List Slot → Bytes → List Slot × Bytes
  | [], _, slots, file => (slots, file)
  | g :: gs, d, slots, file =>
    let (slots', file') := writeSeg ps file slots g (d.take g.len)
    writeSegs ps gs (d.drop g.len) slots' file'

/-! ## sizes -/

/-- the three resize policies; returns the proposed size and the new Fibonacci context -/
def policy (ps : Nat) (pol : Policy) (prev nsize csize : Nat) : Nat × Nat :=
  match pol with
  | .dflt => (roundUp nsize ps, prev)
  | .fibo => (min (roundUp (max (csize + prev) nsize) ps) offTMax, csize)
  | .mul n d =>
    if d = 0 ∨ n < d then (roundUp nsize ps, prev)
    else (min (roundUp (nsize / d * n) ps) offTMax, prev)

/-- `_exfile_truncate_lw` (no listener) -/
def truncate (st : St) (size : Nat) : Rc × St :=
  let size := roundUp size st.psize
  if st.fsize = size then (.ok, st)
  else if st.fsize < size then
    if st.maxoff ≠ 0 ∧ size > st.maxoff then (.maxoff, st)
    else (.ok, { st with fsize := size, file := resize st.file size, slots := remapAll size st.slots })
  else (.ok, { st with fsize := size, file := resize st.file size, slots := remapAll size st.slots })

/-- `_exfile_ensure_size_lw` -/
def ensureSize (st : St) (sz : Nat) : Rc × St :=
  if st.fsize ≥ sz then (.ok, st)
  else
    let (nsz, prev') := policy st.psize st.pol st.prev sz st.fsize
    let st := { st with prev := prev' }
    if nsz < sz ∨ nsz % st.psize ≠ 0 then (.policy, st)
    else if st.maxoff ≠ 0 ∧ nsz > st.maxoff then
      if st.maxoff < sz then (.maxoff, st) else truncate st st.maxoff
    else truncate st nsz

/-! ## read / write / copy -/

/-- `_exfile_write`; offsets are `off_t`: negative ones and sums beyond `OFF_T_MAX` are refused -/
def write (st : St) (off : Int) (d : Bytes) : Rc × Nat × St :=
  if off < 0 ∨ off + d.length > offTMax then (.oob, 0, st)
  else
    let off := off.toNat
    let fin := off + d.length
    if st.maxoff ≠ 0 ∧ fin > st.maxoff then (.maxoff, 0, st)
    else
      let (rc, st) := if fin > st.fsize then ensureSize st fin else (.ok, st)
      if rc ≠ .ok then (rc, 0, st)
      else
        let (slots, file) := writeSegs st.psize (segs st.slots 0 off d.length) d st.slots st.file
        (.ok, d.length, { st with slots := slots, file := file })

/-- `_exfile_read` -/
def read (st : St) (off : Int) (n : Nat) : Rc × Bytes :=
  if off < 0 ∨ off + n > offTMax then (.oob, [])
  else
    let off := off.toNat
    let n := if off + n > st.fsize then st.fsize - off else n
    (.ok, (segs st.slots 0 off n).flatMap (readSeg st.psize st.file st.slots))

/-- `IW_RANGES_OVERLAP` -/
def rangesOverlap (s1 e1 s2 e2 : Nat) : Bool :=
  (e1 > s2 && e1 ≤ e2) || (s1 ≥ s2 && s1 < e2) || (s1 ≤ s2 && e1 ≥ e2)

/-- the chunk loop of `iwp_copy_bytes`; every round moves at least one byte, so `siz` rounds of fuel suffice -/
def copyLoop (cbuf : Nat) : Nat → Bytes → Nat → Nat → Nat → Nat → Bytes
  | 0, file, _, _, _, _ => file
  | fuel + 1, file, off, siz, noff, pos =>
    if pos < siz then
      let chunk := readAt file (off + pos) (min cbuf (siz - pos))
      if chunk.length = 0 then file
      else copyLoop cbuf fuel (writeAt file (noff + pos) chunk) off siz noff (pos + chunk.length)
    else file

/-- `iwp_copy_bytes` through `_iwfs_copy` -/
def fileCopy (cbuf : Nat) (file : Bytes) (off siz noff : Nat) : Rc × Bytes :=
  if rangesOverlap off (off + siz) noff (noff + siz) && noff > off then (.overflow, file)
  else (.ok, copyLoop cbuf siz file off siz noff 0)

/-- `_exfile_copy` (with the F29 fix: both ranges must lie in the first window for the memmove branch) -/
def copy (st : St) (off siz noff : Nat) : Rc × St :=
  match st.slots with
  | s :: rest =>
    if s.off = 0 ∧ s.len ≥ noff + siz ∧ s.len ≥ off + siz then
      let d := slotRead st.psize st.file s off siz
      let (s', file') := slotWrite st.psize st.file s noff d
      (.ok, { st with slots := s' :: rest, file := file' })
    else
      let (rc, file') := fileCopy st.cbuf st.file off siz noff
      (rc, { st with file := file' })
  | [] =>
    let (rc, file') := fileCopy st.cbuf st.file off siz noff
    (rc, { st with file := file' })

/-! ## window management -/

/-- the overlap scan and sorted insert of `_exfile_add_mmap_lw` -/
def insertSlot (ns : Slot) : List Slot → Option (List Slot)
  | [] => some [ns]
  | s :: rest =>
    if rangesOverlap s.off (s.off + s.maxlen) ns.off (ns.off + ns.maxlen) then none
    else if ns.off < s.off then some (ns :: s :: rest)
    else (insertSlot ns rest).map (s :: ·)

/-- `_exfile_add_mmap_lw` -/
def addMmap (st : St) (off maxlen : Nat) (priv : Bool) : Rc × St :=
  if off % st.psize ≠ 0 then (.notaligned, st)
  else
    let maxlen := min maxlen (offTMax - off)
    let tmp := roundUp maxlen st.psize
    let maxlen := if offTMax - off < tmp then roundDown maxlen st.psize else tmp
    if maxlen = 0 then (.oob, st)
    else
      let ns : Slot := { off := off, maxlen := maxlen, len := 0, priv := priv }
      let ns := { ns with len := slotLen ns st.fsize }
      match insertSlot ns st.slots with
      | none => (.overlap, st)
      | some slots => (.ok, { st with slots := slots })

def removeFirst (off : Nat) : List Slot → Option (List Slot)
  | [] => none
  | s :: rest => if s.off = off then some rest else (removeFirst off rest).map (s :: ·)

/-- `_exfile_remove_mmap_lw` -/
def removeMmap (st : St) (off : Nat) : Rc × St :=
  match removeFirst off st.slots with
  | none => (.notmapped, st)
  | some slots => (.ok, { st with slots := slots })

/-- `_exfile_probe_mmap_lr` / `_exfile_acquire_mmap`: length of the window that starts at `off` -/
def probeMmap (st : St) (off : Nat) : Rc × Nat :=
  match st.slots.find? (fun s => s.off == off) with
  | some s => if s.len = 0 then (.notmapped, 0) else (.ok, s.len)
  | none => (.notmapped, 0)

/-- a store through the pointer returned by `acquire_mmap` (what the allocator and the KV layer do):
    the window must start at `slotOff`, be mapped, and contain `[rel, rel + |d|)` -/
def mmapWrite (st : St) (slotOff rel : Nat) (d : Bytes) : Rc × St :=
  match st.slots.findIdx? (fun s => s.off == slotOff) with
  | some k =>
    match st.slots[k]? with
    | some s =>
      if s.len = 0 then (.notmapped, st)
      else if rel + d.length ≤ s.len then
        let (s', file') := slotWrite st.psize st.file s rel d
        (.ok, { st with slots := st.slots.set k s', file := file' })
      else (.range, st)
    | none => (.notmapped, st)
  | none => (.notmapped, st)

/-! ## open / close -/

/-- `iwfs_exfile_open` on the file left by the previous use (`trunc` = `IWFS_OTRUNC`) -/
def openFile (st : St) (pol : Policy) (maxoff initial : Nat) (trunc : Bool) : Rc × St :=
  let file := if trunc then [] else st.file
  let st0 : St := { psize := st.psize, cbuf := st.cbuf, isOpen := true, fsize := file.length, file := file,
                    maxoff := if maxoff ≥ st.psize then roundDown maxoff st.psize else 0,
                    pol := pol, prev := 0, slots := [] }
  let (rc, st1) :=
    if st0.fsize < initial then truncate st0 initial
    else if st0.fsize % st0.psize ≠ 0 then truncate st0 st0.fsize
    else (.ok, st0)
  if rc = .ok then (rc, st1) else (rc, { st1 with isOpen := false })

/-- `_exfile_close`: windows go away, the file stays -/
def close (st : St) : St := { st with isOpen := false, slots := [] }

/-! ## operations as data (what the driver runs and the theorems quantify over) -/

inductive Op where
  | write (off : Int) (d : Bytes)
  | read (off : Int) (n : Nat)
  | copy (off siz noff : Nat)
  | truncate (size : Nat)
  | ensure (size : Nat)
  | addMmap (off maxlen : Nat) (priv : Bool)
  | removeMmap (off : Nat)
  | mmapWrite (slotOff rel : Nat) (d : Bytes)
  | remapAll
deriving Repr

/-- one call on an open file: new state, return code, bytes returned (reads only) -/
def exec (st : St) : Op → St × Rc × Bytes
  | .write off d => let (rc, _, st') := write st off d; (st', rc, [])
  | .read off n => let (rc, bs) := read st off n; (st, rc, bs)
  | .copy off siz noff => let (rc, st') := copy st off siz noff; (st', rc, [])
  | .truncate size => let (rc, st') := truncate st size; (st', rc, [])
  | .ensure size => let (rc, st') := ensureSize st size; (st', rc, [])
  | .addMmap off maxlen priv => let (rc, st') := addMmap st off maxlen priv; (st', rc, [])
  | .removeMmap off => let (rc, st') := removeMmap st off; (st', rc, [])
  | .mmapWrite so rel d => let (rc, st') := mmapWrite st so rel d; (st', rc, [])
  | .remapAll => ({ st with slots := remapAll st.fsize st.slots }, .ok, [])

/-- a whole history: final state and the list of results -/
def run (st : St) : List Op → St × List (Rc × Bytes)
  | [] => (st, [])
  | op :: ops =>
    let (st', rc, bs) := exec st op
    let (st'', outs) := run st' ops
    (st'', (rc, bs) :: outs)

/-- the test data of the protocol: byte `i` is `(seed + i) % 251` -/
def pattern (seed len : Nat) : Bytes := (List.range len).map fun i => (seed + i) % 251

/-- FNV-1a (32 bit) of a byte string, to keep result lines short -/
def fnv32 (bs : Bytes) : Nat := bs.foldl (fun h b => ((h ^^^ b) * 16777619) % 4294967296) 2166136261

end IwModel.Exf
